(* The socket core (internal/core/{socket,pipe,dialer,listener}.go) over a virtual transport and a recording
   mock protocol: pipe lifecycle (addPipe / Close / remPipe with the event hook), the global pipe-id
   accounting, listeners' accept loops, dialers with redial timers and back-off.  One step = one stimulus
   plus everything the library then does until quiescence.  No proofs here. *)
From Coq Require Export String.
From Coq Require Export List NArith Bool.
Export ListNotations.
Open Scope N_scope.

Inductive dres := DOk | DRefused.

Inductive kstim :=
| KListen (t l : N) (fail : bool)        (* NewListener + Listen on a fresh address; fail = the transport's Listen errs *)
| KListenAgain (t l : N)
| KConnect (l p : N)                     (* a peer connects: the pending Accept returns pipe p *)
| KAcceptErr (l : N)
| KCloseListener (t l : N)
| KNewDialer (d : N) (asynch : bool) (dmin dmax : N)
| KDial (t d : N)                        (* Dial() as API call t in its own goroutine *)
| KResolve (d : N) (r : dres) (p : N)    (* the oldest pending transport Dial of d returns *)
| KCloseDialer (t d : N)
| KPipeFail (p : N)                      (* the transport's Recv fails *)
| KPipeClose (p : N)                     (* the application calls Pipe.Close() *)
| KHookPolicy (n : N)                    (* the hook closes pipes: 0 never, 1 during Attaching, 2 during Attached *)
| KProtoRefuse (b : bool)
| KCloseSock (t : N)
| KPass (until : N)
| KTick (tm : N).

Inductive kobs :=
| HAttaching (p : N) | HAttached (p : N) | HDetached (p : N)
| PAdd (p : N) (accepted : bool) | PRemove (p : N)
| TClose (p : N)                         (* the library closed the transport pipe *)
| DialAttempt (d : N)
| KRet (t : N) (e : N)                   (* 0 = nil *)
| Ids (n : N)                            (* pipe ids in use in the process (relative to the start) *)
| Listed (n : N).                        (* pipes the socket lists *)

Definition KEClosed := 1. Definition KEAddrInUse := 10. Definition KERefused := 11. Definition KEOther := 99.

Inductive owner := OwnL (l : N) | OwnD (d : N).
Record kpipe := { kp : N; kowner : owner; kadded : bool; kclosing : bool; klisted : bool; kid : bool; ktclosed : bool }.
Record klistener := { kl : N; kl_closed : bool; kl_active : bool; kl_serving : bool }.
(* a redial timer is due somewhere in [lo, hi] (the back-off factor is random in [1.1, 1.5]) *)
Record ktimer := { kt_d : N; kt_lo : N; kt_hi : N; kt_stoppable : bool }.
Record kdialer := { kd : N; kd_closed : bool; kd_active : bool; kd_asynch : bool; kd_min : N; kd_max : N;
                    kd_lo : N; kd_hi : N;            (* reconnTime is within [lo, hi], in 1/10 ms *)
                    kd_pending : list (option N) }.  (* pending transport dials: Some t = the synchronous call t waits on it *)

Record kstate := {
  kpipes : list kpipe; klisteners : list klistener; kdialers : list kdialer; ktimers : list ktimer;
  ksclosed : bool; kpolicy : N; krefuse : bool; know : N; kout : list kobs; kambig : bool;
}.

Definition kinit : kstate :=
  {| kpipes := []; klisteners := []; kdialers := []; ktimers := []; ksclosed := false; kpolicy := 0; krefuse := false;
     know := 0; kout := []; kambig := false |}.

Definition kemit (s : kstate) (o : kobs) : kstate :=
  {| kpipes := kpipes s; klisteners := klisteners s; kdialers := kdialers s; ktimers := ktimers s; ksclosed := ksclosed s;
     kpolicy := kpolicy s; krefuse := krefuse s; know := know s; kout := o :: kout s; kambig := kambig s |}.
Definition kset_pipes (s : kstate) (ps : list kpipe) : kstate :=
  {| kpipes := ps; klisteners := klisteners s; kdialers := kdialers s; ktimers := ktimers s; ksclosed := ksclosed s;
     kpolicy := kpolicy s; krefuse := krefuse s; know := know s; kout := kout s; kambig := kambig s |}.
Definition kset_listeners (s : kstate) (ls : list klistener) : kstate :=
  {| kpipes := kpipes s; klisteners := ls; kdialers := kdialers s; ktimers := ktimers s; ksclosed := ksclosed s;
     kpolicy := kpolicy s; krefuse := krefuse s; know := know s; kout := kout s; kambig := kambig s |}.
Definition kset_dialers (s : kstate) (ds : list kdialer) : kstate :=
  {| kpipes := kpipes s; klisteners := klisteners s; kdialers := ds; ktimers := ktimers s; ksclosed := ksclosed s;
     kpolicy := kpolicy s; krefuse := krefuse s; know := know s; kout := kout s; kambig := kambig s |}.
Definition kset_timers (s : kstate) (ts : list ktimer) : kstate :=
  {| kpipes := kpipes s; klisteners := klisteners s; kdialers := kdialers s; ktimers := ts; ksclosed := ksclosed s;
     kpolicy := kpolicy s; krefuse := krefuse s; know := know s; kout := kout s; kambig := kambig s |}.
Definition kset_misc (s : kstate) (closed : bool) (pol : N) (refuse : bool) (nw : N) (amb : bool) : kstate :=
  {| kpipes := kpipes s; klisteners := klisteners s; kdialers := kdialers s; ktimers := ktimers s; ksclosed := closed;
     kpolicy := pol; krefuse := refuse; know := nw; kout := kout s; kambig := amb |}.
Definition kclear (s : kstate) : kstate :=
  {| kpipes := kpipes s; klisteners := klisteners s; kdialers := kdialers s; ktimers := ktimers s; ksclosed := ksclosed s;
     kpolicy := kpolicy s; krefuse := krefuse s; know := know s; kout := []; kambig := kambig s |}.

Definition get_p (s : kstate) (p : N) : option kpipe := find (fun x => kp x =? p) (kpipes s).
Definition put_p (s : kstate) (x : kpipe) : kstate :=
  kset_pipes s (map (fun y => if kp y =? kp x then x else y) (kpipes s)).
Definition get_l (s : kstate) (l : N) : option klistener := find (fun x => kl x =? l) (klisteners s).
Definition put_l (s : kstate) (x : klistener) : kstate :=
  kset_listeners s (map (fun y => if kl y =? kl x then x else y) (klisteners s)).
Definition get_d (s : kstate) (d : N) : option kdialer := find (fun x => kd x =? d) (kdialers s).
Definition put_d (s : kstate) (x : kdialer) : kstate :=
  kset_dialers s (map (fun y => if kd y =? kd x then x else y) (kdialers s)).

Definition with_d (x : kdialer) closed active lo hi pending : kdialer :=
  {| kd := kd x; kd_closed := closed; kd_active := active; kd_asynch := kd_asynch x; kd_min := kd_min x; kd_max := kd_max x;
     kd_lo := lo; kd_hi := hi; kd_pending := pending |}.

(* d.pipeClosed(): time.AfterFunc(d.reconnTime, d.redial) -- not stoppable by Close *)
Definition pipe_closed_timer (s : kstate) (d : N) : kstate :=
  match get_d s d with
  | Some x => kset_timers s (ktimers s ++ [{| kt_d := d; kt_lo := know s * 10 + kd_lo x; kt_hi := know s * 10 + kd_hi x; kt_stoppable := false |}])
  | None => s
  end.

(* [idfix] = the repaired addPipe releases the id (and the listing) of a pipe that never got attached *)
(* pipe.Close() *)
Definition pipe_close (s : kstate) (p : N) : kstate :=
  match get_p s p with
  | None => s
  | Some x =>
    if ktclosed x then s       (* closeOnce *)
    else
      let s := kemit s (TClose p) in
      let x1 := {| kp := p; kowner := kowner x; kadded := kadded x; kclosing := true; klisted := klisted x; kid := kid x; ktclosed := true |} in
      let s := put_p s x1 in
      let s := if kadded x then
                 (* remPipe: proto.RemovePipe, unlist, then Detached hook and the id is released *)
                 let s := kemit s (PRemove p) in
                 let s := put_p s {| kp := p; kowner := kowner x; kadded := true; kclosing := true; klisted := false; kid := false; ktclosed := true |} in
                 kemit s (HDetached p)
               else s in
      match kowner x with
      | OwnD d => pipe_closed_timer s d
      | OwnL _ => s
      end
  end.

(* socket.addPipe *)
Definition add_pipe (idfix : bool) (s : kstate) (p : N) (o : owner) : kstate :=
  let s := kset_pipes s (kpipes s ++ [{| kp := p; kowner := o; kadded := false; kclosing := false; klisted := true; kid := true; ktclosed := false |}]) in
  let s := kemit s (HAttaching p) in
  let s := if kpolicy s =? 1 then pipe_close s p else s in
  match get_p s p with
  | None => s
  | Some x =>
    if kclosing x then
      (* closed during the Attaching hook *)
      if idfix then put_p s {| kp := p; kowner := o; kadded := false; kclosing := true; klisted := false; kid := false; ktclosed := ktclosed x |}
      else s
    else if krefuse s || ksclosed s then
      (* the protocol refuses the pipe *)
      let s := kemit s (PAdd p false) in
      let s := put_p s {| kp := p; kowner := o; kadded := false; kclosing := false; klisted := false; kid := negb idfix; ktclosed := false |} in
      pipe_close s p
    else
      let s := kemit s (PAdd p true) in
      let s := put_p s {| kp := p; kowner := o; kadded := true; kclosing := false; klisted := true; kid := true; ktclosed := false |} in
      (* dialer: pipeConnected resets the back-off *)
      let s := match o with
               | OwnD d => match get_d s d with
                           | Some dx => put_d s (with_d dx (kd_closed dx) (kd_active dx) (kd_min dx * 10) (kd_min dx * 10) (kd_pending dx))
                           | None => s end
               | OwnL _ => s end in
      let s := kemit s (HAttached p) in
      if kpolicy s =? 2 then pipe_close s p else s
  end.

(* d.dial(redial): the transport Dial is started if the dialer is open *)
Definition start_dial (s : kstate) (d : N) (waiter : option N) : kstate :=
  match get_d s d with
  | Some x =>
    if kd_closed x then
      match waiter with Some t => kemit s (KRet t KEClosed) | None => s end
    else kemit (put_d s (with_d x (kd_closed x) (kd_active x) (kd_lo x) (kd_hi x) (kd_pending x ++ [waiter]))) (DialAttempt d)
  | None => s
  end.

Definition ceil_mul (x num den : N) : N := (x * num + den - 1) / den.

(* the oldest pending transport dial returns.  [dialfix] = the repaired Dial() clears `active` when the
   synchronous first attempt fails *)
Definition resolve (idfix dialfix : bool) (s : kstate) (d : N) (r : dres) (p : N) : kstate :=
  match get_d s d with
  | Some x =>
    match kd_pending x with
    | [] => s
    | w :: rest =>
      let x := with_d x (kd_closed x) (kd_active x) (kd_lo x) (kd_hi x) rest in
      let s := put_d s x in
      match r with
      | DOk =>
        let s := add_pipe idfix s p (OwnD d) in
        match w with Some t => kemit s (KRet t 0) | None => s end
      | DRefused =>
        match w with
        | Some t =>
          if kd_asynch x then s (* cannot happen: asynchronous dials have no waiter *)
          else
            let s := kemit s (KRet t KERefused) in
            if dialfix then match get_d s d with
                            | Some y => put_d s (with_d y (kd_closed y) false (kd_lo y) (kd_hi y) (kd_pending y))
                            | None => s end
            else s
        | None =>
          (* redial: arm the timer with the current delay, then grow it (capped) when a maximum is set *)
          let tm := {| kt_d := d; kt_lo := know s * 10 + kd_lo x; kt_hi := know s * 10 + kd_hi x; kt_stoppable := true |} in
          let '(lo, hi) := if kd_max x =? 0 then (kd_lo x, kd_hi x)
                           else (N.min (kd_max x * 10) (kd_lo x * 11 / 10), N.min (kd_max x * 10) (ceil_mul (kd_hi x) 15 10)) in
          (* a new stoppable timer replaces d.redialer (the older one is no longer reachable by Stop) *)
          let ts := map (fun t => if (kt_d t =? d) && kt_stoppable t
                                  then {| kt_d := d; kt_lo := kt_lo t; kt_hi := kt_hi t; kt_stoppable := false |} else t) (ktimers s) in
          put_d (kset_timers s (ts ++ [tm])) (with_d x (kd_closed x) (kd_active x) lo hi rest)
        end
      end
    end
  | None => s
  end.

Definition ktol : N := 100.   (* 10 ms, in 1/10 ms *)

(* fire redial timers: certainly due (hi + tol <= now) fire; possibly due => ambiguous *)
Fixpoint fire_timers (fuel : nat) (s : kstate) : kstate :=
  match fuel with
  | O => s
  | S f =>
    let nw := know s * 10 in
    match filter (fun t => kt_hi t + ktol <=? nw) (ktimers s) with
    | [] => s
    | t :: _ =>
      (* remove one occurrence *)
      let fix rm (l : list ktimer) : list ktimer :=
        match l with
        | [] => []
        | y :: r => if (kt_d y =? kt_d t) && (kt_lo y =? kt_lo t) && (kt_hi y =? kt_hi t) && Bool.eqb (kt_stoppable y) (kt_stoppable t)
                    then r else y :: rm r
        end in
      let s := kset_timers s (rm (ktimers s)) in
      fire_timers f (start_dial s (kt_d t) None)
    end
  end.
Definition timers_uncertain (s : kstate) : bool :=
  let nw := know s * 10 in existsb (fun t => (kt_lo t <? nw + ktol) && (nw <? kt_hi t + ktol)) (ktimers s).

Definition count_ids (s : kstate) : N := N.of_nat (length (filter kid (kpipes s))).
Definition count_listed (s : kstate) : N := N.of_nat (length (filter klisted (kpipes s))).

Definition kstep_raw (idfix dialfix : bool) (s : kstate) (st : kstim) : kstate :=
  match st with
  | KListen t l fail =>
    if ksclosed s then kemit s (KRet t KEClosed)
    else if fail then kemit (kset_listeners s (klisteners s ++ [{| kl := l; kl_closed := false; kl_active := false; kl_serving := false |}])) (KRet t KEOther)
    else kemit (kset_listeners s (klisteners s ++ [{| kl := l; kl_closed := false; kl_active := true; kl_serving := true |}])) (KRet t 0)
  | KListenAgain t l =>
    match get_l s l with
    | Some x =>
      if kl_closed x then kemit s (KRet t KEClosed)
      else if kl_active x then kemit s (KRet t KEAddrInUse)
      else kemit (put_l s {| kl := l; kl_closed := false; kl_active := true; kl_serving := true |}) (KRet t 0)
    | None => s
    end
  | KConnect l p =>
    match get_l s l with
    | Some x => if kl_serving x && negb (kl_closed x) then add_pipe idfix s p (OwnL l) else s
    | None => s
    end
  | KAcceptErr l => s
  | KCloseListener t l =>
    match get_l s l with
    | Some x =>
      if kl_closed x then kemit s (KRet t KEClosed)
      else kemit (put_l s {| kl := l; kl_closed := true; kl_active := kl_active x; kl_serving := false |}) (KRet t 0)
    | None => s
    end
  | KNewDialer d asynch dmin dmax =>
    if ksclosed s then s
    else kset_dialers s (kdialers s ++ [{| kd := d; kd_closed := false; kd_active := false; kd_asynch := asynch; kd_min := dmin; kd_max := dmax;
                                           kd_lo := dmin * 10; kd_hi := dmin * 10; kd_pending := [] |}])
  | KDial t d =>
    match get_d s d with
    | Some x =>
      if kd_active x then kemit s (KRet t KEAddrInUse)
      else if kd_closed x then kemit s (KRet t KEClosed)
      else
        let s := put_d s (with_d x false true (kd_min x * 10) (kd_min x * 10) (kd_pending x)) in
        if kd_asynch x then kemit (start_dial s d None) (KRet t 0)
        else start_dial s d (Some t)
    | None => s
    end
  | KResolve d r p => resolve idfix dialfix s d r p
  | KCloseDialer t d =>
    match get_d s d with
    | Some x =>
      if kd_closed x then kemit s (KRet t KEClosed)
      else
        let s := kset_timers s (filter (fun tm => negb ((kt_d tm =? d) && kt_stoppable tm)) (ktimers s)) in
        kemit (put_d s (with_d x true (kd_active x) (kd_lo x) (kd_hi x) (kd_pending x))) (KRet t 0)
    | None => s
    end
  | KPipeFail p => pipe_close s p
  | KPipeClose p => pipe_close s p
  | KHookPolicy n => kset_misc s (ksclosed s) n (krefuse s) (know s) (kambig s)
  | KProtoRefuse b => kset_misc s (ksclosed s) (kpolicy s) b (know s) (kambig s)
  | KCloseSock t =>
    let s := kset_misc s true (kpolicy s) (krefuse s) (know s) (kambig s) in
    let s := fold_left (fun s x => if kl_closed x then s else put_l s {| kl := kl x; kl_closed := true; kl_active := kl_active x; kl_serving := false |})
                       (klisteners s) s in
    let s := fold_left (fun s x =>
               if kd_closed x then s
               else put_d (kset_timers s (filter (fun tm => negb ((kt_d tm =? kd x) && kt_stoppable tm)) (ktimers s)))
                          (with_d x true (kd_active x) (kd_lo x) (kd_hi x) (kd_pending x))) (kdialers s) s in
    let s := fold_left (fun s x => if klisted x then pipe_close s (kp x) else s) (kpipes s) s in
    kemit s (KRet t 0)
  | KPass until =>
    let s := kset_misc s (ksclosed s) (kpolicy s) (krefuse s) until (kambig s) in
    let s := fire_timers 32 s in
    kset_misc s (ksclosed s) (kpolicy s) (krefuse s) (know s) (kambig s || timers_uncertain s)
  | KTick tm =>
    let s := kset_misc s (ksclosed s) (kpolicy s) (krefuse s) (N.max (know s) tm) (kambig s) in
    kset_misc s (ksclosed s) (kpolicy s) (krefuse s) (know s)
              (kambig s || existsb (fun t => kt_lo t <? know s * 10 + ktol) (ktimers s))
  end.

Definition kstep (idfix dialfix : bool) (s : kstate) (st : kstim) : kstate * list kobs :=
  let s := kstep_raw idfix dialfix (kclear s) st in
  (s, rev (kout s) ++ [Ids (count_ids s); Listed (count_listed s)]).

(* calls still blocked: synchronous Dial calls waiting on a pending transport dial *)
Definition kblocked (s : kstate) : list N :=
  flat_map (fun x => flat_map (fun w => match w with Some t => [t] | None => [] end) (kd_pending x)) (kdialers s).

(* ---- checker (same scheme as Lib/Proto.check_from, over the core vocabulary) ---- *)
Definition kobs_eqb (a b : kobs) : bool :=
  match a, b with
  | HAttaching p, HAttaching q | HAttached p, HAttached q | HDetached p, HDetached q
  | PRemove p, PRemove q | TClose p, TClose q | DialAttempt p, DialAttempt q | Ids p, Ids q | Listed p, Listed q => p =? q
  | PAdd p x, PAdd q y => (p =? q) && Bool.eqb x y
  | KRet t e, KRet t' e' => (t =? t') && (e =? e')
  | _, _ => false
  end.
Fixpoint kremove_first (o : kobs) (l : list kobs) : option (list kobs) :=
  match l with
  | [] => None
  | x :: r => if kobs_eqb o x then Some r else match kremove_first o r with Some r' => Some (x :: r') | None => None end
  end.
Fixpoint kobs_perm (a b : list kobs) : bool :=
  match a with
  | [] => match b with [] => true | _ => false end
  | o :: a' => match kremove_first o b with Some b' => kobs_perm a' b' | None => false end
  end.
Fixpoint knl_eqb (a b : list N) : bool :=
  match a, b with [], [] => true | x :: a', y :: b' => (x =? y) && knl_eqb a' b' | _, _ => false end.
Fixpoint kins (x : N) (l : list N) : list N := match l with [] => [x] | y :: r => if x <=? y then x :: l else y :: kins x r end.
Definition ksort (l : list N) : list N := fold_right kins [] l.

Definition kstep_rec : Type := (kstim * list kobs * list N)%type.
Fixpoint kcheck_from (idfix dialfix : bool) (s : kstate) (i : N) (h : list kstep_rec) : option N :=
  match h with
  | [] => None
  | (st, os, bl) :: r =>
    let '(s', exp) := kstep idfix dialfix s st in
    if kambig s' then None
    else if kobs_perm exp os && knl_eqb (ksort (kblocked s')) (ksort bl) then kcheck_from idfix dialfix s' (N.succ i) r
    else
      (* the step took so long that a timer became (nearly) due within it: the next time-stamp tells *)
      match r with
      | (st2, _, _) :: _ => if kambig (fst (kstep idfix dialfix s' st2)) then None else Some i
      | [] => Some i
      end
  end.
Fixpoint kexplain_from (idfix dialfix : bool) (s : kstate) (h : list kstep_rec) : option (kstim * list kobs * list N * list kobs * list N) :=
  match h with
  | [] => None
  | (st, os, bl) :: r =>
    let '(s', exp) := kstep idfix dialfix s st in
    if kambig s' then None
    else if kobs_perm exp os && knl_eqb (ksort (kblocked s')) (ksort bl) then kexplain_from idfix dialfix s' r
    else Some (st, exp, ksort (kblocked s'), os, bl)
  end.
Fixpoint kambiguous_from (idfix dialfix : bool) (s : kstate) (i : N) (h : list kstep_rec) : option N :=
  match h with
  | [] => None
  | (st, _, _) :: r => let '(s', _) := kstep idfix dialfix s st in
                       if kambig s' then Some i else kambiguous_from idfix dialfix s' (N.succ i) r
  end.
