(* Receive filters of the protocols (pure part of each `receiver` goroutine): what is delivered
   upward, with which header, and what is dropped.  Mirrors protocol/{rep,xrep,respondent,xrespondent,
   xpair1,xstar,xreq,xsurveyor,xbus}/*.go `receiver`.  No proofs here. *)
From MV Require Export Lib.Bytes.
Open Scope N_scope.

Inductive rx := Deliver (hdr body : bytes) | Drop.

Inductive cmp := CmpGE | CmpGT.
(* the code's `if hops OP ttl { drop }` *)
Definition cmp_test (c : cmp) (hops ttl : N) : bool :=
  match c with CmpGE => ttl <=? hops | CmpGT => ttl <? hops end.

Definition high (b : byte) : bool := 128 <=? b2n b.

(* backtrace loop of rep/xrep/respondent/xrespondent: `hops` starts at `start`; each iteration
   first tests the hop limit, increments, then moves one 4-byte word from body to header and stops
   at the word whose top bit is set.  None = out of fuel (excluded by every theorem). *)
Fixpoint bt_loop (fuel : nat) (c : cmp) (ttl hops : N) (hdr body : bytes) : option rx :=
  match fuel with
  | O => None
  | S f =>
    if cmp_test c hops ttl then Some Drop
    else match body with
         | a :: b :: c' :: d :: rest =>
           if high a then Some (Deliver (hdr ++ [a; b; c'; d]) rest)
           else bt_loop f c ttl (hops + 1) (hdr ++ [a; b; c'; d]) rest
         | _ => Some Drop
         end
  end.

Definition bt (p : N * cmp) (ttl : N) (hdr body : bytes) : option rx :=
  bt_loop (S (length body)) (snd p) ttl (fst p) hdr body.

(* (start value of hops, comparison) as written in the code; gen/Consts.v re-extracts them from the
   source on every run and gen_props/C09 checks they are equal to these. *)
Definition rep_params : N * cmp := (0, CmpGE).
Definition respondent_params : N * cmp := (0, CmpGE).
Definition xrep_params : N * cmp := (1, CmpGT).
Definition xrespondent_params : N * cmp := (1, CmpGT).

Inductive receiver := RRep | RXRep | RRespondent | RXRespondent | RXPair1 | RXStar | RXReq | RXSurveyor | RXBus.

Definition rx_xpair1 (ttl : N) (body : bytes) : rx :=
  match body with
  | a :: b :: c :: d :: rest =>
    let hops := be_dec [a; b; c; d] in
    if (255 <=? hops) || (ttl <? hops) then Drop
    else Deliver [a; b; c; n2b (hops + 1)] rest
  | _ => Drop
  end.

Definition rx_xstar (ttl : N) (body : bytes) : rx :=
  match body with
  | a :: b :: c :: d :: rest =>
    if negb (b2n a =? 0) || negb (b2n b =? 0) || negb (b2n c =? 0) || (ttl <=? b2n d) then Drop
    else Deliver [a; b; c; n2b (b2n d + 1)] rest
  | _ => Drop
  end.

Definition rx_first_word (body : bytes) : rx :=
  match body with
  | a :: b :: c :: d :: rest => Deliver [a; b; c; d] rest
  | _ => Drop
  end.

(* pid = id of the pipe the message arrived on (raw REP/RESPONDENT/BUS put it in front) *)
Definition rx_model (r : receiver) (ttl pid : N) (body : bytes) : option rx :=
  match r with
  | RRep => bt rep_params ttl [] body
  | RRespondent => bt respondent_params ttl [] body
  | RXRep => bt xrep_params ttl (be_enc 4 pid) body
  | RXRespondent =>
    match body with
    | _ :: _ :: _ :: _ :: _ => bt xrespondent_params ttl (be_enc 4 pid) body
    | _ => Some Drop
    end
  | RXPair1 => Some (rx_xpair1 ttl body)
  | RXStar => Some (rx_xstar ttl body)
  | RXReq | RXSurveyor => Some (rx_first_word body)
  | RXBus => Some (Deliver (be_enc 4 pid) body)
  end.

(* what the application sees: cooked REP/RESPONDENT keep the header internally (backtrace) *)
Definition cooked_view (r : rx) : rx := match r with Deliver _ b => Deliver [] b | Drop => Drop end.

(* TTL option: accepted range and default *)
Definition ttl_accepts (v : Z) : bool := ((0 <? v) && (v <? 256))%Z.
Definition ttl_default : N := 8.

(* ---- the raw send sides used by devices ---- *)
(* xreq.SendMsg / xsurveyor.SendMsg: header then body go on the wire as is *)
Definition tx_raw_fwd (hdr body : bytes) : bytes := hdr ++ body.
(* xrep.SendMsg / xrespondent.SendMsg: first header word selects the pipe and is stripped *)
Definition tx_raw_back (hdr body : bytes) : option (N * bytes) :=
  match hdr with
  | a :: b :: c :: d :: rest => Some (be_dec [a; b; c; d], rest ++ body)
  | _ => None
  end.

(* a message that crossed connections: k-1 device words (top bit clear) then the id word (top bit set) *)
Definition low_word (w : bytes) : Prop := exists a b c d, w = [a; b; c; d] /\ high a = false.
Definition high_word (w : bytes) : Prop := exists a b c d, w = [a; b; c; d] /\ high a = true.
