(* Property oracles for C18 over L1 histories (decidable forms of the property's conclusions, evaluated on the
   IMPLEMENTATION's traces), and the dispatcher that checks a tagged history against the model of its protocol.
   A history of the l1deadline harness starts with the pseudo-step  (SCall 0 (CSetOpt 0 OTtl <proto> []), [], [])
   naming the protocol: 1 xpair, 2 xpush, 3 xpull, 4 xpub, 5 xreq, 6 xbus, 7 req, 8 rep, 9 respondent.

   Time: timed histories put `STick ms` before every stimulus (passes included).  A call started after the tick `lo`
   created its timer no earlier than lo and no later than the next time stamp `hi`. *)
From MV Require Import Lib.Proto.
From MV Require Model.Req Model.Deadline Model.DeadlineCtx.
Open Scope N_scope.

Fixpoint aget {V} (k : N) (l : list (N * V)) : option V :=
  match l with [] => None | (k', v) :: r => if k =? k' then Some v else aget k r end.
Fixpoint aset {V} (k : N) (v : V) (l : list (N * V)) : list (N * V) :=
  match l with [] => [(k, v)] | (k', v') :: r => if k =? k' then (k, v) :: r else (k', v') :: aset k v r end.

Record copts := { co_sd : N; co_rd : N; co_be : bool; co_fnp : bool }.
Definition copts0 := {| co_sd := 0; co_rd := 0; co_be := false; co_fnp := false |}.

Record ocall := { oc_t : N; oc_ctx : N; oc_send : bool; oc_lo : N; oc_hi : option N; oc_d : N; oc_be : bool;
                  oc_rs : bool }.   (* a queue length was changed while the call was blocked *)

Record ost := {
  os_now : N;                       (* latest time stamp *)
  os_opts : list (N * copts);       (* context -> options as accepted by SetOption *)
  os_calls : list ocall;            (* Send / Recv calls seen so far *)
  os_live : list N;                 (* attached pipes *)
  os_closed : bool }.
Definition ost0 := {| os_now := 0; os_opts := [(0, copts0)]; os_calls := []; os_live := []; os_closed := false |}.
(* REP's contexts start from the defaults; REQ's and RESPONDENT's inherit the socket's options *)
Definition inherits (tag : Z) : bool := negb (tag =? 8)%Z.

Definition ret_of (t : N) (os : list obs) : option ret :=
  match filter (fun o => match o with ORet t' _ => t' =? t | _ => false end) os with
  | ORet _ r :: _ => Some r
  | _ => None
  end.
Definition ret_ok (t : N) (os : list obs) : bool := match ret_of t os with Some ROk => true | _ => false end.
Definition opts_of (s : ost) (c : N) : copts := match aget c (os_opts s) with Some o => o | None => copts0 end.
Definition seal_calls (at_ : N) (l : list ocall) : list ocall :=
  map (fun c => match oc_hi c with
                | Some _ => c
                | None => {| oc_t := oc_t c; oc_ctx := oc_ctx c; oc_send := oc_send c; oc_lo := oc_lo c; oc_hi := Some at_; oc_d := oc_d c; oc_be := oc_be c; oc_rs := oc_rs c |}
                end) l.

(* bookkeeping common to the oracles: what the stimulus (and the verdict of a SetOption) changes *)
Definition mark_resized (bl : list N) (l : list ocall) : list ocall :=
  map (fun c => if existsb (N.eqb (oc_t c)) bl
                then {| oc_t := oc_t c; oc_ctx := oc_ctx c; oc_send := oc_send c; oc_lo := oc_lo c; oc_hi := oc_hi c; oc_d := oc_d c; oc_be := oc_be c; oc_rs := true |}
                else c) l.

Definition track (inh : bool) (s : ost) (st : stim) (os : list obs) (bl : list N) : ost :=
  match st with
  | STick a => {| os_now := N.max (os_now s) a; os_opts := os_opts s; os_calls := seal_calls a (os_calls s); os_live := os_live s; os_closed := os_closed s |}
  | SPass u => {| os_now := N.max (os_now s) u; os_opts := os_opts s; os_calls := seal_calls u (os_calls s); os_live := os_live s; os_closed := os_closed s |}
  | SAddPipe p => {| os_now := os_now s; os_opts := os_opts s; os_calls := os_calls s; os_live := p :: os_live s; os_closed := os_closed s |}
  | SDropPipe p => {| os_now := os_now s; os_opts := os_opts s; os_calls := os_calls s; os_live := filter (fun q => negb (q =? p)) (os_live s); os_closed := os_closed s |}
  | SRelease p false => {| os_now := os_now s; os_opts := os_opts s; os_calls := os_calls s; os_live := filter (fun q => negb (q =? p)) (os_live s); os_closed := os_closed s |}
  | SCall t (CSetOpt c o v _) =>
    if ret_ok t os then
      let x := opts_of s c in
      let x' := match o with
                | OSendDeadline => {| co_sd := Z.to_N v; co_rd := co_rd x; co_be := co_be x; co_fnp := co_fnp x |}
                | ORecvDeadline => {| co_sd := co_sd x; co_rd := Z.to_N v; co_be := co_be x; co_fnp := co_fnp x |}
                | OBestEffort => {| co_sd := co_sd x; co_rd := co_rd x; co_be := negb (v =? 0)%Z; co_fnp := co_fnp x |}
                | OFailNoPeers => {| co_sd := co_sd x; co_rd := co_rd x; co_be := co_be x; co_fnp := negb (v =? 0)%Z |}
                | _ => x
                end in
      let calls := match o with OReadQLen | OWriteQLen => mark_resized bl (os_calls s) | _ => os_calls s end in
      {| os_now := os_now s; os_opts := aset c x' (os_opts s); os_calls := calls; os_live := os_live s; os_closed := os_closed s |}
    else s
  | SCall t (COpenCtx c) =>
    if ret_ok t os then {| os_now := os_now s; os_opts := aset c (if inh then opts_of s 0 else copts0) (os_opts s); os_calls := os_calls s; os_live := os_live s; os_closed := os_closed s |}
    else s
  | SCall t (CSend c _ _) =>
    let x := opts_of s c in
    {| os_now := os_now s; os_opts := os_opts s; os_live := os_live s; os_closed := os_closed s;
       os_calls := {| oc_t := t; oc_ctx := c; oc_send := true; oc_lo := os_now s; oc_hi := None; oc_d := if co_be x then 0 else co_sd x; oc_be := co_be x; oc_rs := false |} :: os_calls s |}
  | SCall t (CRecv c) =>
    let x := opts_of s c in
    {| os_now := os_now s; os_opts := os_opts s; os_live := os_live s; os_closed := os_closed s;
       os_calls := {| oc_t := t; oc_ctx := c; oc_send := false; oc_lo := os_now s; oc_hi := None; oc_d := co_rd x; oc_be := false; oc_rs := false |} :: os_calls s |}
  | SCall t CCloseSock =>
    if ret_ok t os then {| os_now := os_now s; os_opts := os_opts s; os_calls := os_calls s; os_live := os_live s; os_closed := true |} else s
  | _ => s
  end.

Definition find_call (s : ost) (t : N) : option ocall := find (fun c => oc_t c =? t) (os_calls s).

(* the measured time by which everything observed in this step had happened *)
Definition step_end (st : stim) (r : list step_rec) : option N :=
  match st with
  | SPass u => Some u
  | _ => match r with (STick a, _, _) :: _ => Some a | (SPass u, _, _) :: _ => Some u | _ => None end
  end.

(* --- a timeout error only from a call that has that deadline, and never before it has elapsed --- *)
Definition early_step (s : ost) (st : stim) (os : list obs) (r : list step_rec) : bool :=
  forallb (fun o =>
    match o with
    | ORet t (RErr e) =>
      if (e =? ESendTimeout) || (e =? ERecvTimeout) then
        match find_call s t with
        | Some c =>
          (Bool.eqb (oc_send c) (e =? ESendTimeout)) && (0 <? oc_d c) && negb (oc_be c)
          && match step_end st r with Some te => oc_lo c + oc_d c <=? te | None => true end
        | None => false
        end
      else true
    | _ => true
    end) os.

(* --- a best-effort Send is never left blocked and never fails with a timeout --- *)
Definition be_step (s : ost) (os : list obs) (bl : list N) : bool :=
  forallb (fun c => negb (oc_send c && oc_be c)
                    || (negb (existsb (N.eqb (oc_t c)) bl)
                        && match ret_of (oc_t c) os with Some (RErr e) => negb (e =? ESendTimeout) | _ => true end)) (os_calls s).

(* --- a call with a deadline does not hang beyond it --- *)
Definition late_step (resized : bool) (s : ost) (st : stim) (bl : list N) : bool :=
  match st with
  | SPass u =>
    forallb (fun c => negb ((0 <? oc_d c) && Bool.eqb (oc_rs c) resized && existsb (N.eqb (oc_t c)) bl)
                      || match oc_hi c with Some h => u <? h + oc_d c + Deadline.tol | None => true end) (os_calls s)
  | _ => true
  end.

(* --- fail-no-peers: with no pipe attached Send / Recv return at once, and no call of such a context stays blocked
       when the last pipe leaves --- *)
Definition np_step (s0 s : ost) (st : stim) (os : list obs) (bl : list N) : bool :=
  if os_closed s then true else
  match os_live s with
  | _ :: _ => true
  | [] =>
    match st with
    | SCall t (CSend c _ _) | SCall t (CRecv c) =>
      negb (co_fnp (opts_of s c))
      || match ret_of t os with Some (RErr e) => (e =? ENoPeers) || (e =? EClosed) || (e =? EProtoOp) | _ => false end
    | SDropPipe _ | SRelease _ false =>
      forallb (fun c => negb (co_fnp (opts_of s (oc_ctx c))) || negb (existsb (N.eqb (oc_t c)) bl)) (os_calls s)
    | _ => true
    end
  end.

Definition skip_tag (h : list step_rec) : list step_rec * N * bool :=
  match h with
  | (SCall 0 (CSetOpt 0 OTtl p []), [], []) :: r => (r, 1, inherits p)
  | _ => (h, 0, true)
  end.

Fixpoint oracle_from (inh : bool) (f : ost -> ost -> stim -> list obs -> list N -> list step_rec -> bool)
                     (s : ost) (i : N) (h : list step_rec) : option N :=
  match h with
  | [] => None
  | (st, os, bl) :: r =>
    let s' := track inh s st os bl in
    if f s s' st os bl r then oracle_from inh f s' (N.succ i) r else Some i
  end.
Definition run_oracle f (h : list step_rec) : option N := let '(r, i, inh) := skip_tag h in oracle_from inh f ost0 i r.

Definition c18_early_oracle := run_oracle (fun _ s' st os _ r => early_step s' st os r).
Definition c18_besteffort_oracle := run_oracle (fun _ s' _ os bl _ => be_step s' os bl).
Definition c18_late_oracle := run_oracle (fun _ s' st _ bl _ => late_step false s' st bl).
(* the same for calls during which WRITEQ-LEN / READQ-LEN was changed (several protocols re-create the timer then) *)
Definition c18_late_resize_oracle := run_oracle (fun _ s' st _ bl _ => late_step true s' st bl).
Definition c18_nopeers_oracle := run_oracle (fun s s' st os bl _ => np_step s s' st os bl).

(* ---- model dispatch on the protocol tag ---- *)
Definition proto_cfg (n : Z) : option Deadline.cfg :=
  match n with
  | 1%Z => Some Deadline.cfg_xpair | 2%Z => Some Deadline.cfg_xpush | 3%Z => Some Deadline.cfg_xpull
  | 4%Z => Some Deadline.cfg_xpub | 5%Z => Some Deadline.cfg_xreq | 6%Z => Some Deadline.cfg_xbus
  | _ => None
  end.

Definition c18_check (h : list step_rec) : option N :=
  match h with
  | (SCall 0 (CSetOpt 0 OTtl p []), _, _) :: r =>
    if (p =? 7)%Z then check_from (Req.req_model true) Req.init 1 r
    else if (p =? 8)%Z then Deadline.ncheck_gen DeadlineCtx.cnmodel [DeadlineCtx.cinit DeadlineCtx.KRep] 1 r
    else if (p =? 9)%Z then Deadline.ncheck_gen DeadlineCtx.cnmodel [DeadlineCtx.cinit DeadlineCtx.KResp] 1 r
    else match proto_cfg p with
         | Some k => Deadline.ncheck_from k [Deadline.qinit] 1 r
         | None => Some 0
         end
  | _ => Some 0
  end.
Definition c18_ambiguous (h : list step_rec) : option N :=
  match h with
  | (SCall 0 (CSetOpt 0 OTtl p []), _, _) :: r =>
    if (p =? 7)%Z then ambiguous_from (Req.req_model true) Req.init 1 r
    else if (p =? 8)%Z then Deadline.nambiguous_gen DeadlineCtx.cnmodel [DeadlineCtx.cinit DeadlineCtx.KRep] 1 r
    else if (p =? 9)%Z then Deadline.nambiguous_gen DeadlineCtx.cnmodel [DeadlineCtx.cinit DeadlineCtx.KResp] 1 r
    else match proto_cfg p with
         | Some k => Deadline.nambiguous_from k [Deadline.qinit] 1 r
         | None => None
         end
  | _ => None
  end.
