(* PAIR (protocol/xpair, xpair1, pair, pair1), PUSH (xpush, push) and PULL (xpull, pull) as deterministic
   machines over the L1 stimuli.  One step = one stimulus plus everything the library's goroutines then
   do until quiescence.  Conventions (selector step, pipe ids, refused attach) are in Model/Chan.v.
   The models follow the code as it is (including xpush's scheduler test `len(s.sendQ) == 0`, which never
   sees a message on an unbuffered channel).  No proofs here. *)
From MV Require Export Model.Chan.
Open Scope N_scope.

(* ============================== PAIR ============================== *)
(* socket: closed, peer (at most one), sendQ (sq, capacity sqlen) with the SendMsg calls blocked on it (bs),
   recvQ (rq, rqlen) with blocked RecvMsg calls (br) and the peer's receiver goroutine holding a message (rxw),
   the mock peer pipe's mode (hold) and whether its sender goroutine is inside the pipe's SendMsg (infl). *)
Record pair := {
  pa_closed : bool;
  pa_peer : option N;
  pa_hold : bool;
  pa_infl : bool;
  pa_sq : list msg;
  pa_sqlen : N;
  pa_bs : list bsend;
  pa_rq : list msg;
  pa_rqlen : N;
  pa_br : list brecv;
  pa_rxw : list (N * msg);
  pa_best : bool;
  pa_sexp : N;
  pa_rexp : N;
  pa_ttl : N;
  pa_now : N;
  pa_amb : bool }.
Definition set_pa_closed (s : pair) (v : bool) : pair :=
  {| pa_closed := v; pa_peer := pa_peer s; pa_hold := pa_hold s; pa_infl := pa_infl s; pa_sq := pa_sq s; pa_sqlen := pa_sqlen s; pa_bs := pa_bs s; pa_rq := pa_rq s; pa_rqlen := pa_rqlen s; pa_br := pa_br s; pa_rxw := pa_rxw s; pa_best := pa_best s; pa_sexp := pa_sexp s; pa_rexp := pa_rexp s; pa_ttl := pa_ttl s; pa_now := pa_now s; pa_amb := pa_amb s |}.
Definition set_pa_peer (s : pair) (v : option N) : pair :=
  {| pa_closed := pa_closed s; pa_peer := v; pa_hold := pa_hold s; pa_infl := pa_infl s; pa_sq := pa_sq s; pa_sqlen := pa_sqlen s; pa_bs := pa_bs s; pa_rq := pa_rq s; pa_rqlen := pa_rqlen s; pa_br := pa_br s; pa_rxw := pa_rxw s; pa_best := pa_best s; pa_sexp := pa_sexp s; pa_rexp := pa_rexp s; pa_ttl := pa_ttl s; pa_now := pa_now s; pa_amb := pa_amb s |}.
Definition set_pa_hold (s : pair) (v : bool) : pair :=
  {| pa_closed := pa_closed s; pa_peer := pa_peer s; pa_hold := v; pa_infl := pa_infl s; pa_sq := pa_sq s; pa_sqlen := pa_sqlen s; pa_bs := pa_bs s; pa_rq := pa_rq s; pa_rqlen := pa_rqlen s; pa_br := pa_br s; pa_rxw := pa_rxw s; pa_best := pa_best s; pa_sexp := pa_sexp s; pa_rexp := pa_rexp s; pa_ttl := pa_ttl s; pa_now := pa_now s; pa_amb := pa_amb s |}.
Definition set_pa_infl (s : pair) (v : bool) : pair :=
  {| pa_closed := pa_closed s; pa_peer := pa_peer s; pa_hold := pa_hold s; pa_infl := v; pa_sq := pa_sq s; pa_sqlen := pa_sqlen s; pa_bs := pa_bs s; pa_rq := pa_rq s; pa_rqlen := pa_rqlen s; pa_br := pa_br s; pa_rxw := pa_rxw s; pa_best := pa_best s; pa_sexp := pa_sexp s; pa_rexp := pa_rexp s; pa_ttl := pa_ttl s; pa_now := pa_now s; pa_amb := pa_amb s |}.
Definition set_pa_sq (s : pair) (v : list msg) : pair :=
  {| pa_closed := pa_closed s; pa_peer := pa_peer s; pa_hold := pa_hold s; pa_infl := pa_infl s; pa_sq := v; pa_sqlen := pa_sqlen s; pa_bs := pa_bs s; pa_rq := pa_rq s; pa_rqlen := pa_rqlen s; pa_br := pa_br s; pa_rxw := pa_rxw s; pa_best := pa_best s; pa_sexp := pa_sexp s; pa_rexp := pa_rexp s; pa_ttl := pa_ttl s; pa_now := pa_now s; pa_amb := pa_amb s |}.
Definition set_pa_sqlen (s : pair) (v : N) : pair :=
  {| pa_closed := pa_closed s; pa_peer := pa_peer s; pa_hold := pa_hold s; pa_infl := pa_infl s; pa_sq := pa_sq s; pa_sqlen := v; pa_bs := pa_bs s; pa_rq := pa_rq s; pa_rqlen := pa_rqlen s; pa_br := pa_br s; pa_rxw := pa_rxw s; pa_best := pa_best s; pa_sexp := pa_sexp s; pa_rexp := pa_rexp s; pa_ttl := pa_ttl s; pa_now := pa_now s; pa_amb := pa_amb s |}.
Definition set_pa_bs (s : pair) (v : list bsend) : pair :=
  {| pa_closed := pa_closed s; pa_peer := pa_peer s; pa_hold := pa_hold s; pa_infl := pa_infl s; pa_sq := pa_sq s; pa_sqlen := pa_sqlen s; pa_bs := v; pa_rq := pa_rq s; pa_rqlen := pa_rqlen s; pa_br := pa_br s; pa_rxw := pa_rxw s; pa_best := pa_best s; pa_sexp := pa_sexp s; pa_rexp := pa_rexp s; pa_ttl := pa_ttl s; pa_now := pa_now s; pa_amb := pa_amb s |}.
Definition set_pa_rq (s : pair) (v : list msg) : pair :=
  {| pa_closed := pa_closed s; pa_peer := pa_peer s; pa_hold := pa_hold s; pa_infl := pa_infl s; pa_sq := pa_sq s; pa_sqlen := pa_sqlen s; pa_bs := pa_bs s; pa_rq := v; pa_rqlen := pa_rqlen s; pa_br := pa_br s; pa_rxw := pa_rxw s; pa_best := pa_best s; pa_sexp := pa_sexp s; pa_rexp := pa_rexp s; pa_ttl := pa_ttl s; pa_now := pa_now s; pa_amb := pa_amb s |}.
Definition set_pa_rqlen (s : pair) (v : N) : pair :=
  {| pa_closed := pa_closed s; pa_peer := pa_peer s; pa_hold := pa_hold s; pa_infl := pa_infl s; pa_sq := pa_sq s; pa_sqlen := pa_sqlen s; pa_bs := pa_bs s; pa_rq := pa_rq s; pa_rqlen := v; pa_br := pa_br s; pa_rxw := pa_rxw s; pa_best := pa_best s; pa_sexp := pa_sexp s; pa_rexp := pa_rexp s; pa_ttl := pa_ttl s; pa_now := pa_now s; pa_amb := pa_amb s |}.
Definition set_pa_br (s : pair) (v : list brecv) : pair :=
  {| pa_closed := pa_closed s; pa_peer := pa_peer s; pa_hold := pa_hold s; pa_infl := pa_infl s; pa_sq := pa_sq s; pa_sqlen := pa_sqlen s; pa_bs := pa_bs s; pa_rq := pa_rq s; pa_rqlen := pa_rqlen s; pa_br := v; pa_rxw := pa_rxw s; pa_best := pa_best s; pa_sexp := pa_sexp s; pa_rexp := pa_rexp s; pa_ttl := pa_ttl s; pa_now := pa_now s; pa_amb := pa_amb s |}.
Definition set_pa_rxw (s : pair) (v : list (N * msg)) : pair :=
  {| pa_closed := pa_closed s; pa_peer := pa_peer s; pa_hold := pa_hold s; pa_infl := pa_infl s; pa_sq := pa_sq s; pa_sqlen := pa_sqlen s; pa_bs := pa_bs s; pa_rq := pa_rq s; pa_rqlen := pa_rqlen s; pa_br := pa_br s; pa_rxw := v; pa_best := pa_best s; pa_sexp := pa_sexp s; pa_rexp := pa_rexp s; pa_ttl := pa_ttl s; pa_now := pa_now s; pa_amb := pa_amb s |}.
Definition set_pa_best (s : pair) (v : bool) : pair :=
  {| pa_closed := pa_closed s; pa_peer := pa_peer s; pa_hold := pa_hold s; pa_infl := pa_infl s; pa_sq := pa_sq s; pa_sqlen := pa_sqlen s; pa_bs := pa_bs s; pa_rq := pa_rq s; pa_rqlen := pa_rqlen s; pa_br := pa_br s; pa_rxw := pa_rxw s; pa_best := v; pa_sexp := pa_sexp s; pa_rexp := pa_rexp s; pa_ttl := pa_ttl s; pa_now := pa_now s; pa_amb := pa_amb s |}.
Definition set_pa_sexp (s : pair) (v : N) : pair :=
  {| pa_closed := pa_closed s; pa_peer := pa_peer s; pa_hold := pa_hold s; pa_infl := pa_infl s; pa_sq := pa_sq s; pa_sqlen := pa_sqlen s; pa_bs := pa_bs s; pa_rq := pa_rq s; pa_rqlen := pa_rqlen s; pa_br := pa_br s; pa_rxw := pa_rxw s; pa_best := pa_best s; pa_sexp := v; pa_rexp := pa_rexp s; pa_ttl := pa_ttl s; pa_now := pa_now s; pa_amb := pa_amb s |}.
Definition set_pa_rexp (s : pair) (v : N) : pair :=
  {| pa_closed := pa_closed s; pa_peer := pa_peer s; pa_hold := pa_hold s; pa_infl := pa_infl s; pa_sq := pa_sq s; pa_sqlen := pa_sqlen s; pa_bs := pa_bs s; pa_rq := pa_rq s; pa_rqlen := pa_rqlen s; pa_br := pa_br s; pa_rxw := pa_rxw s; pa_best := pa_best s; pa_sexp := pa_sexp s; pa_rexp := v; pa_ttl := pa_ttl s; pa_now := pa_now s; pa_amb := pa_amb s |}.
Definition set_pa_ttl (s : pair) (v : N) : pair :=
  {| pa_closed := pa_closed s; pa_peer := pa_peer s; pa_hold := pa_hold s; pa_infl := pa_infl s; pa_sq := pa_sq s; pa_sqlen := pa_sqlen s; pa_bs := pa_bs s; pa_rq := pa_rq s; pa_rqlen := pa_rqlen s; pa_br := pa_br s; pa_rxw := pa_rxw s; pa_best := pa_best s; pa_sexp := pa_sexp s; pa_rexp := pa_rexp s; pa_ttl := v; pa_now := pa_now s; pa_amb := pa_amb s |}.
Definition set_pa_now (s : pair) (v : N) : pair :=
  {| pa_closed := pa_closed s; pa_peer := pa_peer s; pa_hold := pa_hold s; pa_infl := pa_infl s; pa_sq := pa_sq s; pa_sqlen := pa_sqlen s; pa_bs := pa_bs s; pa_rq := pa_rq s; pa_rqlen := pa_rqlen s; pa_br := pa_br s; pa_rxw := pa_rxw s; pa_best := pa_best s; pa_sexp := pa_sexp s; pa_rexp := pa_rexp s; pa_ttl := pa_ttl s; pa_now := v; pa_amb := pa_amb s |}.
Definition set_pa_amb (s : pair) (v : bool) : pair :=
  {| pa_closed := pa_closed s; pa_peer := pa_peer s; pa_hold := pa_hold s; pa_infl := pa_infl s; pa_sq := pa_sq s; pa_sqlen := pa_sqlen s; pa_bs := pa_bs s; pa_rq := pa_rq s; pa_rqlen := pa_rqlen s; pa_br := pa_br s; pa_rxw := pa_rxw s; pa_best := pa_best s; pa_sexp := pa_sexp s; pa_rexp := pa_rexp s; pa_ttl := pa_ttl s; pa_now := pa_now s; pa_amb := v |}.

Definition pair0 : pair :=
  {| pa_closed := false; pa_peer := None; pa_hold := false; pa_infl := false; pa_sq := []; pa_sqlen := 128; pa_bs := [];
     pa_rq := []; pa_rqlen := 128; pa_br := []; pa_rxw := []; pa_best := false; pa_sexp := 0; pa_rexp := 0; pa_ttl := 8;
     pa_now := 0; pa_amb := false |}.

(* p.sender(): takes the next message from the buffer -- or, the buffer being empty (unbuffered channel),
   directly from the first blocked SendMsg -- and writes it to the pipe; in hold mode the write blocks. *)
Fixpoint pa_pump (fuel : nat) (p : N) (hold : bool) (cap : N) (sq : list msg) (bs : list bsend)
  : list msg * list bsend * bool * list obs :=
  match fuel with
  | O => (sq, bs, false, [])
  | S f =>
    match sq with
    | m :: q =>
      let '(q1, bs1, o1) := refill cap q bs in
      if hold then (q1, bs1, true, OTx p (fst m) (snd m) :: o1)
      else let '(q2, bs2, i, o2) := pa_pump f p hold cap q1 bs1 in (q2, bs2, i, OTx p (fst m) (snd m) :: o1 ++ o2)
    | [] =>
      match bs with
      | b :: r =>
        if hold then ([], r, true, [ORet (bs_t b) ROk; OTx p (fst (bs_m b)) (snd (bs_m b))])
        else let '(q2, bs2, i, o2) := pa_pump f p hold cap [] r in
             (q2, bs2, i, ORet (bs_t b) ROk :: OTx p (fst (bs_m b)) (snd (bs_m b)) :: o2)
      | [] => ([], [], false, [])
      end
    end
  end.

(* everything the send side can do without a new stimulus *)
Definition pa_run (s : pair) : pair * list obs :=
  let '(q, r, o1) := refill (pa_sqlen s) (pa_sq s) (pa_bs s) in
  match pa_peer s with
  | Some p =>
    if pa_infl s then (set_pa_bs (set_pa_sq s q) r, o1)
    else let '(q2, r2, i, o2) := pa_pump (S (length q + length r)) p (pa_hold s) (pa_sqlen s) q r in
         (set_pa_infl (set_pa_bs (set_pa_sq s q2) r2) i, o1 ++ o2)
  | None => (set_pa_bs (set_pa_sq s q) r, o1)
  end.

(* SendMsg's header handling: pair1 cooked sets four zero bytes; xpair1 silently drops a message whose header
   is shorter than 4 bytes or whose first three bytes are not zero; PAIR v0 passes the header through *)
Definition pa_hdr_in (v1 cooked : bool) (hdr : bytes) : option bytes :=
  if v1 then
    let h := if cooked then [x00; x00; x00; x00] else hdr in
    match h with
    | a :: b :: c :: _ :: _ => if (b2n a =? 0) && (b2n b =? 0) && (b2n c =? 0) then Some h else None
    | _ => None
    end
  else Some hdr.
(* the receiver goroutine's filter *)
Definition pa_rx_in (v1 : bool) (ttl : N) (body : bytes) : option msg :=
  if v1 then match rx_model RXPair1 ttl 0 body with Some (Deliver h b) => Some (h, b) | _ => None end
  else Some ([], body).
Definition pa_view (v1 cooked : bool) (m : msg) : ret := if v1 && cooked then view_cooked m else view_raw m.

Definition pa_send (v1 cooked : bool) (s : pair) (t : N) (hdr body : bytes) : pair * list obs :=
  match pa_hdr_in v1 cooked hdr with
  | None => (s, [ORet t ROk])
  | Some h =>
    if pa_closed s then (s, [ORet t (RErr EClosed)])
    else
      let due := if pa_best s then 0 else due_at (pa_now s) (pa_sexp s) in
      let '(s1, o) := pa_run (set_pa_bs s (pa_bs s ++ [{| bs_t := t; bs_m := (h, body); bs_due := due |}])) in
      if pa_best s then
        if existsb (fun b => bs_t b =? t) (pa_bs s1)
        then (set_pa_bs s1 (filter (fun b => negb (bs_t b =? t)) (pa_bs s1)), o ++ [ORet t ROk])   (* no room: dropped *)
        else (set_pa_amb s1 true, o)    (* room and the closed timer channel are both ready: either arm *)
      else (s1, o)
  end.

Definition pa_unpeer (s : pair) : pair := set_pa_rxw (set_pa_infl (set_pa_peer s None) false) [].

(* READQ-LEN / WRITEQ-LEN: a new channel replaces the queue (what was queued is gone) and the socket's one sizeQ is
   closed, which every goroutine blocked on either queue watches: blocked SendMsg calls free their message and
   return nil, the receiver goroutine frees the message it holds, blocked RecvMsg calls start over on the new queue,
   keeping the deadline of their call (the code as found restarted it: repaired in /repo) *)
Definition pa_resize (s : pair) (t : N) : pair * list obs :=
  (set_pa_amb
     (set_pa_br (set_pa_rxw (set_pa_bs s []) [])
                (pa_br s))
     (pa_amb s || several (pa_br s)),      (* woken RecvMsg calls block again in any order *)
   map (fun b => ORet (bs_t b) ROk) (pa_bs s) ++ [ORet t ROk]).

Definition pa_dues (s : pair) : list N := map bs_due (pa_bs s) ++ map br_due (pa_br s).

Definition pa_step (v1 cooked : bool) (s : pair) (st : stim) : pair * list obs :=
  match st with
  | SCall t (CSend _ hdr body) => pa_send v1 cooked s t hdr body
  | SCall t (CRecv _) =>
    match up_take (pa_rq s) (pa_rxw s) with
    | Some (m, q, w) =>
      if pa_closed s then (set_pa_amb s true, [])   (* closeQ and recvQ both ready *)
      else (set_pa_rxw (set_pa_rq s q) w, [ORet t (pa_view v1 cooked m)])
    | None =>
      if pa_closed s then (s, [ORet t (RErr EClosed)])
      else (set_pa_br s (pa_br s ++ [{| br_t := t; br_due := due_at (pa_now s) (pa_rexp s) |}]), [])
    end
  | SCall t (CSetOpt _ o v _) =>
    match o with
    | OBestEffort => (set_pa_best s (negb (v =? 0)%Z), [ORet t ROk])
    | OSendDeadline => (set_pa_sexp s (opt_ms v), [ORet t ROk])
    | ORecvDeadline => (set_pa_rexp s (opt_ms v), [ORet t ROk])
    | OReadQLen =>
      if (v <? 0)%Z then (s, [ORet t (RErr EBadValue)])
      else pa_resize (set_pa_rqlen (set_pa_rq s []) (Z.to_N v)) t
    | OWriteQLen =>
      if (v <? 0)%Z then (s, [ORet t (RErr EBadValue)])
      else pa_resize (set_pa_sqlen (set_pa_sq s []) (Z.to_N v)) t
    | OTtl =>
      if v1 then if ttl_accepts v then (set_pa_ttl s (Z.to_N v), [ORet t ROk]) else (s, [ORet t (RErr EBadValue)])
      else (s, [ORet t (RErr EBadOption)])
    | _ => (s, [ORet t (RErr EBadOption)])
    end
  | SCall t (COpenCtx _) => (s, [ORet t (RErr EProtoOp)])
  | SCall t (CCloseCtx _) => (s, [])
  | SCall t CCloseSock =>
    if pa_closed s then (s, [ORet t (RErr EClosed)])
    else (set_pa_br (set_pa_bs (set_pa_closed s true) []) [],
          rets EClosed (map bs_t (pa_bs s)) ++ rets EClosed (map br_t (pa_br s)) ++ [ORet t ROk])
  | SAddPipe p =>
    if pa_closed s then (s, [ORet (attach_key p) (RErr EClosed)])
    else match pa_peer s with
         | Some _ => (s, [ORet (attach_key p) (RErr EProtoState)])
         | None => pa_run (set_pa_rxw (set_pa_infl (set_pa_hold (set_pa_peer s (Some p)) false) false) [])
         end
  | SDropPipe p =>
    match pa_peer s with
    | Some q => if q =? p then (pa_unpeer s, []) else (s, [])
    | None => (s, [])
    end
  | SDeliver p body =>
    match pa_peer s with
    | Some q =>
      if (q =? p) && is_nil (pa_rxw s) then
        match pa_rx_in v1 (pa_ttl s) body with
        | None => (s, [])
        | Some m =>
          let '(rq, br, w, o) := up_arrive (pa_view v1 cooked) p m (pa_rq s) (pa_rqlen s) (pa_br s) (pa_rxw s) in
          (set_pa_rxw (set_pa_br (set_pa_rq s rq) br) w, o)
        end
      else (s, [ONotTaken p])
    | None => (s, [ONotTaken p])
    end
  | SHold p h =>
    match pa_peer s with
    | Some q => if q =? p then (set_pa_hold s h, []) else (s, [])
    | None => (s, [])
    end
  | SRelease p ok =>
    match pa_peer s with
    | Some q =>
      if (q =? p) && pa_infl s then
        if ok then pa_run (set_pa_infl s false)
        else (pa_unpeer s, [])     (* a failed transport send closes the pipe *)
      else (s, [])
    | None => (s, [])
    end
  | SPass until =>
    let '(bs, o1) := expire_s until (pa_bs s) in
    let '(br, o2) := expire_r until (pa_br s) in
    (set_pa_amb (set_pa_now (set_pa_br (set_pa_bs s bs) br) until) (pa_amb s || pass_amb until (pa_dues s)), o1 ++ o2)
  | STick at_ =>
    (set_pa_amb (set_pa_now s (N.max (pa_now s) at_)) (pa_amb s || tick_amb at_ (pa_dues s)), [])
  end.

Definition pa_blocked (s : pair) : list N := map bs_t (pa_bs s) ++ map br_t (pa_br s).

(* ============================== PUSH ============================== *)
Record ppipe := {
  pp_id : N;
  pp_hold : bool;
  pp_infl : bool }.
Definition set_pp_id (s : ppipe) (v : N) : ppipe :=
  {| pp_id := v; pp_hold := pp_hold s; pp_infl := pp_infl s |}.
Definition set_pp_hold (s : ppipe) (v : bool) : ppipe :=
  {| pp_id := pp_id s; pp_hold := v; pp_infl := pp_infl s |}.
Definition set_pp_infl (s : ppipe) (v : bool) : ppipe :=
  {| pp_id := pp_id s; pp_hold := pp_hold s; pp_infl := v |}.
Record push := {
  pu_closed : bool;
  pu_sq : list msg;
  pu_sqlen : N;
  pu_bs : list bsend;
  pu_ready : list N;
  pu_pipes : list ppipe;
  pu_best : bool;
  pu_fnp : bool;
  pu_sexp : N;
  pu_now : N;
  pu_amb : bool }.
Definition set_pu_closed (s : push) (v : bool) : push :=
  {| pu_closed := v; pu_sq := pu_sq s; pu_sqlen := pu_sqlen s; pu_bs := pu_bs s; pu_ready := pu_ready s; pu_pipes := pu_pipes s; pu_best := pu_best s; pu_fnp := pu_fnp s; pu_sexp := pu_sexp s; pu_now := pu_now s; pu_amb := pu_amb s |}.
Definition set_pu_sq (s : push) (v : list msg) : push :=
  {| pu_closed := pu_closed s; pu_sq := v; pu_sqlen := pu_sqlen s; pu_bs := pu_bs s; pu_ready := pu_ready s; pu_pipes := pu_pipes s; pu_best := pu_best s; pu_fnp := pu_fnp s; pu_sexp := pu_sexp s; pu_now := pu_now s; pu_amb := pu_amb s |}.
Definition set_pu_sqlen (s : push) (v : N) : push :=
  {| pu_closed := pu_closed s; pu_sq := pu_sq s; pu_sqlen := v; pu_bs := pu_bs s; pu_ready := pu_ready s; pu_pipes := pu_pipes s; pu_best := pu_best s; pu_fnp := pu_fnp s; pu_sexp := pu_sexp s; pu_now := pu_now s; pu_amb := pu_amb s |}.
Definition set_pu_bs (s : push) (v : list bsend) : push :=
  {| pu_closed := pu_closed s; pu_sq := pu_sq s; pu_sqlen := pu_sqlen s; pu_bs := v; pu_ready := pu_ready s; pu_pipes := pu_pipes s; pu_best := pu_best s; pu_fnp := pu_fnp s; pu_sexp := pu_sexp s; pu_now := pu_now s; pu_amb := pu_amb s |}.
Definition set_pu_ready (s : push) (v : list N) : push :=
  {| pu_closed := pu_closed s; pu_sq := pu_sq s; pu_sqlen := pu_sqlen s; pu_bs := pu_bs s; pu_ready := v; pu_pipes := pu_pipes s; pu_best := pu_best s; pu_fnp := pu_fnp s; pu_sexp := pu_sexp s; pu_now := pu_now s; pu_amb := pu_amb s |}.
Definition set_pu_pipes (s : push) (v : list ppipe) : push :=
  {| pu_closed := pu_closed s; pu_sq := pu_sq s; pu_sqlen := pu_sqlen s; pu_bs := pu_bs s; pu_ready := pu_ready s; pu_pipes := v; pu_best := pu_best s; pu_fnp := pu_fnp s; pu_sexp := pu_sexp s; pu_now := pu_now s; pu_amb := pu_amb s |}.
Definition set_pu_best (s : push) (v : bool) : push :=
  {| pu_closed := pu_closed s; pu_sq := pu_sq s; pu_sqlen := pu_sqlen s; pu_bs := pu_bs s; pu_ready := pu_ready s; pu_pipes := pu_pipes s; pu_best := v; pu_fnp := pu_fnp s; pu_sexp := pu_sexp s; pu_now := pu_now s; pu_amb := pu_amb s |}.
Definition set_pu_fnp (s : push) (v : bool) : push :=
  {| pu_closed := pu_closed s; pu_sq := pu_sq s; pu_sqlen := pu_sqlen s; pu_bs := pu_bs s; pu_ready := pu_ready s; pu_pipes := pu_pipes s; pu_best := pu_best s; pu_fnp := v; pu_sexp := pu_sexp s; pu_now := pu_now s; pu_amb := pu_amb s |}.
Definition set_pu_sexp (s : push) (v : N) : push :=
  {| pu_closed := pu_closed s; pu_sq := pu_sq s; pu_sqlen := pu_sqlen s; pu_bs := pu_bs s; pu_ready := pu_ready s; pu_pipes := pu_pipes s; pu_best := pu_best s; pu_fnp := pu_fnp s; pu_sexp := v; pu_now := pu_now s; pu_amb := pu_amb s |}.
Definition set_pu_now (s : push) (v : N) : push :=
  {| pu_closed := pu_closed s; pu_sq := pu_sq s; pu_sqlen := pu_sqlen s; pu_bs := pu_bs s; pu_ready := pu_ready s; pu_pipes := pu_pipes s; pu_best := pu_best s; pu_fnp := pu_fnp s; pu_sexp := pu_sexp s; pu_now := v; pu_amb := pu_amb s |}.
Definition set_pu_amb (s : push) (v : bool) : push :=
  {| pu_closed := pu_closed s; pu_sq := pu_sq s; pu_sqlen := pu_sqlen s; pu_bs := pu_bs s; pu_ready := pu_ready s; pu_pipes := pu_pipes s; pu_best := pu_best s; pu_fnp := pu_fnp s; pu_sexp := pu_sexp s; pu_now := pu_now s; pu_amb := v |}.

Definition push0 : push :=
  {| pu_closed := false; pu_sq := []; pu_sqlen := 128; pu_bs := []; pu_ready := []; pu_pipes := []; pu_best := false;
     pu_fnp := false; pu_sexp := 0; pu_now := 0; pu_amb := false |}.

(* s.sender() holding the socket lock: `if len(s.readyQ) == 0 || len(s.sendQ) == 0 { wait }; m := <-s.sendQ;
   p := s.readyQ[0]; s.readyQ = s.readyQ[1:]; go p.send(m)`.  len(s.sendQ) counts BUFFERED messages only, so
   SendMsg calls blocked on an unbuffered sendQ are never served; a receive from a full buffer lets the first
   blocked SendMsg in (refill).  Returns the pipes that were given a message. *)
Fixpoint pu_sweep (cap : N) (sq : list msg) (bs : list bsend) (ready : list N)
  : list msg * list bsend * list N * list N * list obs :=
  match ready with
  | p :: rd =>
    match sq with
    | m :: q =>
      let '(q1, bs1, o1) := refill cap q bs in
      let '(q2, bs2, rd2, st, o2) := pu_sweep cap q1 bs1 rd in
      (q2, bs2, rd2, p :: st, OTx p (fst m) (snd m) :: o1 ++ o2)
    | [] => (sq, bs, ready, [], [])
    end
  | [] => (sq, bs, [], [], [])
  end.

Definition pu_is_hold (ps : list ppipe) (p : N) : bool := existsb (fun x => (pp_id x =? p) && pp_hold x) ps.
Definition pu_mark (ps : list ppipe) (st : list N) : list ppipe :=
  map (fun x => if nmem (pp_id x) st && pp_hold x then set_pp_infl x true else x) ps.

(* p.send(m) on a pipe in auto mode returns at once and re-appends the pipe to readyQ (it needs the lock the
   scheduler holds during its sweep); two such goroutines finishing after the same sweep race for the order. *)
Fixpoint pu_run (fuel : nat) (s : push) : push * list obs :=
  match fuel with
  | O => (s, [])
  | S f =>
    let '(q, b, rd, st, o) := pu_sweep (pu_sqlen s) (pu_sq s) (pu_bs s) (pu_ready s) in
    let autos := filter (fun p => negb (pu_is_hold (pu_pipes s) p)) st in
    let s1 := set_pu_pipes (set_pu_ready (set_pu_bs (set_pu_sq s q) b) rd) (pu_mark (pu_pipes s) st) in
    match autos with
    | [] => (s1, o)
    | [p] => let '(s2, o2) := pu_run f (set_pu_ready s1 (rd ++ [p])) in (s2, o ++ o2)
    | _ => (set_pu_amb (set_pu_ready s1 (rd ++ autos)) true, o)
    end
  end.

Definition pu_go (s : push) : push * list obs :=
  let '(q, r, o1) := refill (pu_sqlen s) (pu_sq s) (pu_bs s) in
  let s1 := set_pu_bs (set_pu_sq s q) r in
  if pu_closed s then (s1, o1)     (* the scheduler goroutine has returned *)
  else let '(s2, o2) := pu_run (S (length q + length r)) s1 in (s2, o1 ++ o2).

Definition pu_attached (s : push) (p : N) : bool := existsb (fun x => pp_id x =? p) (pu_pipes s).
Definition pu_inflight (s : push) (p : N) : bool := existsb (fun x => (pp_id x =? p) && pp_infl x) (pu_pipes s).

Definition pu_remove (s : push) (p : N) : push * list obs :=
  let ps := filter (fun x => negb (pp_id x =? p)) (pu_pipes s) in
  let s1 := set_pu_ready (set_pu_pipes s ps) (filter (fun q => negb (q =? p)) (pu_ready s)) in
  if pu_fnp s && is_nil ps then (set_pu_bs s1 [], rets ENoPeers (map bs_t (pu_bs s)))   (* noPeerQ closed *)
  else (s1, []).

Definition pu_send (s : push) (t : N) (hdr body : bytes) : push * list obs :=
  if pu_closed s then (s, [ORet t (RErr EClosed)])
  else if pu_fnp s && is_nil (pu_pipes s) then (s, [ORet t (RErr ENoPeers)])
  else
    let due := if pu_best s then 0 else due_at (pu_now s) (pu_sexp s) in
    let '(s1, o) := pu_go (set_pu_bs s (pu_bs s ++ [{| bs_t := t; bs_m := (hdr, body); bs_due := due |}])) in
    if pu_best s then
      if existsb (fun b => bs_t b =? t) (pu_bs s1)
      then (set_pu_bs s1 (filter (fun b => negb (bs_t b =? t)) (pu_bs s1)), o ++ [ORet t ROk])
      else (set_pu_amb s1 true, o)
    else (s1, o).

Definition pu_step (s : push) (st : stim) : push * list obs :=
  match st with
  | SCall t (CSend _ hdr body) => pu_send s t hdr body
  | SCall t (CRecv _) => (s, [ORet t (RErr EProtoOp)])
  | SCall t (CSetOpt _ o v _) =>
    match o with
    | OBestEffort => (set_pu_best s (negb (v =? 0)%Z), [ORet t ROk])
    | OSendDeadline => (set_pu_sexp s (opt_ms v), [ORet t ROk])
    | OFailNoPeers => (set_pu_fnp s (negb (v =? 0)%Z), [ORet t ROk])
    | OWriteQLen =>
      if (v <? 0)%Z then (s, [ORet t (RErr EBadValue)])
      else
        (* under the lock the old channel is drained into the new one (what does not fit is freed); draining
           lets every SendMsg blocked on the old channel complete *)
        let all := pending (pu_sq s) (pu_bs s) in
        let '(s1, o) := pu_go (set_pu_bs (set_pu_sqlen (set_pu_sq s (firstn (Z.to_nat v) all)) (Z.to_N v)) []) in
        (s1, map (fun b => ORet (bs_t b) ROk) (pu_bs s) ++ o ++ [ORet t ROk])
    | _ => (s, [ORet t (RErr EBadOption)])
    end
  | SCall t (COpenCtx _) => (s, [ORet t (RErr EProtoOp)])
  | SCall t (CCloseCtx _) => (s, [])
  | SCall t CCloseSock =>
    if pu_closed s then (s, [ORet t (RErr EClosed)])
    else (set_pu_bs (set_pu_closed s true) [], rets EClosed (map bs_t (pu_bs s)) ++ [ORet t ROk])
  | SAddPipe p =>
    if pu_closed s then (s, [ORet (attach_key p) (RErr EClosed)])
    else pu_go (set_pu_ready (set_pu_pipes s (pu_pipes s ++ [{| pp_id := p; pp_hold := false; pp_infl := false |}]))
                             (pu_ready s ++ [p]))
  | SDropPipe p => if pu_attached s p then pu_remove s p else (s, [])
  | SDeliver p _ => if pu_attached s p then (s, []) else (s, [ONotTaken p])   (* the receiver discards *)
  | SHold p h => (set_pu_pipes s (map (fun x => if pp_id x =? p then set_pp_hold x h else x) (pu_pipes s)), [])
  | SRelease p ok =>
    if pu_inflight s p then
      if ok then
        let s1 := set_pu_pipes s (map (fun x => if pp_id x =? p then set_pp_infl x false else x) (pu_pipes s)) in
        if pu_closed s then (s1, []) else pu_go (set_pu_ready s1 (pu_ready s1 ++ [p]))
      else pu_remove s p
    else (s, [])
  | SPass until =>
    let '(bs, o1) := expire_s until (pu_bs s) in
    (set_pu_amb (set_pu_now (set_pu_bs s bs) until) (pu_amb s || pass_amb until (map bs_due (pu_bs s))), o1)
  | STick at_ =>
    (set_pu_amb (set_pu_now s (N.max (pu_now s) at_)) (pu_amb s || tick_amb at_ (map bs_due (pu_bs s))), [])
  end.

Definition pu_blocked (s : push) : list N := map bs_t (pu_bs s).

(* ============================== PULL ============================== *)
Record pull := {
  pl_closed : bool;
  pl_rq : list msg;
  pl_rqlen : N;
  pl_br : list brecv;
  pl_rxw : list (N * msg);
  pl_pipes : list N;
  pl_rexp : N;
  pl_now : N;
  pl_amb : bool }.
Definition set_pl_closed (s : pull) (v : bool) : pull :=
  {| pl_closed := v; pl_rq := pl_rq s; pl_rqlen := pl_rqlen s; pl_br := pl_br s; pl_rxw := pl_rxw s; pl_pipes := pl_pipes s; pl_rexp := pl_rexp s; pl_now := pl_now s; pl_amb := pl_amb s |}.
Definition set_pl_rq (s : pull) (v : list msg) : pull :=
  {| pl_closed := pl_closed s; pl_rq := v; pl_rqlen := pl_rqlen s; pl_br := pl_br s; pl_rxw := pl_rxw s; pl_pipes := pl_pipes s; pl_rexp := pl_rexp s; pl_now := pl_now s; pl_amb := pl_amb s |}.
Definition set_pl_rqlen (s : pull) (v : N) : pull :=
  {| pl_closed := pl_closed s; pl_rq := pl_rq s; pl_rqlen := v; pl_br := pl_br s; pl_rxw := pl_rxw s; pl_pipes := pl_pipes s; pl_rexp := pl_rexp s; pl_now := pl_now s; pl_amb := pl_amb s |}.
Definition set_pl_br (s : pull) (v : list brecv) : pull :=
  {| pl_closed := pl_closed s; pl_rq := pl_rq s; pl_rqlen := pl_rqlen s; pl_br := v; pl_rxw := pl_rxw s; pl_pipes := pl_pipes s; pl_rexp := pl_rexp s; pl_now := pl_now s; pl_amb := pl_amb s |}.
Definition set_pl_rxw (s : pull) (v : list (N * msg)) : pull :=
  {| pl_closed := pl_closed s; pl_rq := pl_rq s; pl_rqlen := pl_rqlen s; pl_br := pl_br s; pl_rxw := v; pl_pipes := pl_pipes s; pl_rexp := pl_rexp s; pl_now := pl_now s; pl_amb := pl_amb s |}.
Definition set_pl_pipes (s : pull) (v : list N) : pull :=
  {| pl_closed := pl_closed s; pl_rq := pl_rq s; pl_rqlen := pl_rqlen s; pl_br := pl_br s; pl_rxw := pl_rxw s; pl_pipes := v; pl_rexp := pl_rexp s; pl_now := pl_now s; pl_amb := pl_amb s |}.
Definition set_pl_rexp (s : pull) (v : N) : pull :=
  {| pl_closed := pl_closed s; pl_rq := pl_rq s; pl_rqlen := pl_rqlen s; pl_br := pl_br s; pl_rxw := pl_rxw s; pl_pipes := pl_pipes s; pl_rexp := v; pl_now := pl_now s; pl_amb := pl_amb s |}.
Definition set_pl_now (s : pull) (v : N) : pull :=
  {| pl_closed := pl_closed s; pl_rq := pl_rq s; pl_rqlen := pl_rqlen s; pl_br := pl_br s; pl_rxw := pl_rxw s; pl_pipes := pl_pipes s; pl_rexp := pl_rexp s; pl_now := v; pl_amb := pl_amb s |}.
Definition set_pl_amb (s : pull) (v : bool) : pull :=
  {| pl_closed := pl_closed s; pl_rq := pl_rq s; pl_rqlen := pl_rqlen s; pl_br := pl_br s; pl_rxw := pl_rxw s; pl_pipes := pl_pipes s; pl_rexp := pl_rexp s; pl_now := pl_now s; pl_amb := v |}.

Definition pull0 : pull :=
  {| pl_closed := false; pl_rq := []; pl_rqlen := 128; pl_br := []; pl_rxw := []; pl_pipes := []; pl_rexp := 0;
     pl_now := 0; pl_amb := false |}.

Definition pl_step (s : pull) (st : stim) : pull * list obs :=
  match st with
  | SCall t (CSend _ _ _) => (s, [ORet t (RErr EProtoOp)])
  | SCall t (CRecv _) =>
    match up_take (pl_rq s) (pl_rxw s) with
    | Some (m, q, w) =>
      if pl_closed s then (set_pl_amb s true, [])
      else (set_pl_rxw (set_pl_rq s q) w, [ORet t (view_raw m)])
    | None =>
      if pl_closed s then (s, [ORet t (RErr EClosed)])
      else (set_pl_br s (pl_br s ++ [{| br_t := t; br_due := due_at (pl_now s) (pl_rexp s) |}]), [])
    end
  | SCall t (CSetOpt _ o v _) =>
    match o with
    | ORecvDeadline => (set_pl_rexp s (opt_ms v), [ORet t ROk])
    | OReadQLen =>
      if (v <? 0)%Z then (s, [ORet t (RErr EBadValue)])
      else
        (* sizeQ is closed, then the old queue is drained into the new one outside the lock: receivers that
           hold a message retry concurrently with the drain (order not enumerated) *)
        (set_pl_amb
           (set_pl_br (set_pl_rqlen (set_pl_rq s (firstn (Z.to_nat v) (pl_rq s))) (Z.to_N v))
              (map (fun b => {| br_t := br_t b; br_due := if 0 <? pl_rexp s then pl_now s + pl_rexp s else br_due b |}) (pl_br s)))
           (pl_amb s || negb (is_nil (pl_rxw s)) || several (pl_br s)),
         [ORet t ROk])
    | _ => (s, [ORet t (RErr EBadOption)])
    end
  | SCall t (COpenCtx _) => (s, [ORet t (RErr EProtoOp)])
  | SCall t (CCloseCtx _) => (s, [])
  | SCall t CCloseSock =>
    if pl_closed s then (s, [ORet t (RErr EClosed)])
    else (set_pl_br (set_pl_closed s true) [], rets EClosed (map br_t (pl_br s)) ++ [ORet t ROk])
  | SAddPipe p =>
    if pl_closed s then (s, [ORet (attach_key p) (RErr EClosed)])
    else (set_pl_pipes s (pl_pipes s ++ [p]), [])
  | SDropPipe p =>
    (set_pl_rxw (set_pl_pipes s (filter (fun q => negb (q =? p)) (pl_pipes s)))
                (filter (fun e => negb (fst e =? p)) (pl_rxw s)), [])
  | SDeliver p body =>
    if nmem p (pl_pipes s) && negb (existsb (fun e => fst e =? p) (pl_rxw s)) then
      let '(rq, br, w, o) := up_arrive view_raw p ([], body) (pl_rq s) (pl_rqlen s) (pl_br s) (pl_rxw s) in
      (set_pl_rxw (set_pl_br (set_pl_rq s rq) br) w, o)
    else (s, [ONotTaken p])
  | SHold _ _ => (s, [])
  | SRelease _ _ => (s, [])
  | SPass until =>
    let '(br, o) := expire_r until (pl_br s) in
    (set_pl_amb (set_pl_now (set_pl_br s br) until) (pl_amb s || pass_amb until (map br_due (pl_br s))), o)
  | STick at_ =>
    (set_pl_amb (set_pl_now s (N.max (pl_now s) at_)) (pl_amb s || tick_amb at_ (map br_due (pl_br s))), [])
  end.

Definition pl_blocked (s : pull) : list N := map br_t (pl_br s).

(* ============================== the combined model ============================== *)
(* kinds: 1 pair, 2 xpair, 3 pair1, 4 xpair1, 5 push/xpush, 6 pull/xpull *)
Inductive ppstate := PP0 | PPair (v1 cooked : bool) (s : pair) | PPush (s : push) | PPull (s : pull).

Definition pp_select (k : N) : ppstate :=
  if k =? 1 then PPair false true pair0 else if k =? 2 then PPair false false pair0
  else if k =? 3 then PPair true true pair0 else if k =? 4 then PPair true false pair0
  else if k =? 5 then PPush push0 else PPull pull0.

Definition pp_step (x : ppstate) (st : stim) : ppstate * list obs :=
  match x with
  | PP0 => match st with SCall _ (COpenCtx k) => (pp_select k, []) | _ => (PP0, []) end
  | PPair v c s => let '(s', o) := pa_step v c s st in (PPair v c s', o)
  | PPush s => let '(s', o) := pu_step s st in (PPush s', o)
  | PPull s => let '(s', o) := pl_step s st in (PPull s', o)
  end.
Definition pp_blocked (x : ppstate) : list N :=
  match x with PP0 => [] | PPair _ _ s => pa_blocked s | PPush s => pu_blocked s | PPull s => pl_blocked s end.
Definition pp_ambig (x : ppstate) : bool :=
  match x with PP0 => false | PPair _ _ s => pa_amb s | PPush s => pu_amb s | PPull s => pl_amb s end.

Definition pp_model : model := {| m_state := ppstate; m_step := pp_step; m_blocked := pp_blocked; m_ambiguous := pp_ambig |}.
