(* REP / RESPONDENT (cooked) and XREP / XRESPONDENT (raw) -- protocol/{rep,respondent,xrep,xrespondent} --
   as deterministic state machines over the L1 stimuli.  One step = one stimulus followed by everything
   the library's goroutines do until quiescence.  The four protocols share the pipe machinery (per-pipe
   sendQ + sender goroutine, receiver goroutine handing requests to the socket's recvQ); the differences are
   selected by `kind`.  Pipe with harness index n has the real pipe id 1000+n (raw headers carry it).
   Where Go may choose (several goroutines blocked on one channel, several ready `select` arms) the
   model sets `ambig`.  No proofs here. *)
From MV Require Export Lib.Proto Model.Hops.
Open Scope N_scope.

Inductive kind := KRep | KRespondent | KXRep | KXRespondent.
Definition is_raw (k : kind) : bool := match k with KXRep | KXRespondent => true | _ => false end.
Definition is_rep (k : kind) : bool := match k with KRep => true | _ => false end.
Definition is_respondent (k : kind) : bool := match k with KRespondent => true | _ => false end.
Definition rx_of (k : kind) : receiver :=
  match k with KRep => RRep | KRespondent => RRespondent | KXRep => RXRep | KXRespondent => RXRespondent end.
Definition pipe_id (p : N) : N := 1000 + p.

Record rctx := {
  c_closed : bool;
  c_recvWait : bool;                (* REP only *)
  c_recvPipe : option N;
  c_bt : option bytes;              (* backtrace; None = nil *)
  c_best : bool; c_sendExp : N; c_recvExp : N;
}.

Definition msg : Type := (bytes * bytes)%type.       (* header, body *)

Record rpipe := {
  pp_closed : bool;                 (* closeQ closed (RemovePipe) *)
  pp_hold : bool;                   (* the transport blocks sends until released *)
  pp_busy : bool;                   (* the sender goroutine is inside the transport's SendMsg *)
  pp_cap : N;                       (* capacity of sendQ (fixed at AddPipe) *)
  pp_q : list msg;                  (* sendQ *)
}.

Inductive thread :=
| TRecv (t c : N)
| TSend (t c p : N) (hdr body : bytes).       (* blocked on `p.sendQ <- m` *)

Record rstate := {
  ctxs : list (N * rctx);           (* raw: context 0 holds the socket's options *)
  pipes : list (N * rpipe);         (* removed pipes are kept with closed = true *)
  recvQ : list (N * msg);           (* (arrival pipe, (header, body)) *)
  pend : list (N * msg);            (* receiver goroutines blocked handing over their message, oldest first *)
  rqlen : N; wqlen : N; ttl : N;
  sclosed : bool;
  threads : list thread;            (* blocked API calls, oldest first *)
  out : list obs;                   (* observations of the current step, newest first *)
  ambig : bool;
}.

(* ---- association helpers (insertion order preserved) ---- *)
Fixpoint aget {V} (k : N) (l : list (N * V)) : option V :=
  match l with [] => None | (k', v) :: r => if k =? k' then Some v else aget k r end.
Fixpoint aset {V} (k : N) (v : V) (l : list (N * V)) : list (N * V) :=
  match l with [] => [(k, v)] | (k', v') :: r => if k =? k' then (k, v) :: r else (k', v') :: aset k v r end.
Definition adrop {V} (k : N) (l : list (N * V)) : list (N * V) := filter (fun e => negb (fst e =? k)) l.
Definition nlen {A} (l : list A) : N := N.of_nat (length l).

Definition ctx0 : rctx :=
  {| c_closed := false; c_recvWait := false; c_recvPipe := None; c_bt := None; c_best := false; c_sendExp := 0; c_recvExp := 0 |}.

Definition init (k : kind) : rstate :=
  {| ctxs := [(0, ctx0)]; pipes := []; recvQ := []; pend := [];
     rqlen := if is_rep k then 0 else 128; wqlen := if is_raw k then 128 else 0; ttl := 8;
     sclosed := false; threads := []; out := []; ambig := false |}.

(* ---- record updates ---- *)
Definition upd_ctxs (s : rstate) (f : list (N * rctx)) : rstate :=
  {| ctxs := f; pipes := pipes s; recvQ := recvQ s; pend := pend s; rqlen := rqlen s; wqlen := wqlen s; ttl := ttl s;
     sclosed := sclosed s; threads := threads s; out := out s; ambig := ambig s |}.
Definition set_ctx (s : rstate) (c : N) (x : rctx) : rstate := upd_ctxs s (aset c x (ctxs s)).
Definition upd_pipes (s : rstate) (f : list (N * rpipe)) : rstate :=
  {| ctxs := ctxs s; pipes := f; recvQ := recvQ s; pend := pend s; rqlen := rqlen s; wqlen := wqlen s; ttl := ttl s;
     sclosed := sclosed s; threads := threads s; out := out s; ambig := ambig s |}.
Definition set_pipe (s : rstate) (p : N) (x : rpipe) : rstate := upd_pipes s (aset p x (pipes s)).
Definition upd_recvQ (s : rstate) (q : list (N * msg)) : rstate :=
  {| ctxs := ctxs s; pipes := pipes s; recvQ := q; pend := pend s; rqlen := rqlen s; wqlen := wqlen s; ttl := ttl s;
     sclosed := sclosed s; threads := threads s; out := out s; ambig := ambig s |}.
Definition upd_pend (s : rstate) (q : list (N * msg)) : rstate :=
  {| ctxs := ctxs s; pipes := pipes s; recvQ := recvQ s; pend := q; rqlen := rqlen s; wqlen := wqlen s; ttl := ttl s;
     sclosed := sclosed s; threads := threads s; out := out s; ambig := ambig s |}.
Definition upd_opts (s : rstate) (rq wq tl : N) : rstate :=
  {| ctxs := ctxs s; pipes := pipes s; recvQ := recvQ s; pend := pend s; rqlen := rq; wqlen := wq; ttl := tl;
     sclosed := sclosed s; threads := threads s; out := out s; ambig := ambig s |}.
Definition upd_sclosed (s : rstate) (b : bool) : rstate :=
  {| ctxs := ctxs s; pipes := pipes s; recvQ := recvQ s; pend := pend s; rqlen := rqlen s; wqlen := wqlen s; ttl := ttl s;
     sclosed := b; threads := threads s; out := out s; ambig := ambig s |}.
Definition upd_threads (s : rstate) (t : list thread) : rstate :=
  {| ctxs := ctxs s; pipes := pipes s; recvQ := recvQ s; pend := pend s; rqlen := rqlen s; wqlen := wqlen s; ttl := ttl s;
     sclosed := sclosed s; threads := t; out := out s; ambig := ambig s |}.
Definition emit (s : rstate) (o : obs) : rstate :=
  {| ctxs := ctxs s; pipes := pipes s; recvQ := recvQ s; pend := pend s; rqlen := rqlen s; wqlen := wqlen s; ttl := ttl s;
     sclosed := sclosed s; threads := threads s; out := o :: out s; ambig := ambig s |}.
Definition amb (s : rstate) (b : bool) : rstate :=
  {| ctxs := ctxs s; pipes := pipes s; recvQ := recvQ s; pend := pend s; rqlen := rqlen s; wqlen := wqlen s; ttl := ttl s;
     sclosed := sclosed s; threads := threads s; out := out s; ambig := ambig s || b |}.
Definition clear_out (s : rstate) : rstate :=
  {| ctxs := ctxs s; pipes := pipes s; recvQ := recvQ s; pend := pend s; rqlen := rqlen s; wqlen := wqlen s; ttl := ttl s;
     sclosed := sclosed s; threads := threads s; out := []; ambig := ambig s |}.

Definition with_req (x : rctx) (recvWait : bool) (rp : option N) (bt : option bytes) : rctx :=
  {| c_closed := c_closed x; c_recvWait := recvWait; c_recvPipe := rp; c_bt := bt;
     c_best := c_best x; c_sendExp := c_sendExp x; c_recvExp := c_recvExp x |}.
Definition with_closed (x : rctx) (closed recvWait : bool) : rctx :=
  {| c_closed := closed; c_recvWait := recvWait; c_recvPipe := c_recvPipe x; c_bt := c_bt x;
     c_best := c_best x; c_sendExp := c_sendExp x; c_recvExp := c_recvExp x |}.
Definition with_opts (x : rctx) (best : bool) (se re : N) : rctx :=
  {| c_closed := c_closed x; c_recvWait := c_recvWait x; c_recvPipe := c_recvPipe x; c_bt := c_bt x;
     c_best := best; c_sendExp := se; c_recvExp := re |}.
Definition pipe_with (x : rpipe) (closed hold busy : bool) (q : list msg) : rpipe :=
  {| pp_closed := closed; pp_hold := hold; pp_busy := busy; pp_cap := pp_cap x; pp_q := q |}.

(* ---- blocked calls ---- *)
Definition is_recv (th : thread) : bool := match th with TRecv _ _ => true | _ => false end.
Definition send_on (p : N) (th : thread) : bool := match th with TSend _ _ q _ _ => q =? p | _ => false end.
Definition th_ctx (th : thread) : N := match th with TRecv _ c => c | TSend _ c _ _ _ => c end.
Definition th_id (th : thread) : N := match th with TRecv t _ => t | TSend t _ _ _ _ => t end.

(* oldest thread satisfying f, and the others in order *)
Fixpoint pick (f : thread -> bool) (l : list thread) : option (thread * list thread) :=
  match l with
  | [] => None
  | th :: r => if f th then Some (th, r)
               else match pick f r with Some (x, r') => Some (x, th :: r') | None => None end
  end.

(* what a send blocked on a pipe returns when the pipe's closeQ closes *)
Definition closed_ret (k : kind) : ret := match k with KXRep => RErr EClosed | _ => ROk end.

(* ---- the sender goroutine of pipe p ----
   A blocked (or just started) SendMsg is admitted when `p.sendQ <- m` can proceed: the queue has room, or
   the sender goroutine is waiting at its `select`. *)
Definition can_accept (pp : rpipe) : bool := negb (pp_busy pp) || (nlen (pp_q pp) <? pp_cap pp).

Definition admit_one (s : rstate) (p : N) : rstate :=
  match aget p (pipes s) with
  | None => s
  | Some pp =>
    if can_accept pp then
      match pick (send_on p) (threads s) with
      | Some (TSend t c _ h b, rest) =>
        (* which of several sends blocked on one channel proceeds is the runtime's choice *)
        let s := amb s (existsb (send_on p) rest) in
        emit (set_pipe (upd_threads s rest) p (pipe_with pp (pp_closed pp) (pp_hold pp) (pp_busy pp) (pp_q pp ++ [(h, b)])))
             (ORet t ROk)
      | _ => s
      end
    else s
  end.

Fixpoint pump (fuel : nat) (s : rstate) (p : N) : rstate :=
  match fuel with
  | O => s
  | S f =>
    match aget p (pipes s) with
    | None => s
    | Some pp =>
      if pp_closed pp then s else
      let s := admit_one s p in
      match aget p (pipes s) with
      | None => s
      | Some pp =>
        if pp_busy pp then s else
        match pp_q pp with
        | [] => s
        | (h, b) :: q' =>
          (* p.p.SendMsg(m): written to the transport; in hold mode the sender stays inside the call *)
          pump f (emit (set_pipe s p (pipe_with pp false (pp_hold pp) (pp_hold pp) q')) (OTx p h b)) p
        end
      end
    end
  end.
Definition pump_all (s : rstate) (p : N) : rstate :=
  pump (4 + length (threads s) + match aget p (pipes s) with Some pp => length (pp_q pp) | None => 0 end) s p.

(* the `select` of SendMsg for a message (hdr, body) bound for pipe p *)
Definition pipe_send (k : kind) (s : rstate) (t c p : N) (hdr body : bytes) (best : bool) : rstate :=
  match aget p (pipes s) with
  | None => amb s true
  | Some pp =>
    if pp_closed pp then emit s (ORet t (closed_ret k))      (* <-p.closeQ: discarded *)
    else if best then
      (* timeQ is ready at once: if the pipe can take the message too, Go picks either arm *)
      emit (amb s (can_accept pp)) (ORet t ROk)
    else pump_all (upd_threads s (threads s ++ [TSend t c p hdr body])) p
  end.

(* ---- RemovePipe: close(p.closeQ) ---- *)
Definition finish_closed_sends (k : kind) (s : rstate) (p : N) : rstate :=
  fold_left (fun s th => if send_on p th then emit s (ORet (th_id th) (closed_ret k)) else s) (threads s)
            (upd_threads s (filter (fun th => negb (send_on p th)) (threads s))).

Definition remove_pipe (k : kind) (s : rstate) (p : N) : rstate :=
  match aget p (pipes s) with
  | None => s
  | Some pp =>
    if pp_closed pp then s else
    let s := set_pipe s p (pipe_with pp true (pp_hold pp) false []) in
    (* a receiver goroutine blocked handing over its message watches p.closeQ and gives up -- except RESPONDENT's,
       which watches only the socket's closeQ: its message still reaches the queue after the pipe has gone *)
    let s := if is_respondent k then s else upd_pend s (adrop p (pend s)) in
    finish_closed_sends k s p
  end.

(* the protocol closes the pipe itself (p.p.Close()): observable unless the pipe had gone already *)
Definition close_by_proto (k : kind) (s : rstate) (p : N) : rstate :=
  match aget p (pipes s) with
  | Some pp => if pp_closed pp then s else remove_pipe k (emit s (OPipeClose p)) p
  | None => s
  end.

(* ---- receiving ---- *)
(* RecvMsg got entry (p, (h, b)) *)
Definition recv_finish (k : kind) (s : rstate) (t c : N) (e : N * msg) : rstate :=
  let '(p, (h, b)) := e in
  if is_raw k then emit s (ORet t (RMsg h b))
  else match aget c (ctxs s) with
       | Some x => emit (set_ctx s c (with_req x false (Some p) (Some h))) (ORet t (RMsg [] b))
       | None => s
       end.

(* `<-s.recvQ`: head of the queue (then a blocked receiver goroutine refills it), or a rendezvous with a blocked
   receiver goroutine when the queue is unbuffered *)
Definition take_entry (s : rstate) : option ((N * msg) * rstate) :=
  match recvQ s with
  | e :: q =>
    match pend s with
    | [] => Some (e, upd_recvQ s q)
    | e' :: pr => Some (e, amb (upd_pend (upd_recvQ s (q ++ [e'])) pr) (match pr with [] => false | _ => true end))
    end
  | [] =>
    match pend s with
    | [] => None
    | e' :: pr => Some (e', amb (upd_pend s pr) (match pr with [] => false | _ => true end))
    end
  end.

(* the receiver goroutine of pipe p has a well-formed request (h, b) *)
Definition place (k : kind) (s : rstate) (p : N) (h b : bytes) : rstate :=
  match pick is_recv (threads s) with
  | Some (TRecv t c, rest) =>
    recv_finish k (amb (upd_threads s rest) (existsb is_recv rest)) t c (p, (h, b))
  | _ =>
    let room := nlen (recvQ s) <? rqlen s in
    if is_respondent k && sclosed s then
      (* `<-s.closeQ`: the receiver abandons the message and closes the pipe; if the queue has room too, either arm *)
      close_by_proto k (amb s room) p
    else if room then upd_recvQ s (recvQ s ++ [(p, (h, b))])
    else upd_pend s (pend s ++ [(p, (h, b))])
  end.

Definition has_pend (s : rstate) (p : N) : bool := existsb (fun e => fst e =? p) (pend s).

Definition do_deliver (k : kind) (s : rstate) (p : N) (body : bytes) : rstate :=
  match aget p (pipes s) with
  | None => emit s (ONotTaken p)
  | Some pp =>
    if pp_closed pp || has_pend s p then emit s (ONotTaken p)
    else match rx_model (rx_of k) (ttl s) (pipe_id p) body with
         | Some (Deliver h b) => place k s p h b
         | _ => s
         end
  end.

(* ---- closing ---- *)
Definition finish_ctx_threads (s : rstate) (c : N) : rstate :=
  fold_left (fun s th => if th_ctx th =? c then emit s (ORet (th_id th) (RErr EClosed)) else s) (threads s)
            (upd_threads s (filter (fun th => negb (th_ctx th =? c)) (threads s))).

Definition close_ctx (s : rstate) (c : N) : rstate :=
  match aget c (ctxs s) with
  | None => s
  | Some x => if c_closed x then s else finish_ctx_threads (set_ctx s c (with_closed x true false)) c
  end.

Definition close_sock (k : kind) (s : rstate) (t : N) : rstate :=
  if sclosed s then emit s (ORet t (RErr EClosed))
  else
    let s := upd_sclosed s true in
    let s :=
      if is_raw k then
        (* close(s.closeQ): blocked RecvMsg calls return; blocked sends do not watch it *)
        fold_left (fun s th => if is_recv th then emit s (ORet (th_id th) (RErr EClosed)) else s) (threads s)
                  (upd_threads s (filter (fun th => negb (is_recv th)) (threads s)))
      else
        let s := fold_left (fun s cx => close_ctx s (fst cx)) (ctxs s) s in
        if is_respondent k then
          (* receivers blocked on the full queue see closeQ, drop their message and close their pipe *)
          upd_pend (fold_left (fun s e => close_by_proto k s (fst e)) (pend s) s) []
        else s in
    emit s (ORet t ROk).

(* ---- options ---- *)
Definition z2n (v : Z) : N := Z.to_N v.
Definition set_opt (k : kind) (s : rstate) (t c : N) (o : opt) (v : Z) : rstate :=
  match aget c (ctxs s) with
  | None => emit s (ORet t (RErr EClosed))
  | Some x =>
    let ok s := emit s (ORet t ROk) in
    let bad e := emit s (ORet t (RErr e)) in
    let sock := c =? 0 in
    match o with
    | OBestEffort => ok (set_ctx s c (with_opts x (negb (v =? 0)%Z) (c_sendExp x) (c_recvExp x)))
    | OSendDeadline =>
      if is_raw k || (0 <? v)%Z then ok (set_ctx s c (with_opts x (c_best x) (z2n v) (c_recvExp x))) else bad EBadValue
    | ORecvDeadline =>
      if is_raw k || (0 <? v)%Z then ok (set_ctx s c (with_opts x (c_best x) (c_sendExp x) (z2n v))) else bad EBadValue
    | OTtl =>
      if negb sock then bad EBadOption
      else if ttl_accepts v then ok (upd_opts s (rqlen s) (wqlen s) (z2n v)) else bad EBadValue
    | OWriteQLen =>
      if negb sock then bad EBadOption
      else if (0 <=? v)%Z then ok (upd_opts s (rqlen s) (z2n v) (ttl s)) else bad EBadValue
    | OReadQLen =>
      if negb sock || is_rep k then bad EBadOption
      else if (0 <=? v)%Z then
        (* a new, empty queue replaces the old one; sizeQ wakes everybody *)
        let s := upd_recvQ (upd_opts s (z2n v) (wqlen s) (ttl s)) [] in
        if is_raw k then
          (* raw receivers blocked on the old queue give their message up (`case <-sizeQ: continue`) *)
          ok (upd_pend s [])
        else
          (* blocked RecvMsg calls start over: each clears its context's pending request again (only visible
             when a context has several Recv calls in flight and one has returned meanwhile) *)
          let s := fold_left (fun s th => match th with
                                          | TRecv _ c' => match aget c' (ctxs s) with
                                                          | Some y => set_ctx s c' (with_req y (c_recvWait y) None None)
                                                          | None => s end
                                          | _ => s end) (threads s) s in
          (* cooked receivers retry on the new queue, in no particular order *)
          let s := amb s (match pend s with _ :: _ :: _ => true | _ => false end) in
          let n := N.to_nat (z2n v) in
          ok (upd_pend (upd_recvQ s (firstn n (pend s))) (skipn n (pend s)))
      else bad EBadValue
    | _ => bad EBadOption
    end
  end.

(* ---- API calls ---- *)
Definition raw_lookup (s : rstate) (hdr : bytes) : option (N * bytes) :=
  match hdr with
  | a :: b :: c :: d :: rest =>
    let id := be_dec [a; b; c; d] in
    if id <? 1000 then None
    else match aget (id - 1000) (pipes s) with
         | Some pp => if pp_closed pp then None else Some (id - 1000, rest)
         | None => None
         end
  | _ => None
  end.

Definition do_send (k : kind) (s : rstate) (t c : N) (hdr body : bytes) : rstate :=
  match aget c (ctxs s) with
  | None => emit s (ORet t (RErr EClosed))
  | Some x =>
    if is_raw k then
      if sclosed s then emit s (ORet t (RErr EClosed))
      else match raw_lookup s hdr with
           | None => emit s (ORet t ROk)                    (* short header or unknown pipe: dropped silently *)
           | Some (p, rest) => pipe_send k s t c p rest body (c_best x)
           end
    else
      if sclosed s || c_closed x then emit s (ORet t (RErr EClosed))
      else match c_bt x with
           | None => emit s (ORet t (RErr EProtoState))
           | Some bt =>
             let s := set_ctx s c (with_req x (c_recvWait x) None None) in
             match c_recvPipe x with
             | Some p => pipe_send k s t c p bt body (c_best x)
             | None => amb s true
             end
           end
  end.

Definition do_recv (k : kind) (s : rstate) (t c : N) : rstate :=
  match aget c (ctxs s) with
  | None => emit s (ORet t (RErr EClosed))
  | Some x =>
    if is_raw k then
      if sclosed s then
        (* closeQ is ready; if a message is ready too, Go picks either arm *)
        emit (amb s (match take_entry s with Some _ => true | None => false end)) (ORet t (RErr EClosed))
      else match take_entry s with
           | Some (e, s) => recv_finish k s t c e
           | None => upd_threads s (threads s ++ [TRecv t c])
           end
    else
      if c_closed x then emit s (ORet t (RErr EClosed))
      else if is_rep k && c_recvWait x then emit s (ORet t (RErr EProtoState))
      else
        let x := if is_rep k then with_req x true (c_recvPipe x) (c_bt x) else with_req x false None None in
        let s := set_ctx s c x in
        match take_entry s with
        | Some (e, s) => recv_finish k s t c e
        | None => upd_threads s (threads s ++ [TRecv t c])
        end
  end.

Definition do_call (k : kind) (s : rstate) (t : N) (cl : call) : rstate :=
  match cl with
  | CSend c hdr body => do_send k s t c hdr body
  | CRecv c => do_recv k s t c
  | CSetOpt c o v _ => set_opt k s t c o v
  | COpenCtx c =>
    if is_raw k then emit s (ORet t (RErr EProtoOp))
    else if sclosed s then emit s (ORet t (RErr EClosed))
    else match aget 0 (ctxs s) with
         | Some d =>
           let x := if is_respondent k then with_opts ctx0 (c_best d) (c_sendExp d) (c_recvExp d) else ctx0 in
           emit (set_ctx s c x) (ORet t ROk)
         | None => s
         end
  | CCloseCtx c =>
    if c =? 0 then close_sock k s t
    else match aget c (ctxs s) with
         | None => emit s (ORet t (RErr EClosed))
         | Some x => if c_closed x then emit s (ORet t (RErr EClosed)) else emit (close_ctx s c) (ORet t ROk)
         end
  | CCloseSock => close_sock k s t
  end.

Definition new_pipe (cap : N) : rpipe := {| pp_closed := false; pp_hold := false; pp_busy := false; pp_cap := cap; pp_q := [] |}.

Definition step_raw (k : kind) (s : rstate) (st : stim) : rstate :=
  match st with
  | SCall t cl => do_call k s t cl
  | SAddPipe p => if sclosed s then s else set_pipe s p (new_pipe (wqlen s))
  | SDropPipe p => remove_pipe k s p
  | SDeliver p body => do_deliver k s p body
  | SHold p h =>
    match aget p (pipes s) with
    | Some pp => set_pipe s p (pipe_with pp (pp_closed pp) h (pp_busy pp) (pp_q pp))
    | None => s
    end
  | SRelease p ok =>
    match aget p (pipes s) with
    | Some pp =>
      if pp_closed pp || negb (pp_busy pp) then s
      else
        let s := set_pipe s p (pipe_with pp false (pp_hold pp) false (pp_q pp)) in
        if ok then pump_all s p
        else remove_pipe k s p      (* a failed transport send closes the pipe (done by the mock, as core does) *)
    | None => s
    end
  | SPass _ => s
  | STick _ => s
  end.

Definition step (k : kind) (s : rstate) (st : stim) : rstate * list obs :=
  let s := step_raw k (clear_out s) st in (s, rev (out s)).

Definition blocked (s : rstate) : list N := map th_id (threads s).

Definition rr_model (k : kind) : model :=
  {| m_state := rstate; m_step := step k; m_blocked := blocked; m_ambiguous := ambig |}.

Definition rep_model : model := rr_model KRep.
Definition respondent_model : model := rr_model KRespondent.
Definition xrep_model : model := rr_model KXRep.
Definition xrespondent_model : model := rr_model KXRespondent.

(* histories carry the protocol as a number *)
Definition kind_of (n : N) : kind :=
  match n with 0 => KRep | 1 => KRespondent | 2 => KXRep | _ => KXRespondent end.
Definition check_tagged (kh : N * list step_rec) : option N :=
  check_from (rr_model (kind_of (fst kh))) (init (kind_of (fst kh))) 0 (snd kh).
Definition ambiguous_tagged (kh : N * list step_rec) : option N :=
  ambiguous_from (rr_model (kind_of (fst kh))) (init (kind_of (fst kh))) 0 (snd kh).
Definition explain_tagged (kh : N * list step_rec) :=
  explain_from (rr_model (kind_of (fst kh))) (init (kind_of (fst kh))) (snd kh).
