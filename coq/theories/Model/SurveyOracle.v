(* Property oracles over SURVEYOR / XSURVEYOR histories: decidable forms of the C07 conclusions, run on the
   implementation's traces and on the model's.  They keep their own, much smaller, book-keeping (which survey is a
   context's current one, when it started, which responses arrived for it while it was current); they do not use the
   model's state.  Survey bodies carry their own id (index of the SendMsg call) in their first two bytes and response
   payloads the id they answer (the harness builds them so).

   Time: `o_now` is the latest measured time (STick before every stimulus of a timed history, SPass = end of a sleep).
   A stimulus other than a sleep takes at most `gap` ms (the harness discards timed histories where one took longer),
   timer callbacks may be late by `tol`.  Untimed histories have no clock (o_now = 0): a positive survey time never
   elapses there. *)
From MV Require Import Lib.Proto Model.Survey.
Open Scope N_scope.

Definition gap : N := 12.

Definition tag_of (b : bytes) : N := match b with x :: y :: _ => be_dec [x; y] | _ => 2 ^ 20 end.
Definition ret_of (t : N) (os : list obs) : option ret :=
  match filter (fun o => match o with ORet t' _ => t' =? t | _ => false end) os with
  | ORet _ r :: _ => Some r
  | _ => None
  end.
Definition ret_ok (t : N) (os : list obs) : bool := match ret_of t os with Some ROk => true | _ => false end.
Definition is_tx (o : obs) : bool := match o with OTx _ _ _ => true | _ => false end.
Definition not_taken (p : N) (os : list obs) : bool := existsb (fun o => match o with ONotTaken q => q =? p | _ => false end) os.

Record octx := { oc_closed : bool; oc_survExp : Z; oc_cur : option N }.
Record osurv := { os_ctx : N; os_start : N; os_exp : Z }.
Record ostate := {
  o_now : N;
  o_nsend : N;
  o_sclosed : bool;
  o_ctxs : list (N * octx);
  o_survs : list (N * osurv);             (* every survey started so far *)
  o_recvs : list (N * (N * option N));    (* Recv call -> (context, its current survey when called) *)
  o_avail : list (N * bytes);             (* (id, payload) of responses that arrived while id was in progress, not yet returned *)
}.
Definition o0 : ostate :=
  {| o_now := 0; o_nsend := 0; o_sclosed := false; o_ctxs := [(0, {| oc_closed := false; oc_survExp := 1000%Z; oc_cur := None |})];
     o_survs := []; o_recvs := []; o_avail := [] |}.

Definition o_set (s : ostate) (nw ns : N) (cl : bool) (cx : list (N * octx)) (sv : list (N * osurv)) : ostate :=
  {| o_now := nw; o_nsend := ns; o_sclosed := cl; o_ctxs := cx; o_survs := sv; o_recvs := o_recvs s; o_avail := o_avail s |}.
Definition o_set_ctxs (s : ostate) (cx : list (N * octx)) : ostate := o_set s (o_now s) (o_nsend s) (o_sclosed s) cx (o_survs s).
Definition o_set_ra (s : ostate) (rc : list (N * (N * option N))) (av : list (N * bytes)) : ostate :=
  {| o_now := o_now s; o_nsend := o_nsend s; o_sclosed := o_sclosed s; o_ctxs := o_ctxs s; o_survs := o_survs s; o_recvs := rc; o_avail := av |}.

Definition cur_of (s : ostate) (c : N) : option N := match aget c (o_ctxs s) with Some x => oc_cur x | None => None end.
Definition closed_of (s : ostate) (c : N) : bool := match aget c (o_ctxs s) with Some x => oc_closed x | None => true end.

(* the survey's time has certainly elapsed at measured time T (a survey time of 0 is documented as "infinite") *)
Definition surely_expired (s : ostate) (id T : N) : bool :=
  match aget id (o_survs s) with
  | Some v => (0 <? os_exp v)%Z && (os_start v + Z.to_N (os_exp v) + gap + tol <=? T)
  | None => false
  end.
(* id is some open context's current survey *)
Definition live (s : ostate) (id : N) : bool :=
  existsb (fun cx => negb (oc_closed (snd cx)) && opt_is (oc_cur (snd cx)) id) (o_ctxs s).

Fixpoint remove_avail (id : N) (b : bytes) (l : list (N * bytes)) : option (list (N * bytes)) :=
  match l with
  | [] => None
  | (i, x) :: r => if (i =? id) && bytes_eqb x b then Some r
                   else match remove_avail id b r with Some r' => Some ((i, x) :: r') | None => None end
  end.

Record verdict := { ok_resp : bool; ok_state : bool; ok_early : bool; ok_zero : bool }.
Definition v_and (a b : verdict) : verdict :=
  {| ok_resp := ok_resp a && ok_resp b; ok_state := ok_state a && ok_state b; ok_early := ok_early a && ok_early b;
     ok_zero := ok_zero a && ok_zero b |}.
Definition v_ok : verdict := {| ok_resp := true; ok_state := true; ok_early := true; ok_zero := true |}.

(* book-keeping for the stimulus itself (before the step's returns are judged) *)
Definition o_pre (s : ostate) (st : stim) (os : list obs) : ostate :=
  match st with
  | STick tm => o_set s (N.max (o_now s) tm) (o_nsend s) (o_sclosed s) (o_ctxs s) (o_survs s)
  | SPass tm => o_set s (N.max (o_now s) tm) (o_nsend s) (o_sclosed s) (o_ctxs s) (o_survs s)
  | SCall t (CSend c _ _) =>
    let id := o_nsend s + 1 in
    match ret_of t os, aget c (o_ctxs s) with
    | Some ROk, Some x =>
      o_set s (o_now s) id (o_sclosed s)
            (aset c {| oc_closed := oc_closed x; oc_survExp := oc_survExp x; oc_cur := Some id |} (o_ctxs s))
            (aset id {| os_ctx := c; os_start := o_now s; os_exp := oc_survExp x |} (o_survs s))
    | _, _ => o_set s (o_now s) id (o_sclosed s) (o_ctxs s) (o_survs s)
    end
  | SCall t (CRecv c) => o_set_ra s (aset t (c, cur_of s c) (o_recvs s)) (o_avail s)
  | SCall t (CSetOpt c OSurveyTime v _) =>
    match aget c (o_ctxs s) with
    | Some x => if ret_ok t os then o_set_ctxs s (aset c {| oc_closed := oc_closed x; oc_survExp := v; oc_cur := oc_cur x |} (o_ctxs s)) else s
    | None => s
    end
  | SCall t (COpenCtx c) =>
    match aget 0 (o_ctxs s) with
    | Some d => if ret_ok t os then o_set_ctxs s (aset c {| oc_closed := false; oc_survExp := oc_survExp d; oc_cur := None |} (o_ctxs s)) else s
    | None => s
    end
  | SCall t (CCloseCtx c) =>
    match aget c (o_ctxs s) with
    | Some x => if ret_ok t os then o_set_ctxs s (aset c {| oc_closed := true; oc_survExp := oc_survExp x; oc_cur := None |} (o_ctxs s)) else s
    | None => s
    end
  | SCall t CCloseSock =>
    if ret_ok t os then
      o_set s (o_now s) (o_nsend s) true
            (map (fun cx => (fst cx, {| oc_closed := true; oc_survExp := oc_survExp (snd cx); oc_cur := None |})) (o_ctxs s)) (o_survs s)
    else s
  | SDeliver p body =>
    match wire_id body with
    | Some id =>
      if negb (not_taken p os) && live s id && negb (surely_expired s id (o_now s))
      then o_set_ra s (o_recvs s) ((id, snd (split4 body)) :: o_avail s) else s
    | None => s
    end
  | _ => s
  end.

(* upper bound of the time at which this step's observations were made *)
Definition step_end (s : ostate) (st : stim) : N :=
  match st with SPass _ => o_now s | STick _ => o_now s | _ => o_now s + gap end.

(* one returned call, judged in the state after o_pre *)
Definition o_ret (st : stim) (acc : ostate * verdict) (o : obs) : ostate * verdict :=
  let '(s, v) := acc in
  match o with
  | ORet t (RMsg h b) =>
    match aget t (o_recvs s) with
    | Some (c, _) =>
      match cur_of s c with
      | Some id =>
        let good := bytes_eqb h (surv_hdr id) && (tag_of b =? id) && negb (surely_expired s id (o_now s)) && negb (closed_of s c) in
        match remove_avail id b (o_avail s) with
        | Some av => (o_set_ra s (o_recvs s) av, v_and v {| ok_resp := good; ok_state := true; ok_early := true; ok_zero := true |})
        | None => (s, v_and v {| ok_resp := false; ok_state := true; ok_early := true; ok_zero := true |})
        end
      | None => (s, v_and v {| ok_resp := false; ok_state := true; ok_early := true; ok_zero := true |})
      end
    | None => (s, v)      (* not a Recv of a cooked history *)
    end
  | ORet t (RErr e) =>
    match aget t (o_recvs s) with
    | Some (c, Some id) =>
      (* protocol-state error although the survey this call waited for is still the context's current one *)
      if (e =? EProtoState) && opt_is (cur_of s c) id && negb (closed_of s c) then
        match aget id (o_survs s) with
        | Some sv =>
          let zero := (os_exp sv =? 0)%Z in
          let early := (0 <? os_exp sv)%Z && (step_end s st + tol <? os_start sv + Z.to_N (os_exp sv)) in
          (s, v_and v {| ok_resp := true; ok_state := true; ok_early := negb early; ok_zero := negb zero |})
        | None => (s, v)
        end
      else (s, v)
    | _ => (s, v)
    end
  | _ => (s, v)
  end.

(* Recv with certainly no survey in progress must fail in the same step; no call stays blocked on a survey that
   was abandoned, closed or has certainly expired *)
Definition o_prompt (s : ostate) (st : stim) (os : list obs) (bl : list N) : bool :=
  (match st with
   | SCall t (CRecv c) =>
     let none := o_sclosed s || closed_of s c
                 || match cur_of s c with None => true | Some id => surely_expired s id (o_now s) end in
     if none then
       match ret_of t os with
       | Some (RErr e) => if o_sclosed s then e =? EClosed
                          else if closed_of s c then (e =? EProtoState) || (e =? EClosed)
                          else e =? EProtoState
       | _ => false
       end
     else true
   | _ => true
   end)
  && (match st with
      | STick _ => true     (* a tick repeats the previous step's blocked list: judged there and at the next step *)
      | _ =>
      forallb (fun t => match aget t (o_recvs s) with
                       | Some (c, Some id) => opt_is (cur_of s c) id && negb (closed_of s c) && negb (o_sclosed s)
                                              && negb (surely_expired s id (o_now s))
                       | Some (c, None) => true      (* judged when it was called *)
                       | None => true
                       end) bl
      end).

Definition ostep (s : ostate) (r : step_rec) : ostate * verdict :=
  let '(st, os, bl) := r in
  let s := o_pre s st os in
  let '(s, v) := fold_left (o_ret st) os (s, v_ok) in
  (s, v_and v {| ok_resp := true; ok_state := o_prompt s st os bl; ok_early := true; ok_zero := true |}).

Fixpoint o_from (sel : verdict -> bool) (s : ostate) (i : N) (h : list step_rec) : option N :=
  match h with
  | [] => None
  | r :: rest => let '(s', v) := ostep s r in if sel v then o_from sel s' (N.succ i) rest else Some i
  end.

(* C07: a returned response answers the context's current survey (header and payload tag), arrived while that survey
   was in progress, is returned once per arrival, and not after the survey time has certainly elapsed *)
Definition c07_resp (h : list step_rec) : option N := o_from ok_resp o0 0 h.
(* C07: Recv with no survey in progress / after expiry fails at once; no Recv stays blocked past the end of its survey *)
Definition c07_state (h : list step_rec) : option N := o_from ok_state o0 0 h.
(* C07: a survey with a positive survey time is not ended before that time *)
Definition c07_early (h : list step_rec) : option N := o_from ok_early o0 0 h.
(* C07 / C19: SURVEY-TIME 0 means no expiry *)
Definition c07_zero (h : list step_rec) : option N := o_from ok_zero o0 0 h.

(* ---- broadcast: every survey goes, with identical bytes, once to every pipe attached and with room ---- *)
Record bstate := { b_pipes : list spipe; b_wqlen : N; b_nsend : N; b_closed : bool }.
Definition b0 : bstate := {| b_pipes := []; b_wqlen := 128; b_nsend := 0; b_closed := false |}.

Definition b_step (raw : bool) (s : bstate) (st : stim) (os : list obs) : bstate * bool :=
  let same exp := obs_perm exp (filter is_tx os) in
  match st with
  | SAddPipe p =>
    (if b_closed s then s
     else {| b_pipes := b_pipes s ++ [new_pipe p (b_wqlen s)]; b_wqlen := b_wqlen s; b_nsend := b_nsend s; b_closed := b_closed s |}, same [])
  | SDropPipe p => ({| b_pipes := del_pipe p (b_pipes s); b_wqlen := b_wqlen s; b_nsend := b_nsend s; b_closed := b_closed s |}, same [])
  | SHold p h =>
    (match find_pipe p (b_pipes s) with
     | Some pp => {| b_pipes := put_pipe (pp_sethold pp h) (b_pipes s); b_wqlen := b_wqlen s; b_nsend := b_nsend s; b_closed := b_closed s |}
     | None => s
     end, same [])
  | SRelease p ok =>
    let '(ps, exp) := release_pipe p ok (b_pipes s) in
    ({| b_pipes := ps; b_wqlen := b_wqlen s; b_nsend := b_nsend s; b_closed := b_closed s |}, same exp)
  | SCall t (CSend c hdr body) =>
    let id := b_nsend s + 1 in
    if ret_ok t os then
      let '(ps, exp) := bcast (if raw then hdr else surv_hdr id) body (b_pipes s) in
      ({| b_pipes := ps; b_wqlen := b_wqlen s; b_nsend := id; b_closed := b_closed s |}, same exp)
    else ({| b_pipes := b_pipes s; b_wqlen := b_wqlen s; b_nsend := id; b_closed := b_closed s |}, same [])
  | SCall t (CSetOpt c OWriteQLen v _) =>
    (if ret_ok t os then {| b_pipes := b_pipes s; b_wqlen := Z.to_N v; b_nsend := b_nsend s; b_closed := b_closed s |} else s, same [])
  | SCall t CCloseSock =>
    (if ret_ok t os then {| b_pipes := b_pipes s; b_wqlen := b_wqlen s; b_nsend := b_nsend s; b_closed := true |} else s, same [])
  | _ => (s, same [])
  end.
Fixpoint b_from (raw : bool) (s : bstate) (i : N) (h : list step_rec) : option N :=
  match h with
  | [] => None
  | (st, os, _) :: r => let '(s', ok) := b_step raw s st os in if ok then b_from raw s' (N.succ i) r else Some i
  end.
Definition c07_bcast (h : list step_rec) : option N := b_from false b0 0 h.
Definition x07_bcast (h : list step_rec) : option N := b_from true b0 0 h.

(* ---- XSURVEYOR: whatever Recv returns is a response that arrived (>= 4 bytes, header split off), once per arrival ---- *)
Fixpoint remove_msg (h b : bytes) (l : list (bytes * bytes)) : option (list (bytes * bytes)) :=
  match l with
  | [] => None
  | (x, y) :: r => if bytes_eqb x h && bytes_eqb y b then Some r
                   else match remove_msg h b r with Some r' => Some ((x, y) :: r') | None => None end
  end.
Definition x_step (s : list (bytes * bytes)) (st : stim) (os : list obs) : list (bytes * bytes) * bool :=
  let s := match st with
           | SDeliver p body =>
             match body with
             | _ :: _ :: _ :: _ :: _ => if not_taken p os then s else s ++ [split4 body]
             | _ => s
             end
           | _ => s
           end in
  fold_left (fun '(s, ok) o =>
    match o with
    | ORet _ (RMsg h b) => match remove_msg h b s with Some s' => (s', ok) | None => (s, false) end
    | _ => (s, ok)
    end) os (s, true).
Fixpoint x_from (s : list (bytes * bytes)) (i : N) (h : list step_rec) : option N :=
  match h with
  | [] => None
  | (st, os, _) :: r => let '(s', ok) := x_step s st os in if ok then x_from s' (N.succ i) r else Some i
  end.
Definition x07_recv (h : list step_rec) : option N := x_from [] 0 h.

(* the models' own traces for a list of stimuli, in the same step_rec form *)
Fixpoint model_trace (fixed : bool) (s : sstate) (h : list stim) : list step_rec :=
  match h with
  | [] => []
  | st :: r => let '(s', os) := step fixed s st in (st, os, blocked s') :: model_trace fixed s' r
  end.
Fixpoint xmodel_trace (s : rstate) (h : list stim) : list step_rec :=
  match h with
  | [] => []
  | st :: r => let '(s', os) := rstep s st in (st, os, rblocked s') :: xmodel_trace s' r
  end.

(* ---- RESPONDENT (oracle only, no model): each answer goes to the one pipe from which the context received the survey it
   answers, carrying that survey's backtrace as header, and nowhere else.  Survey payloads carry a unique number in their
   first two bytes; the answering application copies the number of the survey it last received into its reply. ---- *)
(* backtrace of a delivered survey: 4-byte words up to and including the first one with the top bit *)
Fixpoint backtrace (fuel : nat) (body : bytes) : option (bytes * bytes) :=
  match fuel with
  | O => None
  | S f =>
    match body with
    | a :: b :: c :: d :: r =>
      if 128 <=? b2n a then Some ([a; b; c; d], r)
      else match backtrace f r with Some (h, p) => Some (a :: b :: c :: d :: h, p) | None => None end
    | _ => None
    end
  end.

Record pstate := {
  p_pipes : list N; p_closed : bool;
  p_deliv : list (N * (N * bytes));     (* survey number -> (pipe it arrived on, its backtrace) *)
  p_recvs : list (N * N);               (* Recv call -> context *)
  p_cur : list (N * N);                 (* context -> number of the survey it received last and has not answered *)
}.
Definition p0 : pstate := {| p_pipes := []; p_closed := false; p_deliv := []; p_recvs := []; p_cur := [] |}.

Definition r_step (s : pstate) (st : stim) (os : list obs) : pstate * bool :=
  let tx := filter is_tx os in
  (* the stimulus *)
  let '(s, exp) :=
    match st with
    | SAddPipe p => ({| p_pipes := if p_closed s then p_pipes s else p :: p_pipes s; p_closed := p_closed s; p_deliv := p_deliv s;
                        p_recvs := p_recvs s; p_cur := p_cur s |}, [])
    | SDropPipe p => ({| p_pipes := filter (fun q => negb (q =? p)) (p_pipes s); p_closed := p_closed s; p_deliv := p_deliv s;
                         p_recvs := p_recvs s; p_cur := p_cur s |}, [])
    | SDeliver p body =>
      (match backtrace 8 body with
       | Some (bt, payload) =>
         if not_taken p os then s
         else {| p_pipes := p_pipes s; p_closed := p_closed s; p_deliv := aset (tag_of payload) (p, bt) (p_deliv s);
                 p_recvs := p_recvs s; p_cur := p_cur s |}
       | None => s
       end, [])
    | SCall t (CRecv c) =>
      (* RecvMsg forgets the survey received before (unless the context is closed) *)
      let closed := match ret_of t os with Some (RErr e) => e =? EClosed | _ => false end in
      ({| p_pipes := p_pipes s; p_closed := p_closed s; p_deliv := p_deliv s; p_recvs := aset t c (p_recvs s);
          p_cur := if closed then p_cur s else adel c (p_cur s) |}, [])
    | SCall t (CSend c _ body) =>
      let exp := match aget c (p_cur s) with
                 | Some n => match aget n (p_deliv s) with
                             | Some (p, bt) => if existsb (N.eqb p) (p_pipes s) then [OTx p bt body] else []
                             | None => []
                             end
                 | None => []
                 end in
      let accepted := ret_ok t os in
      ({| p_pipes := p_pipes s; p_closed := p_closed s; p_deliv := p_deliv s; p_recvs := p_recvs s;
          p_cur := if accepted then adel c (p_cur s) else p_cur s |}, if accepted then exp else [])
    | SCall t CCloseSock =>
      ({| p_pipes := p_pipes s; p_closed := p_closed s || ret_ok t os; p_deliv := p_deliv s; p_recvs := p_recvs s; p_cur := p_cur s |}, [])
    | _ => (s, [])
    end in
  (* surveys handed to the application *)
  let '(s, ok) := fold_left (fun '(s, ok) o =>
      match o with
      | ORet t (RMsg _ b) =>
        match aget t (p_recvs s) with
        | Some c => ({| p_pipes := p_pipes s; p_closed := p_closed s; p_deliv := p_deliv s; p_recvs := p_recvs s;
                        p_cur := aset c (tag_of b) (p_cur s) |},
                     ok && match aget (tag_of b) (p_deliv s) with Some _ => true | None => false end)
        | None => (s, false)
        end
      | _ => (s, ok)
      end) os (s, true) in
  (s, ok && obs_perm exp tx).
Fixpoint r_from (s : pstate) (i : N) (h : list step_rec) : option N :=
  match h with
  | [] => None
  | (st, os, _) :: r => let '(s', ok) := r_step s st os in if ok then r_from s' (N.succ i) r else Some i
  end.
Definition r07_route (h : list step_rec) : option N := r_from p0 0 h.

(* for oracle-only runs: a model that declares everything ambiguous is never compared *)
Definition null_model : model :=
  {| m_state := unit; m_step := fun s _ => (s, []); m_blocked := fun _ => []; m_ambiguous := fun _ => true |}.
