(* C18 for the cooked sockets with contexts: REP (protocol/rep/rep.go) and RESPONDENT (protocol/respondent/respondent.go).
   Each context has its own SEND-DEADLINE / RECV-DEADLINE / BEST-EFFORT (SetOption rejects deadlines <= 0); RecvMsg is a
   select over {s.recvQ, the context's closeQ, the time channel}; SendMsg goes to the pipe the request came from:
   select over {p.sendQ <- m, c.closeQ, p.closeQ (peer gone: drop, nil), the time channel}.
   Same vocabulary and entry decisions as Model/Deadline.v.  No proofs here. *)
From MV Require Export Model.Deadline.
Open Scope N_scope.

Inductive ckind := KRep | KResp.

Record cctx := {
  x_closed : bool; x_recvWait : bool;
  x_sd : N; x_rd : N; x_be : bool;
  x_bt : option bytes;        (* backtrace of the request this context is serving *)
  x_pipe : option N }.        (* ... and the pipe it came from *)
Definition cctx0 := {| x_closed := false; x_recvWait := false; x_sd := 0; x_rd := 0; x_be := false; x_bt := None; x_pipe := None |}.

(* a parked call: context, target pipe (Send), and the timing data of Model/Deadline.v *)
Record ccall := { cc_ctx : N; cc_pipe : N; cc_b : bcall }.

Record cst := {
  c_kind : ckind;
  c_ctxs : list (N * cctx);
  c_pipes : list qpipe;                (* qp_q / qp_cap: the pipe's sendQ; qp_rx: receiver goroutine parked on recvQ <- (header, body) *)
  c_W : N; c_R : N; c_ttl : N;
  c_recvq : list (N * msg);            (* RESPONDENT's buffered recvQ: (pipe, (backtrace, body)) *)
  c_rxwait : list N;
  c_bsend : list ccall; c_brecv : list ccall;
  c_sclosed : bool; c_now : N; c_out : list obs; c_ambig : bool }.

Definition cinit (k : ckind) : cst :=
  {| c_kind := k; c_ctxs := [(0, cctx0)]; c_pipes := []; c_W := 0; c_R := match k with KRep => 0 | KResp => 128 end; c_ttl := 8;
     c_recvq := []; c_rxwait := []; c_bsend := []; c_brecv := []; c_sclosed := false; c_now := 0; c_out := []; c_ambig := false |}.

Fixpoint aget {V} (k : N) (l : list (N * V)) : option V :=
  match l with [] => None | (k', v) :: r => if k =? k' then Some v else aget k r end.
Fixpoint aset {V} (k : N) (v : V) (l : list (N * V)) : list (N * V) :=
  match l with [] => [(k, v)] | (k', v') :: r => if k =? k' then (k, v) :: r else (k', v') :: aset k v r end.

Definition upd (s : cst) ctxs pipes recvq rxwait bsend brecv : cst :=
  {| c_kind := c_kind s; c_ctxs := ctxs; c_pipes := pipes; c_W := c_W s; c_R := c_R s; c_ttl := c_ttl s; c_recvq := recvq; c_rxwait := rxwait;
     c_bsend := bsend; c_brecv := brecv; c_sclosed := c_sclosed s; c_now := c_now s; c_out := c_out s; c_ambig := c_ambig s |}.
Definition cset_ctx (s : cst) (c : N) (x : cctx) : cst := upd s (aset c x (c_ctxs s)) (c_pipes s) (c_recvq s) (c_rxwait s) (c_bsend s) (c_brecv s).
Definition cset_pipes (s : cst) (l : list qpipe) : cst := upd s (c_ctxs s) l (c_recvq s) (c_rxwait s) (c_bsend s) (c_brecv s).
Definition cset_rx (s : cst) (q : list (N * msg)) (w : list N) : cst := upd s (c_ctxs s) (c_pipes s) q w (c_bsend s) (c_brecv s).
Definition cset_bsend (s : cst) (l : list ccall) : cst := upd s (c_ctxs s) (c_pipes s) (c_recvq s) (c_rxwait s) l (c_brecv s).
Definition cset_brecv (s : cst) (l : list ccall) : cst := upd s (c_ctxs s) (c_pipes s) (c_recvq s) (c_rxwait s) (c_bsend s) l.
Definition cset_glob (s : cst) (w r ttl : N) (closed : bool) (nw : N) (amb : bool) : cst :=
  {| c_kind := c_kind s; c_ctxs := c_ctxs s; c_pipes := c_pipes s; c_W := w; c_R := r; c_ttl := ttl; c_recvq := c_recvq s; c_rxwait := c_rxwait s;
     c_bsend := c_bsend s; c_brecv := c_brecv s; c_sclosed := closed; c_now := nw; c_out := c_out s; c_ambig := amb |}.
Definition cemit (s : cst) (o : obs) : cst :=
  {| c_kind := c_kind s; c_ctxs := c_ctxs s; c_pipes := c_pipes s; c_W := c_W s; c_R := c_R s; c_ttl := c_ttl s; c_recvq := c_recvq s; c_rxwait := c_rxwait s;
     c_bsend := c_bsend s; c_brecv := c_brecv s; c_sclosed := c_sclosed s; c_now := c_now s; c_out := o :: c_out s; c_ambig := c_ambig s |}.
Definition cclear (s : cst) : cst :=
  {| c_kind := c_kind s; c_ctxs := c_ctxs s; c_pipes := c_pipes s; c_W := c_W s; c_R := c_R s; c_ttl := c_ttl s; c_recvq := c_recvq s; c_rxwait := c_rxwait s;
     c_bsend := c_bsend s; c_brecv := c_brecv s; c_sclosed := c_sclosed s; c_now := c_now s; c_out := []; c_ambig := c_ambig s |}.
Definition camb (s : cst) : cst := cset_glob s (c_W s) (c_R s) (c_ttl s) (c_sclosed s) (c_now s) true.
Definition creply (s : cst) (t : N) (r : ret) : cst := cemit s (ORet t r).

Definition with_ctx (x : cctx) (rw : bool) (bt : option bytes) (p : option N) : cctx :=
  {| x_closed := x_closed x; x_recvWait := rw; x_sd := x_sd x; x_rd := x_rd x; x_be := x_be x; x_bt := bt; x_pipe := p |}.
Definition with_copts (x : cctx) (sd rd : N) (be : bool) : cctx :=
  {| x_closed := x_closed x; x_recvWait := x_recvWait x; x_sd := sd; x_rd := rd; x_be := be; x_bt := x_bt x; x_pipe := x_pipe x |}.
Definition closed_ctx (x : cctx) : cctx :=
  {| x_closed := true; x_recvWait := x_recvWait x; x_sd := x_sd x; x_rd := x_rd x; x_be := x_be x; x_bt := x_bt x; x_pipe := x_pipe x |}.

Definition cget_pipe (s : cst) (p : N) : option qpipe := find (fun x => qp_id x =? p) (c_pipes s).
Definition cput_pipe (s : cst) (x : qpipe) : cst := cset_pipes s (map (fun y => if qp_id y =? qp_id x then x else y) (c_pipes s)).

Definition pipe_room (x : qpipe) : bool := (nlen (qp_q x) <? qp_cap x) || negb (qp_busy x).

(* pipe p's sender goroutine, then the Sends parked on p.sendQ (oldest first) *)
Fixpoint cpump (fuel : nat) (s : cst) (p : N) : cst :=
  match fuel with
  | O => s
  | S f =>
    match cget_pipe s p with
    | None => s
    | Some x =>
      if negb (qp_alive x) then s else
      let unpark :=
        (* room for the first Send parked on this pipe *)
        match filter (fun cc => cc_pipe cc =? p) (c_bsend s) with
        | cc :: _ =>
          if pipe_room x then
            let s := cset_bsend s (filter (fun c' => negb (b_t (cc_b c') =? b_t (cc_b cc))) (c_bsend s)) in
            let s := creply s (b_t (cc_b cc)) ROk in
            cpump f (cput_pipe s (with_pipe x (qp_hold x) (qp_busy x) (qp_q x ++ [b_msg (cc_b cc)]) (qp_rx x))) p
          else s
        | [] => s
        end in
      match qp_q x, qp_busy x with
      | m :: rest, false =>
        let s := cemit s (OTx p (fst m) (snd m)) in
        cpump f (cput_pipe s (with_pipe x (qp_hold x) (qp_hold x) rest (qp_rx x))) p
      | _, _ => unpark
      end
    end
  end.
Definition cpump_all (s : cst) (p : N) : cst := cpump (6 + 2 * length (c_bsend s)) s p.

(* the receiver goroutine: move the backtrace (4-byte words up to the one with the top bit) from the body to the header *)
Fixpoint backtrace (fuel : nat) (hdr body : bytes) : option msg :=
  match fuel with
  | O => None                                     (* too many hops *)
  | S f =>
    match body with
    | a :: b :: c :: d :: r =>
      if 128 <=? b2n a then Some (hdr ++ [a; b; c; d], r) else backtrace f (hdr ++ [a; b; c; d]) r
    | _ => None                                   (* garbled *)
    end
  end.

(* an entry reaches a context's RecvMsg *)
Definition give (s : cst) (cc : ccall) (p : N) (m : msg) : cst :=
  match aget (cc_ctx cc) (c_ctxs s) with
  | Some x => creply (cset_ctx s (cc_ctx cc) (with_ctx x false (Some (fst m)) (Some p))) (b_t (cc_b cc)) (RMsg [] (snd m))
  | None => s
  end.

Definition crx_push (s : cst) (p : N) (m : msg) : cst :=
  match c_brecv s with
  | cc :: rest => give (cset_brecv s rest) cc p m
  | [] =>
    if nlen (c_recvq s) <? c_R s then cset_rx s (c_recvq s ++ [(p, m)]) (c_rxwait s)
    else match cget_pipe s p with
         | Some x => cset_rx (cput_pipe s (with_pipe x (qp_hold x) (qp_busy x) (qp_q x) (Some m))) (c_recvq s) (c_rxwait s ++ [p])
         | None => s
         end
  end.

Definition crx_has (s : cst) : bool := match c_recvq s, c_rxwait s with [], [] => false | _, _ => true end.
Definition crx_take (s : cst) : option (N * msg * cst) :=
  let unpark (s : cst) (q : list (N * msg)) :=
    match c_rxwait s with
    | p :: w =>
      match cget_pipe s p with
      | Some x => match qp_rx x with
                  | Some m => Some (p, m, cset_rx (cput_pipe s (with_pipe x (qp_hold x) (qp_busy x) (qp_q x) None)) q w)
                  | None => None end
      | None => None
      end
    | [] => None
    end in
  match c_recvq s with
  | (p, m) :: rest =>
    let s := cset_rx s rest (c_rxwait s) in
    Some (p, m, match unpark s rest with Some (p', m', s') => cset_rx s' (rest ++ [(p', m')]) (c_rxwait s') | None => s end)
  | [] => unpark s []
  end.

Definition cpark (d : N) (s : cst) (c p t : N) (m : msg) : ccall :=
  {| cc_ctx := c; cc_pipe := p; cc_b := {| b_t := t; b_msg := m; b_lo := c_now s; b_hi := None; b_d := d |} |}.

Definition cdo_recv (s : cst) (c t : N) : list cst :=
  match aget c (c_ctxs s) with
  | None => [camb s]
  | Some x =>
    if x_closed x then [creply s t (RErr EClosed)]
    else if match c_kind s with KRep => x_recvWait x | KResp => false end then [creply s t (RErr EProtoState)]
    else
      let x := match c_kind s with KRep => with_ctx x true (x_bt x) (x_pipe x) | KResp => with_ctx x false None None end in
      let s := cset_ctx s c x in
      flat_map (fun o =>
        match o with
        | Done => match crx_take s with
                  | Some (p, m, s') => [give s' (cpark 0 s c 0 t ([], [])) p m]
                  | None => []
                  end
        | Blocked => [cset_brecv s (c_brecv s ++ [cpark (x_rd x) s c 0 t ([], [])])]
        | _ => []
        end) (recv_outcome (x_rd x) (crx_has s) false (c_now s) (c_now s))
  end.

Definition cdo_send (s : cst) (c t : N) (body : bytes) : list cst :=
  match aget c (c_ctxs s) with
  | None => [camb s]
  | Some x =>
    if c_sclosed s || x_closed x then [creply s t (RErr EClosed)]
    else match x_bt x, x_pipe x with
         | Some bt, Some p =>
           let s := cset_ctx s c (with_ctx x (x_recvWait x) None None) in
           match cget_pipe s p with
           | Some pp =>
             if negb (qp_alive pp) then [creply s t ROk]      (* p.closeQ is closed: whichever arm is taken, nil and nothing sent *)
             else
               flat_map (fun o =>
                 match o with
                 | Done => [creply (cpump_all (cput_pipe s (with_pipe pp (qp_hold pp) (qp_busy pp) (qp_q pp ++ [(bt, body)]) (qp_rx pp))) p) t ROk]
                 | Dropped => [creply s t ROk]
                 | Blocked => [cset_bsend s (c_bsend s ++ [cpark (if x_be x then 0 else x_sd x) s c p t (bt, body)])]
                 | _ => []
                 end) (send_outcome (x_be x) (x_sd x) (pipe_room pp) false (c_now s) (c_now s))
           | None => [camb s]
           end
         | _, _ => [creply s t (RErr EProtoState)]
         end
  end.

(* everything parked on behalf of context c returns ErrClosed *)
Definition close_ctx (s : cst) (c : N) : cst :=
  match aget c (c_ctxs s) with
  | Some x =>
    if x_closed x then s else
    let s := cset_ctx s c (closed_ctx (with_ctx x false (x_bt x) (x_pipe x))) in
    let mine := fun cc : ccall => cc_ctx cc =? c in
    let gone := filter mine (c_bsend s) ++ filter mine (c_brecv s) in
    let s := cset_brecv (cset_bsend s (filter (fun cc => negb (mine cc)) (c_bsend s))) (filter (fun cc => negb (mine cc)) (c_brecv s)) in
    fold_left (fun s cc => creply s (b_t (cc_b cc)) (RErr EClosed)) gone s
  | None => s
  end.

Definition cquiet (s : cst) : bool :=
  negb (c_sclosed s) && match c_recvq s, c_rxwait s, c_brecv s with [], [], [] => true | _, _, _ => false end.

Definition cdo_setopt (s : cst) (c t : N) (o : opt) (v : Z) : cst :=
  match aget c (c_ctxs s) with
  | None => camb s
  | Some x =>
    let bad := creply s t (RErr EBadOption) in
    let bv := creply s t (RErr EBadValue) in
    let ctxopt :=
      match o with
      | OSendDeadline => if (0 <? v)%Z then creply (cset_ctx s c (with_copts x (Z.to_N v) (x_rd x) (x_be x))) t ROk else bv
      | ORecvDeadline => if (0 <? v)%Z then creply (cset_ctx s c (with_copts x (x_sd x) (Z.to_N v) (x_be x))) t ROk else bv
      | OBestEffort => creply (cset_ctx s c (with_copts x (x_sd x) (x_rd x) (negb (v =? 0)%Z))) t ROk
      | _ => bad
      end in
    if c =? 0 then
      match o with
      | OWriteQLen => if (v <? 0)%Z then bv else creply (cset_glob s (Z.to_N v) (c_R s) (c_ttl s) (c_sclosed s) (c_now s) (c_ambig s)) t ROk
      | OReadQLen =>
        match c_kind s with
        | KRep => ctxopt
        | KResp => if (v <? 0)%Z then bv
                   else creply (cset_glob s (c_W s) (Z.to_N v) (c_ttl s) (c_sclosed s) (c_now s) (c_ambig s || negb (cquiet s))) t ROk
        end
      | OTtl => if ((0 <? v) && (v <? 256))%Z then creply (cset_glob s (c_W s) (c_R s) (Z.to_N v) (c_sclosed s) (c_now s) (c_ambig s)) t ROk else bv
      | _ => ctxopt
      end
    else ctxopt
  end.

Definition cdrop_pipe (s : cst) (p : N) : cst :=
  match cget_pipe s p with
  | None => s
  | Some x =>
    if negb (qp_alive x) then s else
    (* REP's receiver selects on p.closeQ and abandons its message; RESPONDENT's does not: it stays parked on recvQ *)
    let keep_rx := match c_kind s with KRep => false | KResp => true end in
    let x' := {| qp_id := qp_id x; qp_alive := false; qp_hold := qp_hold x; qp_busy := false; qp_q := []; qp_cap := qp_cap x;
                 qp_rx := if keep_rx then qp_rx x else None |} in
    let s := cput_pipe s x' in
    let s := if keep_rx then s else cset_rx s (c_recvq s) (nremove p (c_rxwait s)) in
    (* Sends parked on p.sendQ take the p.closeQ arm: message dropped, nil *)
    let gone := filter (fun cc => cc_pipe cc =? p) (c_bsend s) in
    let s := cset_bsend s (filter (fun cc => negb (cc_pipe cc =? p)) (c_bsend s)) in
    fold_left (fun s cc => creply s (b_t (cc_b cc)) ROk) gone s
  end.

Definition cmap_b (f : bcall -> bcall) (l : list ccall) : list ccall :=
  map (fun cc => {| cc_ctx := cc_ctx cc; cc_pipe := cc_pipe cc; cc_b := f (cc_b cc) |}) l.
Definition cseal (at_ : N) (l : list ccall) : list ccall :=
  cmap_b (fun b => match b_hi b with Some _ => b | None => {| b_t := b_t b; b_msg := b_msg b; b_lo := b_lo b; b_hi := Some at_; b_d := b_d b |} end) l.

Definition clear_recvwait (s : cst) (cc : ccall) : cst :=
  match aget (cc_ctx cc) (c_ctxs s) with
  | Some x => cset_ctx s (cc_ctx cc) (with_ctx x false (x_bt x) (x_pipe x))
  | None => s
  end.

Definition cdo_pass (s : cst) (u : N) : cst :=
  let bs := cseal u (c_bsend s) in
  let br := cseal u (c_brecv s) in
  let f := fun cc => fired u (cc_b cc) in
  let unclear := existsb (fun cc => negb (fired u (cc_b cc)) && negb (notyet u (cc_b cc))) (bs ++ br) in
  let s := cset_brecv (cset_bsend s (filter (fun cc => negb (f cc)) bs)) (filter (fun cc => negb (f cc)) br) in
  let s := fold_left (fun s cc => creply s (b_t (cc_b cc)) (RErr ESendTimeout)) (filter f bs) s in
  let s := fold_left (fun s cc => creply (clear_recvwait s cc) (b_t (cc_b cc)) (RErr ERecvTimeout)) (filter f br) s in
  cset_glob s (c_W s) (c_R s) (c_ttl s) (c_sclosed s) u (c_ambig s || unclear).

Definition cdo_tick (s : cst) (a : N) : cst :=
  let s := cset_brecv (cset_bsend s (cseal a (c_bsend s))) (cseal a (c_brecv s)) in
  let near := existsb (fun cc => (0 <? b_d (cc_b cc)) && (b_lo (cc_b cc) + b_d (cc_b cc) <? a + tol)) (c_bsend s ++ c_brecv s) in
  cset_glob s (c_W s) (c_R s) (c_ttl s) (c_sclosed s) (N.max (c_now s) a) (c_ambig s || near).

Definition cstep_raw (s : cst) (st : stim) : list cst :=
  match st with
  | SCall t (CSend c _ body) => cdo_send s c t body
  | SCall t (CRecv c) => cdo_recv s c t
  | SCall t (CSetOpt c o v _) => [cdo_setopt s c t o v]
  | SCall t (COpenCtx c) =>
    if c_sclosed s then [creply s t (RErr EClosed)]
    else
      let x := match c_kind s, aget 0 (c_ctxs s) with
               | KResp, Some d => with_copts cctx0 (x_sd d) (x_rd d) (x_be d)      (* RESPONDENT contexts inherit, REP's do not *)
               | _, _ => cctx0
               end in
      [creply (cset_ctx s c x) t ROk]
  | SCall t (CCloseCtx c) =>
    match aget c (c_ctxs s) with
    | Some x => if x_closed x then [creply s t (RErr EClosed)] else [creply (close_ctx s c) t ROk]
    | None => [camb s]
    end
  | SCall t CCloseSock =>
    if c_sclosed s then [creply s t (RErr EClosed)]
    else
      (* RESPONDENT's parked receiver goroutines leave through s.closeQ and close their pipes: left to the core-level checks *)
      let s := match c_rxwait s with [] => s | _ => camb s end in
      let s := cset_glob s (c_W s) (c_R s) (c_ttl s) true (c_now s) (c_ambig s) in
      [creply (fold_left (fun s cx => close_ctx s (fst cx)) (c_ctxs s) s) t ROk]
  | SPass u => [cdo_pass s u]
  | STick a => [cdo_tick s a]
  | _ =>
    if c_sclosed s then [camb s] else
    match st with
    | SAddPipe p =>
      [cset_pipes s (c_pipes s ++ [{| qp_id := p; qp_alive := true; qp_hold := false; qp_busy := false; qp_q := []; qp_cap := c_W s; qp_rx := None |}])]
    | SDropPipe p => [cdrop_pipe s p]
    | SDeliver p body =>
      match cget_pipe s p with
      | Some x =>
        if negb (qp_alive x) then [cemit s (ONotTaken p)]
        else match qp_rx x with
             | Some _ => [cemit s (ONotTaken p)]
             | None => match backtrace (N.to_nat (c_ttl s)) [] body with
                       | Some m => [crx_push s p m]
                       | None => [s]
                       end
             end
      | None => [cemit s (ONotTaken p)]
      end
    | SHold p h =>
      match cget_pipe s p with
      | Some x => [cput_pipe s (with_pipe x h (qp_busy x) (qp_q x) (qp_rx x))]
      | None => [s]
      end
    | SRelease p ok =>
      match cget_pipe s p with
      | Some x =>
        if qp_alive x && qp_busy x then
          if ok then [cpump_all (cput_pipe s (with_pipe x (qp_hold x) false (qp_q x) (qp_rx x))) p]
          else [cdrop_pipe s p]
        else [s]
      | None => [s]
      end
    | _ => [s]
    end
  end.

Definition cstep (s : cst) (st : stim) : list cst := cstep_raw (cclear s) st.
Definition cblocked (s : cst) : list N := map (fun cc => b_t (cc_b cc)) (c_bsend s) ++ map (fun cc => b_t (cc_b cc)) (c_brecv s).

Definition cnmodel : nmodel :=
  {| n_state := cst; n_step := cstep; n_obs := fun s => rev (c_out s); n_blocked := cblocked; n_ambiguous := c_ambig |}.
