(* No blocking operation while a mutex is held (C12 / C10; Model/LockCfg.v IBlocking).
   Blocking instructions of the CFG skeleton: channel send / receive / select without default, time.Sleep,
   WaitGroup.Wait, network and transport I/O (Read, Write, Accept, Dial, TLS Handshake, websocket Read/WriteMessage,
   transport Pipe Send/Recv, Handshaker.Wait), range over a channel.  A goroutine that blocks there while holding a
   mutex stalls every other user of that mutex -- Close first of all -- for as long as the peer pleases.  The strict
   policy allows none of them under any mutex; reviewed exemptions are listed by function name. *)
From Coq Require Import String List.
Import ListNotations.
From MV Require Import Model.LockCfg.
Open Scope string_scope.
Definition strict_blocking : policy := fun _ _ => false.
Definition blocking_exempt : list string := [
  (* sender() receives from sendQ under the socket mutex only after having seen len(sendQ) > 0 under that same mutex,
     and it is the only receiver of that channel: the receive cannot block *)
  "protocol/xpush.socket.sender"
].
