(* SP stream mapping (TCP / TLS / IPC), the message pool, the connection handshake, WebSocket payloads.
   Mirrors message.go:NewMessage, transport/conn.go:{Send,Recv,handshake}, transport/connipc_posix.go,
   transport/ws/ws.go:{Send,Recv}, transport/inproc/inproc.go:Send.  No proofs here. *)
From MV Require Export Lib.Bytes.
Open Scope N_scope.

(* ---------------------------------------------------------------- message pool ---- *)
(* NewMessage(sz): the first cache class whose test `sz < maxbody` (or `<=`) holds supplies a buffer of
   capacity `newmsg` (the size its pool's New function allocates); otherwise a fresh buffer of capacity sz. *)
Record pool := { p_classes : list (N * N) (* maxbody, capacity of that pool's buffers *); p_strict : bool (* `<` *) }.

Definition class_test (strict : bool) (sz maxbody : N) : bool := if strict then sz <? maxbody else sz <=? maxbody.

Fixpoint pool_cap (strict : bool) (cls : list (N * N)) (sz : N) : N :=
  match cls with
  | [] => sz
  | (mb, cap) :: r => if class_test strict sz mb then cap else pool_cap strict r sz
  end.
Definition new_message_cap (p : pool) (sz : N) : N := pool_cap (p_strict p) (p_classes p) sz.

(* every class hands out at least what its test admits *)
Definition pool_ok (p : pool) : bool := forallb (fun c => fst c <=? snd c) (p_classes p).

Definition std_pool : pool :=
  {| p_classes := map (fun c => (c, c)) [64; 128; 256; 512; 1024; 4096; 8192; 65536]; p_strict := true |}.

(* ---------------------------------------------------------------- framing ---- *)
Definition frame (ipc : bool) (hdr body : bytes) : bytes :=
  (if ipc then [x01] else []) ++ be_enc 8 (blen hdr + blen body) ++ hdr ++ body.

Inductive pstatus :=
| AtBoundary            (* stream ended between messages: peer closed *)
| Truncated             (* stream ended inside a length or a body: read error, pipe closed *)
| TooLong               (* negative length or above the limit: pipe closed without reading the body *)
| Crash                 (* slice bounds out of range: would panic *)
| OutOfFuel.

Record presult := { delivered : list bytes; status : pstatus; allocs : list N (* capacity allocated per frame *) }.

Definition add_delivered (m : bytes) (cap : N) (r : presult) : presult :=
  {| delivered := m :: delivered r; status := status r; allocs := cap :: allocs r |}.
Definition stop (s : pstatus) : presult := {| delivered := []; status := s; allocs := [] |}.

(* conn.Recv / connipc.Recv in a loop, as core's pipe does until the first error.
   maxrx = 0 means no limit.  The IPC prefix byte is read and NOT checked (as the code). *)
Fixpoint parse (fuel : nat) (p : pool) (ipc : bool) (maxrx : N) (s : bytes) : presult :=
  match fuel with
  | O => stop OutOfFuel
  | S f =>
    match s with
    | [] => stop AtBoundary
    | _ =>
      let s1 := if ipc then tl s else s in
      match take_exact 8 s1 with
      | None => stop Truncated
      | Some (lb, rest) =>
        let v := be_dec lb in
        if (2 ^ 63 <=? v) || ((0 <? maxrx) && (maxrx <? v)) then stop TooLong
        else
          let cap := new_message_cap p v in
          if cap <? v then stop Crash
          else match take_exact (N.to_nat v) rest with
               | None => {| delivered := []; status := Truncated; allocs := [cap] |}
               | Some (m, rest') => add_delivered m cap (parse f p ipc maxrx rest')
               end
      end
    end
  end.

Definition parse_stream (p : pool) (ipc : bool) (maxrx : N) (s : bytes) : presult :=
  parse (S (length s)) p ipc maxrx s.

(* ---------------------------------------------------------------- handshake ---- *)
Definition hs_header (proto : N) : bytes := [x00; x53; x50; x00] ++ be_enc 2 proto ++ [x00; x00].

Inductive hs_result := HsOk | HsShort | HsBadHeader | HsBadVersion | HsBadProto.

(* conn.handshake's checks, in the code's order: Zero/S/P/Reserved, then Version, then Proto *)
Definition hs_check (expect : N) (b : bytes) : hs_result :=
  match b with
  | [z; s; p; v; p1; p0; r1; r0] =>
    if negb (b2n z =? 0) || negb (b2n s =? 83) || negb (b2n p =? 80) || negb (be_dec [r1; r0] =? 0) then HsBadHeader
    else if negb (b2n v =? 0) then HsBadVersion
    else if negb (be_dec [p1; p0] =? expect) then HsBadProto
    else HsOk
  | _ => HsShort
  end.

(* ---------------------------------------------------------------- websocket / inproc ---- *)
Definition ws_payload (hdr body : bytes) : bytes := hdr ++ body.          (* one binary message *)
Definition ws_suffix : bytes := list_byte_of_string ".sp.nanomsg.org".
Definition ws_subprotocol (peername : bytes) : bytes := peername ++ ws_suffix.
Definition inproc_deliver (hdr body : bytes) : bytes := hdr ++ body.      (* a fresh copy, header folded in *)

(* what a receiving pipe hands to the protocol for a sequence of sent (hdr, body) pairs, per transport *)
Inductive transport := TInproc | TTcp | TIpc | TTls | TWs | TWss.
Definition is_stream (t : transport) : bool := match t with TTcp | TIpc | TTls => true | _ => false end.
Definition is_ipc (t : transport) : bool := match t with TIpc => true | _ => false end.

Fixpoint ws_deliver (maxrx : N) (msgs : list (bytes * bytes)) : list bytes :=
  match msgs with
  | [] => []
  | (h, b) :: r =>
    let m := ws_payload h b in
    if (0 <? maxrx) && (maxrx <? blen m) then [] else m :: ws_deliver maxrx r
  end.

Definition wire_of (t : transport) (msgs : list (bytes * bytes)) : bytes :=
  concat (map (fun hb => frame (is_ipc t) (fst hb) (snd hb)) msgs).

Definition transport_deliver (t : transport) (maxrx : N) (msgs : list (bytes * bytes)) : list bytes :=
  match t with
  | TInproc => map (fun hb => inproc_deliver (fst hb) (snd hb)) msgs
  | TWs | TWss => ws_deliver maxrx msgs
  | _ => delivered (parse_stream std_pool (is_ipc t) maxrx (wire_of t msgs))
  end.
