(* Lock-discipline skeletons (regenerated from the Go source by harness/cmd/go2race) and the must-hold
   analysis evaluated on them: which mutex classes are certainly held at every struct-field access.
   No proofs here. *)
From Coq Require Export String.
From Coq Require Export List NArith Bool.
Export ListNotations.
Open Scope N_scope.

Inductive rinstr :=
| RLock (c : N) | RUnlock (c : N) | RDeferUnlock (c : N)
| RAccess (w : bool) (f : N)
| RCall (g : N)            (* synchronous call of function number g of the program *)
| RGo (g : N).             (* g runs in another goroutine (go statement, timer callback) *)

Record rblock := { rbody : list rinstr; rsuccs : list nat; rreturns : bool }.
Record rfunc := { rname : string; rroot : bool; rctor : bool; rblocks : list rblock }.

Definition cset := list N.          (* set of mutex classes *)
Fixpoint cmem (c : N) (h : cset) : bool := match h with [] => false | x :: r => (x =? c) || cmem c r end.
Definition cadd (c : N) (h : cset) : cset := if cmem c h then h else c :: h.
Fixpoint cdel (c : N) (h : cset) : cset := match h with [] => [] | x :: r => if x =? c then cdel c r else x :: cdel c r end.
Definition cinter (a b : cset) : cset := filter (fun c => cmem c b) a.
Definition csub (a b : cset) : bool := forallb (fun c => cmem c b) a.

Definition rtransfer (h : cset) (i : rinstr) : cset :=
  match i with
  | RLock c => cadd c h
  | RUnlock c => cdel c h
  | _ => h
  end.
Definition rtransfer_body (h : cset) (b : list rinstr) : cset := fold_left rtransfer b h.

(* abstract state per block: None = not reached yet (top) *)
Definition rassign := list (option cset).

Definition meet (a : option cset) (h : cset) : option cset :=
  match a with None => Some h | Some x => Some (cinter x h) end.

Fixpoint set_meet (A : rassign) (n : nat) (h : cset) : rassign :=
  match A, n with
  | [], _ => []
  | x :: r, O => meet x h :: r
  | x :: r, S n' => x :: set_meet r n' h
  end.

Definition rprop_block (f : rfunc) (A : rassign) (i : nat) : rassign :=
  match nth_error A i, nth_error (rblocks f) i with
  | Some (Some h), Some b => fold_left (fun A' n => set_meet A' n (rtransfer_body h (rbody b))) (rsuccs b) A
  | _, _ => A
  end.
Definition rsweep (f : rfunc) (A : rassign) : rassign := fold_left (rprop_block f) (seq 0 (length (rblocks f))) A.
Fixpoint riter {X} (n : nat) (g : X -> X) (x : X) : X := match n with O => x | S n' => riter n' g (g x) end.

Definition rcompute (f : rfunc) (entry : cset) : rassign :=
  riter (2 * length (rblocks f) + 4) (rsweep f)
        (match rblocks f with [] => [] | _ :: r => Some entry :: map (fun _ => None) r end).

(* certificate check: the assignment is a post-fixpoint of the transfer functions *)
Definition rblock_ok (f : rfunc) (A : rassign) (i : nat) : bool :=
  match nth_error A i, nth_error (rblocks f) i with
  | Some (Some h), Some b =>
    let o := rtransfer_body h (rbody b) in
    forallb (fun n => match nth_error A n with Some (Some t) => csub t o | _ => false end) (rsuccs b)
  | Some None, Some _ => true
  | _, _ => false
  end.
Definition rcert_ok (f : rfunc) (entry : cset) (A : rassign) : bool :=
  Nat.eqb (length A) (length (rblocks f)) &&
  match nth_error A 0 with Some (Some h) => csub h entry | _ => match rblocks f with [] => true | _ => false end end &&
  forallb (rblock_ok f A) (seq 0 (length (rblocks f))).

(* events of one function under an assignment: accesses and call sites with the classes certainly held *)
Inductive site := SAccess (fn : N) (w : bool) (f : N) (held : cset) | SCallSite (fn g : N) (held : cset) | SGoSite (fn g : N).

Fixpoint body_sites (fn : N) (h : cset) (b : list rinstr) : list site :=
  match b with
  | [] => []
  | i :: r =>
    (match i with
     | RAccess w f => [SAccess fn w f h]
     | RCall g => [SCallSite fn g h]
     | RGo g => [SGoSite fn g]
     | _ => []
     end) ++ body_sites fn (rtransfer h i) r
  end.

Definition func_sites (fn : N) (f : rfunc) (A : rassign) : list site :=
  flat_map (fun i => match nth_error A i, nth_error (rblocks f) i with
                     | Some (Some h), Some b => body_sites fn h (rbody b)
                     | _, _ => [] end) (seq 0 (length (rblocks f))).

(* ---- whole program ---- *)
Definition entries := list (option cset).      (* None = top (no call site seen yet) *)

Definition all_classes (n : N) : cset := map N.of_nat (seq 0 (N.to_nat n)).

Definition entry_of (top : cset) (E : entries) (g : N) : cset :=
  match nth_error E (N.to_nat g) with Some (Some h) => h | _ => top end.

Definition analyse (top : cset) (prog : list rfunc) (E : entries) : list site :=
  flat_map (fun x => let '(i, f) := x in
                     let e := entry_of top E (N.of_nat i) in
                     func_sites (N.of_nat i) f (rcompute f e))
           (combine (seq 0 (length prog)) prog).

(* has the function a static call site? *)
Definition called (sites : list site) (g : N) : bool :=
  existsb (fun s => match s with SCallSite _ g' _ => g' =? g | _ => false end) sites.

Definition refine_entries (top : cset) (prog : list rfunc) (E : entries) : entries :=
  let sites := analyse top prog E in
  map (fun x => let '(i, f) := x in
                let g := N.of_nat i in
                if rroot f || negb (called sites g) then Some []
                else Some (fold_left (fun acc s => match s with
                                                   | SCallSite _ g' h => if g' =? g then cinter acc h else acc
                                                   | _ => acc end) sites top))
      (combine (seq 0 (length prog)) prog).

Definition infer_entries (top : cset) (prog : list rfunc) : entries :=
  riter 8 (refine_entries top prog) (map (fun f => if rroot f then Some [] else None) prog).

(* final verification of the interprocedural assumptions *)
Definition program_ok (top : cset) (prog : list rfunc) (E : entries) : bool :=
  Nat.eqb (length E) (length prog) &&
  forallb (fun x => let '(i, f) := x in
                    let e := entry_of top E (N.of_nat i) in
                    (if rroot f then match e with [] => true | _ => false end else true) &&
                    rcert_ok f e (rcompute f e))
          (combine (seq 0 (length prog)) prog) &&
  forallb (fun s => match s with
                    | SCallSite _ g h => csub (entry_of top E g) h
                    | SGoSite _ g => match entry_of top E g with [] => true | _ => false end
                    | SAccess _ _ _ _ => true end)
          (analyse top prog E).

(* ---- the discipline: every field that is written outside constructors has a common guard ---- *)
Definition is_ctor (prog : list rfunc) (fn : N) : bool :=
  match nth_error prog (N.to_nat fn) with Some f => rctor f | None => false end.

Definition field_accesses (prog : list rfunc) (sites : list site) (f : N) : list (N * bool * cset) :=
  flat_map (fun s => match s with
                     | SAccess fn w f' h => if (f' =? f) && negb (is_ctor prog fn) then [(fn, w, h)] else []
                     | _ => [] end) sites.

Definition field_guard (top : cset) (acc : list (N * bool * cset)) : cset :=
  fold_left (fun g a => cinter g (snd a)) acc top.

Definition field_ok (top : cset) (prog : list rfunc) (sites : list site) (exempt : list N) (f : N) : bool :=
  let acc := field_accesses prog sites f in
  existsb (N.eqb f) exempt
  || negb (existsb (fun a => snd (fst a)) acc)          (* never written after construction: immutable *)
  || match field_guard top acc with [] => false | _ => true end.

Definition guarded_ok (nclasses nfields : N) (prog : list rfunc) (exempt : list N) : bool :=
  let top := all_classes nclasses in
  let E := infer_entries top prog in
  program_ok top prog E &&
  forallb (field_ok top prog (analyse top prog E) exempt) (map N.of_nat (seq 0 (N.to_nat nfields))).

(* diagnostics: for each failing field, the accesses that do not hold the guard the other accesses share *)
Definition majority_guard (top : cset) (acc : list (N * bool * cset)) : option N :=
  let cands := nodup N.eq_dec (flat_map (fun a => snd a) acc) in
  let score c := length (filter (fun a => cmem c (snd a)) acc) in
  fold_left (fun best c => match best with
                           | None => Some c
                           | Some b => if Nat.ltb (score b) (score c) then Some c else Some b end) cands None.

Definition failing_fields (nclasses nfields : N) (prog : list rfunc) (exempt : list N) : list (N * option N * list (N * bool)) :=
  let top := all_classes nclasses in
  let E := infer_entries top prog in
  let sites := analyse top prog E in
  flat_map (fun f => if field_ok top prog sites exempt f then []
                     else let acc := field_accesses prog sites f in
                          let g := majority_guard top acc in
                          [(f, g, map (fun a => (fst (fst a), snd (fst a)))
                                      (filter (fun a => match g with Some c => negb (cmem c (snd a)) | None => true end) acc))])
           (map N.of_nat (seq 0 (N.to_nat nfields))).

(* lock-order edges: class b acquired while class a is certainly held *)
Fixpoint body_edges (h : cset) (b : list rinstr) : list (N * N) :=
  match b with
  | [] => []
  | i :: r => (match i with RLock c => map (fun a => (a, c)) (filter (fun a => negb (a =? c)) h) | _ => [] end)
              ++ body_edges (rtransfer h i) r
  end.
