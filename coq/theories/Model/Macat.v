(* Executable model of macat's output formats, duration parsing, option validation and send loop.
   Mirrors /repo/macat/macat.go: printMsg, Duration.UnmarshalText, App.Run (validation part), sendLoop.
   No proofs in this file. *)
From MV Require Export Lib.Bytes.
Open Scope N_scope.

(* strconv.IsPrint(rune(b)) for b < 256: ASCII 0x20..0x7e, and Latin-1 0xa1..0xff except the soft hyphen 0xad. *)
Definition isprint (b : byte) : bool :=
  let n := b2n b in
  ((32 <=? n) && (n <=? 126)) || ((161 <=? n) && negb (n =? 173)).

Definition fmt_raw (body : bytes) : bytes := body.

Definition ascii_byte (b : byte) : byte := if isprint b then b else "."%byte.
Definition fmt_ascii (body : bytes) : bytes := map ascii_byte body ++ [x0a].

Definition quote_byte (b : byte) : bytes :=
  match b with
  | x0a => ["\"%byte; "n"%byte]
  | x0d => ["\"%byte; "r"%byte]
  | x5c => ["\"%byte; "\"%byte]
  | x22 => ["\"%byte; x22]
  | _ => if isprint b then [b]
         else ["\"%byte; "x"%byte; hexdigit (b2n b / 16); hexdigit (b2n b mod 16)]
  end.
Definition fmt_quoted (body : bytes) : bytes := flat_map quote_byte body ++ [x0a].

Definition msgpack_hdr (n : N) : bytes :=
  if n <? 256 then [xc4; n2b n]
  else if n <? 65536 then xc5 :: be_enc 2 n
  else xc6 :: be_enc 4 (n mod 2 ^ 32).
Definition fmt_msgpack (body : bytes) : bytes := msgpack_hdr (blen body) ++ body.

Inductive format := FNo | FRaw | FAscii | FQuoted | FMsgpack.
Definition fmt (f : format) (body : bytes) : bytes :=
  match f with
  | FNo => [] | FRaw => fmt_raw body | FAscii => fmt_ascii body
  | FQuoted => fmt_quoted body | FMsgpack => fmt_msgpack body
  end.

(* ---- independent decoders (what a reader of macat's output does) ---- *)

(* one line of quoted output (without the newline) back to bytes; None on a malformed escape *)
Fixpoint dec_quoted (l : bytes) : option bytes :=
  match l with
  | [] => Some []
  | x5c :: r =>
    match r with
    | x6e :: r' => option_map (cons x0a) (dec_quoted r')
    | x72 :: r' => option_map (cons x0d) (dec_quoted r')
    | x5c :: r' => option_map (cons x5c) (dec_quoted r')
    | x22 :: r' => option_map (cons x22) (dec_quoted r')
    | x78 :: h :: l' :: r' =>
      match hexval h, hexval l' with
      | Some a, Some b => option_map (cons (n2b (16 * a + b))) (dec_quoted r')
      | _, _ => None
      end
    | _ => None
    end
  | b :: r => option_map (cons b) (dec_quoted r)
  end.

(* split a stream at newline bytes: every record is terminated by one x0a *)
Fixpoint split_lines_acc (acc : bytes) (l : bytes) : list bytes :=
  match l with
  | [] => []     (* an unterminated tail is not a record *)
  | x0a :: r => rev acc :: split_lines_acc [] r
  | b :: r => split_lines_acc (b :: acc) r
  end.
Definition split_lines := split_lines_acc [].

(* msgpack bin stream reader; fuel = number of objects at most *)
Definition dec_msgpack_one (l : bytes) : option (bytes * bytes) :=
  match l with
  | xc4 :: a :: r => take_exact (N.to_nat (b2n a)) r
  | xc5 :: a :: b :: r => take_exact (N.to_nat (be_dec [a; b])) r
  | xc6 :: a :: b :: c :: d :: r => take_exact (N.to_nat (be_dec [a; b; c; d])) r
  | _ => None
  end.

Fixpoint dec_msgpack_stream (fuel : nat) (l : bytes) : option (list bytes) :=
  match l with
  | [] => Some []
  | _ =>
    match fuel with
    | O => None
    | S f =>
      match dec_msgpack_one l with
      | Some (m, r) => option_map (cons m) (dec_msgpack_stream f r)
      | None => None
      end
    end
  end.

(* ---- Duration.UnmarshalText, bare-integer branch ---- *)
(* strconv.Atoi: optional sign, then one or more decimal digits; value must fit int64. *)
Definition digit (b : byte) : option Z :=
  let n := b2n b in if (48 <=? n) && (n <=? 57) then Some (Z.of_N (n - 48)) else None.
Fixpoint digits_acc (acc : Z) (l : bytes) : option Z :=
  match l with
  | [] => Some acc
  | b :: r => match digit b with Some d => digits_acc (acc * 10 + d) r | None => None end
  end.
Definition split_sign (l : bytes) : bool * bytes :=
  match l with
  | x2d :: r => (true, r)
  | x2b :: r => (false, r)
  | _ => (false, l)
  end.
Definition atoi (l : bytes) : option Z :=
  let '(neg, ds) := split_sign l in
  match ds with
  | [] => None
  | _ => match digits_acc 0 ds with
         | Some v => let v' := if neg then (- v)%Z else v in
                     if ((- 2 ^ 63 <=? v') && (v' <? 2 ^ 63))%Z then Some v' else None
         | None => None
         end
  end.
Definition wrap64 (z : Z) : Z := ((z + 2 ^ 63) mod 2 ^ 64 - 2 ^ 63)%Z.
Inductive dur_result := DurNanos (ns : Z) | DurNotBare.
Definition unmarshal_duration (l : bytes) : dur_result :=
  match atoi l with
  | Some v => DurNanos (wrap64 (v * 1000000000))
  | None => DurNotBare      (* falls through to time.ParseDuration, not modelled *)
  end.

(* ---- option validation of App.Run, as a decision over the option events in command-line order ---- *)
Inductive proto := PPush | PPull | PPub | PSub | PReq | PRep | PSurveyor | PRespondent | PBus | PPair | PStar.
Inductive optev :=
| OProto (p : proto)
| OAddr (ok : bool)          (* --bind/--connect ADDR; ok = contains "://" ; -L/-X style always ok *)
| OSub
| OFormat (valid : bool)     (* a format flag or --format F ; valid = F is one of no/raw/ascii/quoted/msgpack *)
| OData | OFile (readable : bool)
| OOther.                    (* verbosity, timeouts, count ... never conflicting *)

Inductive verdict :=
| VErrProtoTwice | VErrAddrFormat | VErrFormatTwice | VErrFormatInvalid | VErrDataTwice | VErrFileRead
| VErrNoProto | VErrNoAddr | VErrSubNotSub
| VRun (p : proto) (has_data : bool).

Record pstate := { ps_proto : option proto; ps_addr : bool; ps_sub : bool; ps_fmt : bool; ps_data : bool }.
Definition ps0 := {| ps_proto := None; ps_addr := false; ps_sub := false; ps_fmt := false; ps_data := false |}.

(* optopia stops at the first handler error *)
Definition parse_step (s : pstate) (e : optev) : pstate + verdict :=
  match e with
  | OProto p => match ps_proto s with
                | Some _ => inr VErrProtoTwice
                | None => inl {| ps_proto := Some p; ps_addr := ps_addr s; ps_sub := ps_sub s; ps_fmt := ps_fmt s; ps_data := ps_data s |}
                end
  | OAddr ok => if ok then inl {| ps_proto := ps_proto s; ps_addr := true; ps_sub := ps_sub s; ps_fmt := ps_fmt s; ps_data := ps_data s |}
                else inr VErrAddrFormat
  | OSub => inl {| ps_proto := ps_proto s; ps_addr := ps_addr s; ps_sub := true; ps_fmt := ps_fmt s; ps_data := ps_data s |}
  | OFormat valid => if ps_fmt s then inr VErrFormatTwice
                     else if valid then inl {| ps_proto := ps_proto s; ps_addr := ps_addr s; ps_sub := ps_sub s; ps_fmt := true; ps_data := ps_data s |}
                     else inr VErrFormatInvalid
  | OData => if ps_data s then inr VErrDataTwice
             else inl {| ps_proto := ps_proto s; ps_addr := ps_addr s; ps_sub := ps_sub s; ps_fmt := ps_fmt s; ps_data := true |}
  | OFile readable => if ps_data s then inr VErrDataTwice
                      else if readable then inl {| ps_proto := ps_proto s; ps_addr := ps_addr s; ps_sub := ps_sub s; ps_fmt := ps_fmt s; ps_data := true |}
                      else inr VErrFileRead
  | OOther => inl s
  end.

Fixpoint parse_all (s : pstate) (l : list optev) : pstate + verdict :=
  match l with
  | [] => inl s
  | e :: r => match parse_step s e with inl s' => parse_all s' r | inr v => inr v end
  end.

Definition is_sub (p : proto) : bool := match p with PSub => true | _ => false end.

Definition decide (l : list optev) : verdict :=
  match parse_all ps0 l with
  | inr v => v
  | inl s =>
    match ps_proto s with
    | None => VErrNoProto
    | Some p =>
      if negb (ps_addr s) then VErrNoAddr
      else if negb (is_sub p) && ps_sub s then VErrSubNotSub
      else VRun p (ps_data s)
    end
  end.

(* ---- sendLoop: what is put on the socket for --count n (n >= 0) ---- *)
Definition send_loop (count : nat) (data : bytes) : list bytes := repeat data count.

(* numeric code of a verdict, shared with the harness's classification of App.Run's error *)
Definition verdict_code (v : verdict) : N :=
  match v with
  | VErrProtoTwice => 1 | VErrAddrFormat => 2 | VErrFormatTwice => 3 | VErrFormatInvalid => 4
  | VErrDataTwice => 5 | VErrFileRead => 6 | VErrNoProto => 7 | VErrNoAddr => 8 | VErrSubNotSub => 9
  | VRun _ _ => 100
  end.
