(* REQ protocol (protocol/req/req.go) as a deterministic state machine over the L1 stimuli.
   One step = one stimulus followed by everything the library's goroutines do until quiescence.
   Request ids are modelled as the index of the SendMsg call that created them (the implementation
   uses nextID+index with the top bit set; the harness renames).  No proofs here. *)
From MV Require Export Lib.Proto.
Open Scope N_scope.

Record rctx := {
  c_reqID : N;                        (* 0 = none *)
  c_reqMsg : option (N * bytes);      (* (id in its header, body): transmitted request awaiting its reply *)
  c_repMsg : option (N * bytes);      (* (id it was matched with, payload) *)
  c_sendMsg : option (N * (N * bytes)); (* (thread of the SendMsg call, (id in its header, body)): waiting to be scheduled *)
  c_lastPipe : option N;
  c_queued : bool; c_closed : bool; c_recvWait : bool;
  c_resend : N; c_sendExp : N; c_recvExp : N;        (* milliseconds; 0 = none *)
  c_best : bool; c_fnp : bool;
  c_resendTimer : option N; c_sendTimer : option N; c_recvTimer : option N;   (* ids into `timers` *)
  c_last : N;                         (* ghost: id of the most recent accepted Send on this context *)
}.

Inductive tkind := TkResend (id : N) | TkSend (t : N) | TkRecv (t : N) (id : N).
Record timer := { tm_id : N; tm_ctx : N; tm_kind : tkind; tm_due : N }.

Inductive thread :=
| TSend (t c : N) (expired : bool)
| TRecv (t c id : N) (expired : bool).

Record rpipe := { pp_id : N; pp_closed : bool; pp_hold : bool; pp_inflight : option (N * bytes) (* id, body *) }.

Record rstate := {
  ctxs : list (N * rctx);
  ctxByID : list (N * N);             (* request id -> context *)
  sendQ : list N;
  readyQ : list N;
  pipes : list rpipe;                 (* attached (not yet removed) pipes, plus removed ones kept with closed=true *)
  sclosed : bool;
  nsend : N;                          (* number of SendMsg calls so far = last id issued *)
  threads : list thread;              (* blocked API calls, oldest first *)
  timers : list timer;
  ntimer : N;
  now : N;
  out : list obs;                     (* observations of the current step, newest first *)
  ambig : bool;
  woken : list N;                     (* contexts whose condition variable was broadcast in this step *)
  glog : list (N * N * N * N * N * bytes);  (* ghost: replies handed out: (call, context, matched id, id the call waited for, context's latest Send, payload) *)
  dlog : list (N * bytes);            (* ghost: replies that matched a registered request: (id, payload) *)
}.

(* ---- association helpers (insertion order preserved) ---- *)
Fixpoint aget {V} (k : N) (l : list (N * V)) : option V :=
  match l with [] => None | (k', v) :: r => if k =? k' then Some v else aget k r end.
Fixpoint aset {V} (k : N) (v : V) (l : list (N * V)) : list (N * V) :=
  match l with [] => [(k, v)] | (k', v') :: r => if k =? k' then (k, v) :: r else (k', v') :: aset k v r end.
Fixpoint adel {V} (k : N) (l : list (N * V)) : list (N * V) :=
  match l with [] => [] | (k', v') :: r => if k =? k' then r else (k', v') :: adel k r end.
Definition nremove (x : N) (l : list N) : list N := filter (fun y => negb (y =? x)) l.
Fixpoint nremove1 (x : N) (l : list N) : list N :=
  match l with [] => [] | y :: r => if y =? x then r else y :: nremove1 x r end.

Definition ctx0 (resend : N) : rctx :=
  {| c_reqID := 0; c_reqMsg := None; c_repMsg := None; c_sendMsg := None; c_lastPipe := None;
     c_queued := false; c_closed := false; c_recvWait := false;
     c_resend := resend; c_sendExp := 0; c_recvExp := 0; c_best := false; c_fnp := false;
     c_resendTimer := None; c_sendTimer := None; c_recvTimer := None; c_last := 0 |}.

Definition init : rstate :=
  {| ctxs := [(0, ctx0 60000)]; ctxByID := []; sendQ := []; readyQ := []; pipes := []; sclosed := false;
     nsend := 0; threads := []; timers := []; ntimer := 0; now := 0; out := []; ambig := false; woken := []; glog := []; dlog := [] |}.

(* ---- record updates ---- *)
Definition upd_ctxs (s : rstate) (f : list (N * rctx)) : rstate :=
  {| ctxs := f; ctxByID := ctxByID s; sendQ := sendQ s; readyQ := readyQ s; pipes := pipes s; sclosed := sclosed s;
     nsend := nsend s; threads := threads s; timers := timers s; ntimer := ntimer s; now := now s; out := out s; ambig := ambig s; woken := woken s; glog := glog s; dlog := dlog s |}.
Definition set_ctx (s : rstate) (c : N) (x : rctx) : rstate := upd_ctxs s (aset c x (ctxs s)).
Definition upd_byid (s : rstate) (m : list (N * N)) : rstate :=
  {| ctxs := ctxs s; ctxByID := m; sendQ := sendQ s; readyQ := readyQ s; pipes := pipes s; sclosed := sclosed s;
     nsend := nsend s; threads := threads s; timers := timers s; ntimer := ntimer s; now := now s; out := out s; ambig := ambig s; woken := woken s; glog := glog s; dlog := dlog s |}.
Definition upd_sendQ (s : rstate) (q : list N) : rstate :=
  {| ctxs := ctxs s; ctxByID := ctxByID s; sendQ := q; readyQ := readyQ s; pipes := pipes s; sclosed := sclosed s;
     nsend := nsend s; threads := threads s; timers := timers s; ntimer := ntimer s; now := now s; out := out s; ambig := ambig s; woken := woken s; glog := glog s; dlog := dlog s |}.
Definition upd_readyQ (s : rstate) (q : list N) : rstate :=
  {| ctxs := ctxs s; ctxByID := ctxByID s; sendQ := sendQ s; readyQ := q; pipes := pipes s; sclosed := sclosed s;
     nsend := nsend s; threads := threads s; timers := timers s; ntimer := ntimer s; now := now s; out := out s; ambig := ambig s; woken := woken s; glog := glog s; dlog := dlog s |}.
Definition upd_pipes (s : rstate) (p : list rpipe) : rstate :=
  {| ctxs := ctxs s; ctxByID := ctxByID s; sendQ := sendQ s; readyQ := readyQ s; pipes := p; sclosed := sclosed s;
     nsend := nsend s; threads := threads s; timers := timers s; ntimer := ntimer s; now := now s; out := out s; ambig := ambig s; woken := woken s; glog := glog s; dlog := dlog s |}.
Definition upd_threads (s : rstate) (t : list thread) : rstate :=
  {| ctxs := ctxs s; ctxByID := ctxByID s; sendQ := sendQ s; readyQ := readyQ s; pipes := pipes s; sclosed := sclosed s;
     nsend := nsend s; threads := t; timers := timers s; ntimer := ntimer s; now := now s; out := out s; ambig := ambig s; woken := woken s; glog := glog s; dlog := dlog s |}.
Definition upd_timers (s : rstate) (t : list timer) (n : N) : rstate :=
  {| ctxs := ctxs s; ctxByID := ctxByID s; sendQ := sendQ s; readyQ := readyQ s; pipes := pipes s; sclosed := sclosed s;
     nsend := nsend s; threads := threads s; timers := t; ntimer := n; now := now s; out := out s; ambig := ambig s; woken := woken s; glog := glog s; dlog := dlog s |}.
Definition emit (s : rstate) (o : obs) : rstate :=
  {| ctxs := ctxs s; ctxByID := ctxByID s; sendQ := sendQ s; readyQ := readyQ s; pipes := pipes s; sclosed := sclosed s;
     nsend := nsend s; threads := threads s; timers := timers s; ntimer := ntimer s; now := now s; out := o :: out s; ambig := ambig s; woken := woken s; glog := glog s; dlog := dlog s |}.
Definition set_misc (s : rstate) (closed : bool) (ns nw : N) (amb : bool) : rstate :=
  {| ctxs := ctxs s; ctxByID := ctxByID s; sendQ := sendQ s; readyQ := readyQ s; pipes := pipes s; sclosed := closed;
     nsend := ns; threads := threads s; timers := timers s; ntimer := ntimer s; now := nw; out := out s; ambig := amb; woken := woken s; glog := glog s; dlog := dlog s |}.
Definition wake (s : rstate) (c : N) : rstate :=
  {| ctxs := ctxs s; ctxByID := ctxByID s; sendQ := sendQ s; readyQ := readyQ s; pipes := pipes s; sclosed := sclosed s;
     nsend := nsend s; threads := threads s; timers := timers s; ntimer := ntimer s; now := now s; out := out s; ambig := ambig s;
     woken := c :: woken s; glog := glog s; dlog := dlog s |}.
(* a call that has just reached its wait loop evaluates the condition once without being signalled *)
Definition fresh_key (t : N) : N := 2 ^ 40 + t.
Definition log_reply (s : rstate) (e : N * N * N * N * N * bytes) : rstate :=
  {| ctxs := ctxs s; ctxByID := ctxByID s; sendQ := sendQ s; readyQ := readyQ s; pipes := pipes s; sclosed := sclosed s;
     nsend := nsend s; threads := threads s; timers := timers s; ntimer := ntimer s; now := now s; out := out s; ambig := ambig s;
     woken := woken s; glog := e :: glog s; dlog := dlog s |}.
Definition log_match (s : rstate) (e : N * bytes) : rstate :=
  {| ctxs := ctxs s; ctxByID := ctxByID s; sendQ := sendQ s; readyQ := readyQ s; pipes := pipes s; sclosed := sclosed s;
     nsend := nsend s; threads := threads s; timers := timers s; ntimer := ntimer s; now := now s; out := out s; ambig := ambig s;
     woken := woken s; glog := glog s; dlog := e :: dlog s |}.
Definition clear_out (s : rstate) : rstate :=
  {| ctxs := ctxs s; ctxByID := ctxByID s; sendQ := sendQ s; readyQ := readyQ s; pipes := pipes s; sclosed := sclosed s;
     nsend := nsend s; threads := threads s; timers := timers s; ntimer := ntimer s; now := now s; out := []; ambig := ambig s; woken := []; glog := glog s; dlog := dlog s |}.

Definition with_ctx (x : rctx) reqID reqMsg repMsg sendMsg lastPipe queued : rctx :=
  {| c_reqID := reqID; c_reqMsg := reqMsg; c_repMsg := repMsg; c_sendMsg := sendMsg; c_lastPipe := lastPipe;
     c_queued := queued; c_closed := c_closed x; c_recvWait := c_recvWait x;
     c_resend := c_resend x; c_sendExp := c_sendExp x; c_recvExp := c_recvExp x; c_best := c_best x; c_fnp := c_fnp x;
     c_resendTimer := c_resendTimer x; c_sendTimer := c_sendTimer x; c_recvTimer := c_recvTimer x; c_last := c_last x |}.
Definition with_flags (x : rctx) closed recvWait : rctx :=
  {| c_reqID := c_reqID x; c_reqMsg := c_reqMsg x; c_repMsg := c_repMsg x; c_sendMsg := c_sendMsg x; c_lastPipe := c_lastPipe x;
     c_queued := c_queued x; c_closed := closed; c_recvWait := recvWait;
     c_resend := c_resend x; c_sendExp := c_sendExp x; c_recvExp := c_recvExp x; c_best := c_best x; c_fnp := c_fnp x;
     c_resendTimer := c_resendTimer x; c_sendTimer := c_sendTimer x; c_recvTimer := c_recvTimer x; c_last := c_last x |}.
Definition with_opts (x : rctx) resend sendExp recvExp best fnp : rctx :=
  {| c_reqID := c_reqID x; c_reqMsg := c_reqMsg x; c_repMsg := c_repMsg x; c_sendMsg := c_sendMsg x; c_lastPipe := c_lastPipe x;
     c_queued := c_queued x; c_closed := c_closed x; c_recvWait := c_recvWait x;
     c_resend := resend; c_sendExp := sendExp; c_recvExp := recvExp; c_best := best; c_fnp := fnp;
     c_resendTimer := c_resendTimer x; c_sendTimer := c_sendTimer x; c_recvTimer := c_recvTimer x; c_last := c_last x |}.
Definition with_last (x : rctx) (n : N) : rctx :=
  {| c_reqID := c_reqID x; c_reqMsg := c_reqMsg x; c_repMsg := c_repMsg x; c_sendMsg := c_sendMsg x; c_lastPipe := c_lastPipe x;
     c_queued := c_queued x; c_closed := c_closed x; c_recvWait := c_recvWait x;
     c_resend := c_resend x; c_sendExp := c_sendExp x; c_recvExp := c_recvExp x; c_best := c_best x; c_fnp := c_fnp x;
     c_resendTimer := c_resendTimer x; c_sendTimer := c_sendTimer x; c_recvTimer := c_recvTimer x; c_last := n |}.
Definition with_timers (x : rctx) rt st rc : rctx :=
  {| c_reqID := c_reqID x; c_reqMsg := c_reqMsg x; c_repMsg := c_repMsg x; c_sendMsg := c_sendMsg x; c_lastPipe := c_lastPipe x;
     c_queued := c_queued x; c_closed := c_closed x; c_recvWait := c_recvWait x;
     c_resend := c_resend x; c_sendExp := c_sendExp x; c_recvExp := c_recvExp x; c_best := c_best x; c_fnp := c_fnp x;
     c_resendTimer := rt; c_sendTimer := st; c_recvTimer := rc; c_last := c_last x |}.

(* ---- timers ---- *)
Definition stop_timer (s : rstate) (o : option N) : rstate :=
  match o with
  | None => s
  | Some i => upd_timers s (filter (fun t => negb (tm_id t =? i)) (timers s)) (ntimer s)
  end.
Definition arm (s : rstate) (c : N) (k : tkind) (ms : N) : rstate * N :=
  let i := ntimer s + 1 in
  (upd_timers s (timers s ++ [{| tm_id := i; tm_ctx := c; tm_kind := k; tm_due := now s + ms |}]) i, i).

Definition live_pipes (s : rstate) : list rpipe := filter (fun p => negb (pp_closed p)) (pipes s).
Definition no_pipes (s : rstate) : bool := match live_pipes s with [] => true | _ => false end.
Definition get_pipe (s : rstate) (p : N) : option rpipe := find (fun x => pp_id x =? p) (pipes s).
Definition set_pipe (s : rstate) (x : rpipe) : rstate :=
  upd_pipes s (map (fun y => if pp_id y =? pp_id x then x else y) (pipes s)).

Definition req_hdr (id : N) : bytes := be_enc 4 (2 ^ 31 + id).

(* ---- c.cancelSend / c.cancel ---- *)
Definition cancel_send (s : rstate) (c : N) : rstate :=
  match aget c (ctxs s) with
  | None => s
  | Some x =>
    if c_queued x then
      upd_sendQ (set_ctx s c (with_ctx x (c_reqID x) (c_reqMsg x) (c_repMsg x) (c_sendMsg x) (c_lastPipe x) false))
                (nremove1 c (sendQ s))
    else s
  end.

Definition cancel (s : rstate) (c : N) : rstate :=
  let s := cancel_send s c in
  match aget c (ctxs s) with
  | None => s
  | Some x =>
    let s := if negb (c_reqID x =? 0) then upd_byid s (adel (c_reqID x) (ctxByID s)) else s in
    let s := stop_timer (stop_timer (stop_timer s (c_resendTimer x)) (c_sendTimer x)) (c_recvTimer x) in
    wake (set_ctx s c (with_timers (with_ctx x 0 None None (c_sendMsg x) (c_lastPipe x) (c_queued x)) None None None)) c
  end.

(* ---- s.send(): while sendQ and readyQ are both non-empty ---- *)
(* the context record after being scheduled on pipe p (the first transmission moves sendMsg to reqMsg) *)
Definition sched_ctx (x : rctx) (p : N) : rctx :=
  let x1 := match c_sendMsg x with
            | Some (_, m) => with_ctx x (c_reqID x) (Some m) (c_repMsg x) None (c_lastPipe x) false
            | None => with_ctx x (c_reqID x) (c_reqMsg x) (c_repMsg x) None (c_lastPipe x) false
            end in
  with_ctx x1 (c_reqID x1) (c_reqMsg x1) (c_repMsg x1) (c_sendMsg x1) (Some p) (c_queued x1).

(* one iteration of the loop in s.send(): context c (record x) is handed to pipe p (record pp) *)
Definition send_one (s : rstate) (c p : N) (x : rctx) (pp : rpipe) (sq rq : list N) : rstate :=
  let s := upd_readyQ (upd_sendQ s sq) rq in
  (* register the id on first transmission (c.cond.Broadcast) *)
  let s := match c_sendMsg x with
           | Some _ => wake (upd_byid s (aset (c_reqID x) c (ctxByID s))) c
           | None => s end in
  let x := sched_ctx x p in
  let '(mid, body) := match c_reqMsg x with Some m => m | None => (0, []) end in
  let '(s, x) :=
    if 0 <? c_resend x then
      let '(s, i) := arm s c (TkResend (c_reqID x)) (c_resend x) in
      (s, with_timers x (Some i) (c_sendTimer x) (c_recvTimer x))
    else (s, x) in
  (* go p.sendCtx: the message is written to the pipe *)
  let s := emit (set_ctx s c x) (OTx p (req_hdr mid) body) in
  if pp_hold pp then
    set_pipe s {| pp_id := p; pp_closed := pp_closed pp; pp_hold := true; pp_inflight := Some (mid, body) |}
  else
    (* completes at once: the pipe becomes ready again *)
    upd_readyQ s (readyQ s ++ [p]).

Fixpoint do_send (fuel : nat) (s : rstate) : rstate :=
  match fuel with
  | O => s
  | S f =>
    match sendQ s, readyQ s with
    | c :: sq, p :: rq =>
      match aget c (ctxs s), get_pipe s p with
      | Some x, Some pp => do_send f (send_one s c p x pp sq rq)
      | _, _ => s
      end
    | _, _ => s
    end
  end.
Definition send_all (s : rstate) : rstate := do_send (S (length (sendQ s)) * 4) s.

(* ---- c.resendMessage(id) ---- *)
Definition resend_message (s : rstate) (c id : N) : rstate :=
  match aget c (ctxs s) with
  | Some x =>
    if (c_reqID x =? id) && (match c_reqMsg x with Some _ => true | None => false end) && negb (c_queued x) then
      send_all (upd_sendQ (set_ctx s c (with_ctx x (c_reqID x) (c_reqMsg x) (c_repMsg x) (c_sendMsg x) (c_lastPipe x) true))
                          (sendQ s ++ [c]))
    else s
  | None => s
  end.

(* ---- blocked threads: re-evaluate wait conditions until nothing changes ---- *)
Definition send_waits (s : rstate) (t c : N) (expired : bool) : bool :=
  match aget c (ctxs s) with
  | Some x =>
    (match c_sendMsg x with Some (t', _) => t' =? t | None => false end)
    && c_queued x    (* repaired SendMsg: no longer queued with the message still ours = canceled by a Recv timeout *)
    && negb expired && negb (c_closed x) && negb (c_fnp x && no_pipes s)
  | None => false
  end.
Definition recv_waits (s : rstate) (c id : N) : bool :=
  match aget c (ctxs s) with
  | Some x => (c_reqID x =? id) && (match c_repMsg x with None => true | Some _ => false end)
  | None => false
  end.

(* code after the wait loop of SendMsg *)
Definition send_finish (s : rstate) (t c : N) (expired : bool) : rstate :=
  match aget c (ctxs s) with
  | Some x =>
    if (match c_sendMsg x with Some (t', _) => t' =? t | None => false end) then
      let s := cancel_send s c in
      match aget c (ctxs s) with
      | Some x =>
        let s := set_ctx s c (with_ctx x 0 (c_reqMsg x) (c_repMsg x) None (c_lastPipe x) (c_queued x)) in
        emit s (ORet t (RErr (if c_closed x then EClosed else if c_fnp x && no_pipes s then ENoPeers
                              else if expired then ESendTimeout else ECanceled)))
      | None => s
      end
    else emit s (ORet t ROk)
  | None => s
  end.

(* code after the wait loop of RecvMsg.  [fixed] = the repaired code only consumes the reply and clears
   the request when it still is the request this call waited for; the original code did so always. *)
Definition recv_finish (fixed : bool) (s : rstate) (t c id : N) (expired : bool) : rstate :=
  match aget c (ctxs s) with
  | Some x =>
    let mine := c_reqID x =? id in
    let m := if fixed && negb mine then None else c_repMsg x in
    let x' := if fixed && negb mine then with_flags x (c_closed x) false
              else with_flags (with_ctx x 0 (c_reqMsg x) None (c_sendMsg x) (c_lastPipe x) (c_queued x)) (c_closed x) false in
    let s := wake (set_ctx s c x') c in
    match m with
    | Some (i, b) => emit (log_reply s (t, c, i, id, c_last x, b)) (ORet t (RMsg [] b))
    | None => emit s (ORet t (RErr (if c_closed x then EClosed else if expired then ERecvTimeout
                                     else if c_fnp x && no_pipes s then ENoPeers else ECanceled)))
    end
  | None => s
  end.

(* a blocked call stays blocked unless its condition variable was signalled (or it has just started) and its wait
   condition is false *)
Definition thread_waits (s : rstate) (th : thread) : bool :=
  match th with
  | TSend t c e => negb (existsb (N.eqb c) (woken s) || existsb (N.eqb (fresh_key t)) (woken s)) || send_waits s t c e
  | TRecv t c id e => negb (existsb (N.eqb c) (woken s) || existsb (N.eqb (fresh_key t)) (woken s)) || recv_waits s c id
  end.
Fixpoint pick_thread (s : rstate) (pre post : list thread) : option (thread * list thread) :=
  match post with
  | [] => None
  | th :: r => if thread_waits s th then pick_thread s (pre ++ [th]) r else Some (th, pre ++ r)
  end.

Fixpoint settle (fixed : bool) (fuel : nat) (s : rstate) : rstate :=
  match fuel with
  | O => s
  | S f =>
    match pick_thread s [] (threads s) with
    | None => s
    | Some (TSend t c e, rest) => settle fixed f (send_finish (upd_threads s rest) t c e)
    | Some (TRecv t c id e, rest) => settle fixed f (recv_finish fixed (upd_threads s rest) t c id e)
    end
  end.

Definition mark_expired (s : rstate) (t : N) : rstate :=
  upd_threads s (map (fun th => match th with
                                | TSend t' c _ => if t' =? t then TSend t' c true else th
                                | TRecv t' c id _ => if t' =? t then TRecv t' c id true else th
                                end) (threads s)).

(* ---- timer callbacks ---- *)
Definition fire (s : rstate) (tm : timer) : rstate :=
  let c := tm_ctx tm in
  match tm_kind tm with
  | TkResend id => resend_message s c id
  | TkSend t =>
    match aget c (ctxs s) with
    | Some x => if (match c_sendMsg x with Some (t', _) => t' =? t | None => false end)
                then cancel (mark_expired s t) c else s
    | None => s
    end
  | TkRecv t id =>
    match aget c (ctxs s) with
    | Some x => if c_reqID x =? id then cancel (mark_expired s t) c else s
    | None => s
    end
  end.

Definition tol : N := 10.   (* ms *)

(* fire every timer that is due, earliest first *)
Fixpoint earliest (l : list timer) (best : option timer) : option timer :=
  match l with
  | [] => best
  | t :: r => earliest r (match best with
                          | None => Some t
                          | Some b => if tm_due t <? tm_due b then Some t else Some b
                          end)
  end.
Fixpoint fire_due (fixed : bool) (fuel : nat) (s : rstate) : rstate :=
  match fuel with
  | O => s
  | S f =>
    match earliest (filter (fun t => tm_due t <=? now s) (timers s)) None with
    | None => s
    | Some tm =>
      let s := upd_timers s (filter (fun t => negb (tm_id t =? tm_id tm)) (timers s)) (ntimer s) in
      (* the callback runs at its due time: re-armed timers are relative to it *)
      let nw := now s in
      (* a callback due within `tol` of the end of the sleep may or may not have run: not enumerated *)
      let s := set_misc s (sclosed s) (nsend s) (tm_due tm) (ambig s || (nw <? tm_due tm + tol)) in
      let s := settle fixed 64 (fire s tm) in
      fire_due fixed f (set_misc s (sclosed s) (nsend s) nw (ambig s))
    end
  end.

(* ---- the receiver goroutine's handling of one message ---- *)
Definition wire_key (fixed : bool) (w : N) : option N :=
  if 2 ^ 31 <? w then Some (w - 2 ^ 31)
  else if (w =? 0) && negb fixed then Some 0 else None.

Definition pipe_recv (fixed : bool) (s : rstate) (p : N) (body : bytes) : rstate :=
  match body with
  | a :: b :: c' :: d :: payload =>
    let w := be_dec [a; b; c'; d] in
    (* the pipe that just answered moves to the head of readyQ *)
    let s := if existsb (N.eqb p) (readyQ s)
             then upd_readyQ s (match readyQ s with
                                | [] => []
                                | h :: r => if h =? p then h :: r
                                            else p :: map (fun q => if q =? p then h else q) r
                                end)
             else s in
    (* ids on the wire are 2^31 + index, index >= 1; key 0 stands for "no request" (c.reqID == 0): only the literal
       word 0 looks it up, and only the code as found could ever have registered it *)
    match wire_key fixed w with
    | None => s
    | Some id =>
    match aget id (ctxByID s) with
    | Some c =>
      let s := cancel_send s c in
      match aget c (ctxs s) with
      | Some x =>
        let s := upd_byid s (adel id (ctxByID s)) in
        let s := stop_timer (stop_timer s (c_resendTimer x)) (c_recvTimer x) in
        wake (set_ctx (log_match s (id, payload)) c (with_timers (with_ctx x (c_reqID x) None (Some (id, payload)) (c_sendMsg x) (c_lastPipe x) (c_queued x))
                                       None (c_sendTimer x) None)) c
      | None => s
      end
    | None => s
    end
    end
  | _ => s
  end.

(* ---- RemovePipe ---- *)
Definition remove_pipe (s : rstate) (p : N) : rstate :=
  match get_pipe s p with
  | None => s
  | Some pp =>
    if pp_closed pp then s else
    let s := set_pipe s {| pp_id := p; pp_closed := true; pp_hold := pp_hold pp; pp_inflight := None |} in
    let s := upd_readyQ s (nremove p (readyQ s)) in
    (* for c := range s.contexts *)
    let affected := filter (fun cx => match c_lastPipe (snd cx), c_reqMsg (snd cx) with
                                      | Some q, Some _ => (q =? p) && negb (c_fnp (snd cx) && no_pipes s)
                                      | _, _ => false end) (ctxs s) in
    (* several contexts re-queueing at once race for the ready pipes: not enumerated *)
    let amb := match affected with _ :: _ :: _ => true | _ => false end in
    let s := set_misc s (sclosed s) (nsend s) (now s) (ambig s || amb) in
    fold_left (fun s cx =>
      let c := fst cx in
      match aget c (ctxs s) with
      | None => s
      | Some x =>
        if c_fnp x && no_pipes s then cancel s c
        else match c_lastPipe x, c_reqMsg x with
             | Some q, Some _ =>
               if q =? p then
                 let s := set_ctx s c (with_ctx x (c_reqID x) (c_reqMsg x) (c_repMsg x) (c_sendMsg x) None (c_queued x)) in
                 if c_resend x =? 0 then cancel s c
                 else resend_message (cancel_send s c) c (c_reqID x)
               else s
             | _, _ => s
             end
      end) (ctxs s) s
  end.

(* ---- API calls ---- *)
Definition opt_ms (v : Z) : N := Z.to_N v.

Definition do_call (s : rstate) (t : N) (k : call) : rstate :=
  match k with
  | CSend c _ body =>
    let s := set_misc s (sclosed s) (nsend s + 1) (now s) (ambig s) in
    let id := nsend s in
    match aget c (ctxs s) with
    | None => emit s (ORet t (RErr EClosed))
    | Some x =>
      if sclosed s || c_closed x then emit s (ORet t (RErr EClosed))
      else if c_fnp x && no_pipes s then emit s (ORet t (RErr ENoPeers))
      else
        let s := cancel_send (cancel s c) c in
        match aget c (ctxs s) with
        | None => s
        | Some x =>
          let s := set_ctx s c (with_last (with_ctx x id (c_reqMsg x) (c_repMsg x) (Some (t, (id, body))) (c_lastPipe x) true) id) in
          let s := upd_sendQ s (sendQ s ++ [c]) in
          if c_best x then emit (send_all s) (ORet t ROk)
          else
            let s := if 0 <? c_sendExp x then
                       let '(s, i) := arm s c (TkSend t) (c_sendExp x) in
                       match aget c (ctxs s) with
                       | Some x => set_ctx s c (with_timers x (c_resendTimer x) (Some i) (c_recvTimer x))
                       | None => s end
                     else s in
            let s := send_all s in
            wake (upd_threads s (threads s ++ [TSend t c false])) (fresh_key t)
        end
    end
  | CRecv c =>
    match aget c (ctxs s) with
    | None => emit s (ORet t (RErr EClosed))
    | Some x =>
      if sclosed s || c_closed x then emit s (ORet t (RErr EClosed))
      else if c_fnp x && no_pipes s then emit s (ORet t (RErr ENoPeers))
      else if c_recvWait x || (c_reqID x =? 0) then emit s (ORet t (RErr EProtoState))
      else
        let s := set_ctx s c (with_flags x (c_closed x) true) in
        let s := if 0 <? c_recvExp x then
                   let '(s, i) := arm s c (TkRecv t (c_reqID x)) (c_recvExp x) in
                   match aget c (ctxs s) with
                   | Some x => set_ctx s c (with_timers x (c_resendTimer x) (c_sendTimer x) (Some i))
                   | None => s end
                 else s in
        wake (upd_threads s (threads s ++ [TRecv t c (c_reqID x) false])) (fresh_key t)
    end
  | CSetOpt c o v _ =>
    match aget c (ctxs s) with
    | None => emit s (ORet t (RErr EClosed))
    | Some x =>
      let ok x' := emit (set_ctx s c x') (ORet t ROk) in
      match o with
      | ORetryTime => ok (with_opts x (opt_ms v) (c_sendExp x) (c_recvExp x) (c_best x) (c_fnp x))
      | OSendDeadline => ok (with_opts x (c_resend x) (opt_ms v) (c_recvExp x) (c_best x) (c_fnp x))
      | ORecvDeadline => ok (with_opts x (c_resend x) (c_sendExp x) (opt_ms v) (c_best x) (c_fnp x))
      | OBestEffort => ok (with_opts x (c_resend x) (c_sendExp x) (c_recvExp x) (negb (v =? 0)%Z) (c_fnp x))
      | OFailNoPeers => ok (with_opts x (c_resend x) (c_sendExp x) (c_recvExp x) (c_best x) (negb (v =? 0)%Z))
      | _ => emit s (ORet t (RErr EBadOption))
      end
    end
  | COpenCtx c =>
    if sclosed s then emit s (ORet t (RErr EClosed))
    else if (match aget c (ctxs s) with Some _ => true | None => false end)
    then set_misc s (sclosed s) (nsend s) (now s) true     (* a context name is never reused by the harness *)
    else match aget 0 (ctxs s) with
         | Some d => emit (set_ctx s c (with_opts (ctx0 0) (c_resend d) (c_sendExp d) (c_recvExp d) (c_best d) (c_fnp d))) (ORet t ROk)
         | None => s
         end
  | CCloseCtx c =>
    match aget c (ctxs s) with
    | None => emit s (ORet t (RErr EClosed))
    | Some x =>
      if c_closed x then emit s (ORet t (RErr EClosed))
      else emit (cancel (set_ctx s c (with_flags x true (c_recvWait x))) c) (ORet t ROk)
    end
  | CCloseSock =>
    if sclosed s then emit s (ORet t (RErr EClosed))
    else
      let s := set_misc s true (nsend s) (now s) (ambig s) in
      let s := fold_left (fun s cx =>
                 match aget (fst cx) (ctxs s) with
                 | Some x => if c_closed x then s else cancel (set_ctx s (fst cx) (with_flags x true (c_recvWait x))) (fst cx)
                 | None => s end) (ctxs s) s in
      emit s (ORet t ROk)
  end.

Definition step_raw (fixed : bool) (s : rstate) (st : stim) : rstate :=
  match st with
  | SCall t k => do_call s t k
  | SAddPipe p =>
    if sclosed s then s
    else
      let s := upd_pipes s (pipes s ++ [{| pp_id := p; pp_closed := false; pp_hold := false; pp_inflight := None |}]) in
      send_all (upd_readyQ s (readyQ s ++ [p]))
  | SDropPipe p => remove_pipe s p
  | SDeliver p body =>
    match get_pipe s p with
    | Some pp => if pp_closed pp then emit s (ONotTaken p) else pipe_recv fixed s p body
    | None => emit s (ONotTaken p)
    end
  | SHold p h =>
    match get_pipe s p with
    | Some pp => set_pipe s {| pp_id := p; pp_closed := pp_closed pp; pp_hold := h; pp_inflight := pp_inflight pp |}
    | None => s
    end
  | SRelease p ok =>
    match get_pipe s p with
    | Some pp =>
      match pp_inflight pp with
      | None => s
      | Some _ =>
        let s := set_pipe s {| pp_id := p; pp_closed := pp_closed pp; pp_hold := pp_hold pp; pp_inflight := None |} in
        if ok then
          if sclosed s || pp_closed pp then s else send_all (upd_readyQ s (readyQ s ++ [p]))
        else remove_pipe s p   (* a failed transport send closes the pipe (done by the mock, as core does) *)
      end
    | None => s
    end
  | SPass until =>
    let s := fire_due fixed 64 (set_misc s (sclosed s) (nsend s) until (ambig s)) in
    (* likewise for timers (also ones armed during the sleep) that become due just after it *)
    let near := existsb (fun t => tm_due t <? until + tol) (timers s) in
    set_misc s (sclosed s) (nsend s) (now s) (ambig s || near)
  | STick at_ =>
    (* outside a sleep no timer may be (nearly) due: else the order of its callback and the next stimulus is open *)
    let near := existsb (fun t => tm_due t <? at_ + tol) (timers s) in
    set_misc s (sclosed s) (nsend s) (N.max (now s) at_) (ambig s || near)
  end.

Definition step (fixed : bool) (s : rstate) (st : stim) : rstate * list obs :=
  let s := settle fixed 64 (step_raw fixed (clear_out s) st) in
  (s, rev (out s)).

Definition blocked (s : rstate) : list N :=
  map (fun th => match th with TSend t _ _ => t | TRecv t _ _ _ => t end) (threads s).

Definition req_model (fixed : bool) : model :=
  {| m_state := rstate; m_step := step fixed; m_blocked := blocked; m_ambiguous := ambig |}.
