(* Shared vocabulary of the protocol-level (L1) histories: what the harness does to a protocol
   implementation through its public ProtocolBase API and mock pipes (stimuli) and what it sees
   (observations).  One history = a list of steps; after each stimulus the driver waits for quiescence,
   records the observations of that step and the set of API calls that are still blocked. *)
From MV Require Export Lib.Bytes.
Open Scope N_scope.

(* error classes *)
Definition EClosed := 1. Definition ESendTimeout := 2. Definition ERecvTimeout := 3.
Definition EProtoState := 4. Definition EProtoOp := 5. Definition EBadValue := 6.
Definition EBadOption := 7. Definition ECanceled := 8. Definition ENoPeers := 9.

(* options that change behaviour (value: durations in milliseconds, booleans 0/1, ints) *)
Inductive opt := ORetryTime | OSendDeadline | ORecvDeadline | OBestEffort | OFailNoPeers
               | OSurveyTime | OReadQLen | OWriteQLen | OTtl | OSubscribe | OUnsubscribe.

Inductive call :=
| CSend (c : N) (hdr body : bytes)     (* hdr is used by raw sockets only *)
| CRecv (c : N)
| CSetOpt (c : N) (o : opt) (v : Z) (arg : bytes)
| COpenCtx (c : N)
| CCloseCtx (c : N)
| CCloseSock.

Inductive stim :=
| SCall (t : N) (k : call)             (* start API call t in its own goroutine *)
| SAddPipe (p : N)
| SDropPipe (p : N)                    (* the peer / transport goes away *)
| SDeliver (p : N) (body : bytes)      (* pipe p's RecvMsg yields a message with this body *)
| SHold (p : N) (h : bool)             (* h: sends on p block until released; else complete at once *)
| SRelease (p : N) (ok : bool)         (* complete (or fail) the oldest held send on p *)
| SPass (until : N)                    (* sleep; `until` = measured time (ms since the history began) when the step ended *)
| STick (tm : N).                      (* no action: the measured time now; precedes each stimulus of a timed history *)

Inductive ret := ROk | RMsg (hdr body : bytes) | RErr (e : N).

Inductive obs :=
| ORet (t : N) (r : ret)
| OTx (p : N) (hdr body : bytes)       (* the protocol wrote a message to pipe p *)
| OPipeClose (p : N)                   (* the protocol closed pipe p *)
| ONotTaken (p : N).                   (* a delivered message was not consumed by the pipe's receiver *)

Definition ret_eqb (a b : ret) : bool :=
  match a, b with
  | ROk, ROk => true
  | RMsg h1 b1, RMsg h2 b2 => bytes_eqb h1 h2 && bytes_eqb b1 b2
  | RErr x, RErr y => x =? y
  | _, _ => false
  end.

Definition obs_eqb (a b : obs) : bool :=
  match a, b with
  | ORet t r, ORet t' r' => (t =? t') && ret_eqb r r'
  | OTx p h b, OTx p' h' b' => (p =? p') && bytes_eqb h h' && bytes_eqb b b'
  | OPipeClose p, OPipeClose p' => p =? p'
  | ONotTaken p, ONotTaken p' => p =? p'
  | _, _ => false
  end.

(* multiset equality of observation lists (order within one step is scheduling noise) *)
Fixpoint remove_first (o : obs) (l : list obs) : option (list obs) :=
  match l with
  | [] => None
  | x :: r => if obs_eqb o x then Some r
              else match remove_first o r with Some r' => Some (x :: r') | None => None end
  end.
Fixpoint obs_perm (a b : list obs) : bool :=
  match a with
  | [] => match b with [] => true | _ => false end
  | o :: a' => match remove_first o b with Some b' => obs_perm a' b' | None => false end
  end.

Fixpoint nlist_eqb (a b : list N) : bool :=
  match a, b with [] , [] => true | x :: a', y :: b' => (x =? y) && nlist_eqb a' b' | _, _ => false end.
Fixpoint ninsert (x : N) (l : list N) : list N :=
  match l with [] => [x] | y :: r => if x <=? y then x :: l else y :: ninsert x r end.
Definition nsort (l : list N) : list N := fold_right ninsert [] l.

(* body literal used by the harness: n bytes, big-endian value v *)
Definition mkb (n : nat) (v : N) : bytes := be_enc n v.

(* ---- generic history checker ----
   A model is (state, step, blocked, ambiguous): `step` returns the new state and the expected
   observations; `blocked` lists the calls the model believes are still blocked; `ambiguous` says that the
   state has passed a point where the implementation may legitimately choose among several behaviours the
   deterministic model does not enumerate (comparison stops there, never an alarm). *)
Record model := {
  m_state : Type;
  m_step : m_state -> stim -> m_state * list obs;
  m_blocked : m_state -> list N;
  m_ambiguous : m_state -> bool;
}.

Definition step_rec : Type := (stim * list obs * list N)%type.

(* returns None if the whole history agrees, Some i = index of the first disagreeing step *)
Fixpoint check_from (M : model) (s : m_state M) (i : N) (h : list step_rec) : option N :=
  match h with
  | [] => None
  | (st, os, bl) :: r =>
    let '(s', exp) := m_step M s st in
    if m_ambiguous M s' then None
    else if obs_perm exp os && nlist_eqb (nsort (m_blocked M s')) (nsort bl)
         then check_from M s' (N.succ i) r
         else
           (* the step took so long that a timer became (nearly) due within it: the next time-stamp tells *)
           match r with
           | (st2, _, _) :: _ => if m_ambiguous M (fst (m_step M s' st2)) then None else Some i
           | [] => Some i
           end
  end.

Fixpoint run_model (M : model) (s : m_state M) (h : list stim) : m_state M * list (list obs) :=
  match h with
  | [] => (s, [])
  | st :: r => let '(s', o) := m_step M s st in let '(s'', os) := run_model M s' r in (s'', o :: os)
  end.

(* for reports: the model's expectation at the first disagreeing step *)
Fixpoint explain_from (M : model) (s : m_state M) (h : list step_rec) : option (stim * list obs * list N * list obs * list N) :=
  match h with
  | [] => None
  | (st, os, bl) :: r =>
    let '(s', exp) := m_step M s st in
    if m_ambiguous M s' then None
    else if obs_perm exp os && nlist_eqb (nsort (m_blocked M s')) (nsort bl)
         then explain_from M s' r
         else Some (st, exp, nsort (m_blocked M s'), os, bl)
  end.

(* how many steps of a history were compared before the model declared the rest ambiguous (None: all) *)
Fixpoint ambiguous_from (M : model) (s : m_state M) (i : N) (h : list step_rec) : option N :=
  match h with
  | [] => None
  | (st, _, _) :: r =>
    let '(s', _) := m_step M s st in
    if m_ambiguous M s' then Some i else ambiguous_from M s' (N.succ i) r
  end.
