(* Helpers for the correspondence files the checks generate: indices of the cases on which
   the model's prediction and the implementation's observation differ. *)
From Coq Require Import List NArith.
Import ListNotations.

Fixpoint bad_idx_from {A} (i : N) (ok : A -> bool) (l : list A) : list N :=
  match l with
  | [] => []
  | x :: r => if ok x then bad_idx_from (N.succ i) ok r else i :: bad_idx_from (N.succ i) ok r
  end.
Definition bad_idx {A} (ok : A -> bool) (l : list A) : list N := bad_idx_from 0%N ok l.

Definition count_true {A} (f : A -> bool) (l : list A) : N := N.of_nat (length (filter f l)).
