(* Octets, hex transport encoding (harness <-> Coq), big-endian integers. *)
From Coq Require Export String Ascii.
From Coq Require Export List NArith ZArith Bool Lia.
From Coq Require Export Init.Byte.
From Coq Require Import ZifyBool ZifyN ZifyNat.
Export ListNotations.
Open Scope N_scope.

Definition bytes := list byte.

Definition b2n (b : byte) : N := Byte.to_N b.
Definition n2b (n : N) : byte :=
  match Byte.of_N (n mod 256) with Some b => b | None => x00 end.

Lemma b2n_lt b : b2n b < 256.
Proof. unfold b2n. pose proof (Byte.to_N_bounded b). lia. Qed.

Lemma n2b_b2n b : n2b (b2n b) = b.
Proof. destruct b; reflexivity. Qed.

Lemma b2n_n2b n : n < 256 -> b2n (n2b n) = n.
Proof.
  intros H. unfold n2b, b2n. rewrite N.mod_small by exact H.
  destruct (Byte.of_N n) eqn:E.
  - apply Byte.to_of_N in E. exact E.
  - apply Byte.of_N_None_iff in E. lia.
Qed.

Lemma b2n_inj a b : b2n a = b2n b -> a = b.
Proof. intros H. rewrite <- (n2b_b2n a), <- (n2b_b2n b), H. reflexivity. Qed.

Definition byte_eqb (a b : byte) : bool := Byte.eqb a b.
Lemma byte_eqb_eq a b : byte_eqb a b = true <-> a = b.
Proof. unfold byte_eqb. split; intro H. apply Byte.byte_dec_bl; exact H. apply Byte.byte_dec_lb; exact H. Qed.

Fixpoint bytes_eqb (a b : bytes) : bool :=
  match a, b with
  | [], [] => true
  | x :: a', y :: b' => byte_eqb x y && bytes_eqb a' b'
  | _, _ => false
  end.
Lemma bytes_eqb_eq a b : bytes_eqb a b = true <-> a = b.
Proof.
  revert b; induction a as [|x a IH]; intros [|y b]; simpl; split; intro H; try congruence; try discriminate.
  - apply andb_true_iff in H as [H1 H2]. apply byte_eqb_eq in H1. apply IH in H2. congruence.
  - inversion H; subst. apply andb_true_iff; split. apply byte_eqb_eq; reflexivity. apply IH; reflexivity.
Qed.

(* ---- all 256 byte values, for finite sweeps lifted by forallb_forall ---- *)
Definition all_bytes : list byte := map n2b (map N.of_nat (seq 0 256)).
Lemma all_bytes_complete b : In b all_bytes.
Proof.
  rewrite <- (n2b_b2n b). unfold all_bytes. apply in_map.
  rewrite <- (Nnat.N2Nat.id (b2n b)). apply in_map. apply in_seq.
  pose proof (b2n_lt b). lia.
Qed.

Lemma forall_bytes (P : byte -> bool) : forallb P all_bytes = true -> forall b, P b = true.
Proof. intros H b. rewrite forallb_forall in H. apply H, all_bytes_complete. Qed.

(* ---- hex transport ---- *)
Definition hexval (c : byte) : option N :=
  let n := b2n c in
  if (48 <=? n) && (n <=? 57) then Some (n - 48)
  else if (97 <=? n) && (n <=? 102) then Some (n - 87)
  else None.

Fixpoint unhex_bytes (l : list byte) : bytes :=
  match l with
  | a :: b :: r =>
    match hexval a, hexval b with
    | Some x, Some y => n2b (16 * x + y) :: unhex_bytes r
    | _, _ => []
    end
  | _ => []
  end.

Definition unhex (s : string) : bytes := unhex_bytes (list_byte_of_string s).
Notation "'hex:' s" := (unhex s) (at level 0, s at level 0, only parsing).

Definition hexdigit (n : N) : byte := if n <? 10 then n2b (48 + n) else n2b (87 + n).
Definition tohex (l : bytes) : string :=
  string_of_list_byte (flat_map (fun b => [hexdigit (b2n b / 16); hexdigit (b2n b mod 16)]) l).

(* ---- big endian ---- *)
Fixpoint be_enc (k : nat) (n : N) : bytes :=
  match k with
  | O => []
  | S k' => n2b (n / 256 ^ N.of_nat k') :: be_enc k' n
  end.

Fixpoint be_dec_acc (acc : N) (l : bytes) : N :=
  match l with
  | [] => acc
  | b :: r => be_dec_acc (acc * 256 + b2n b) r
  end.
Definition be_dec (l : bytes) : N := be_dec_acc 0 l.

Lemma be_enc_length k n : length (be_enc k n) = k.
Proof. induction k; simpl; congruence. Qed.

Lemma be_dec_acc_app acc l1 l2 : be_dec_acc acc (l1 ++ l2) = be_dec_acc (be_dec_acc acc l1) l2.
Proof. revert acc; induction l1; simpl; intros; auto. Qed.

Lemma be_dec_acc_enc k : forall acc n, n < 256 ^ N.of_nat k ->
  be_dec_acc acc (be_enc k n) = acc * 256 ^ N.of_nat k + n.
Proof.
  induction k as [|k IH]; intros acc n H.
  - simpl in *. lia.
  - cbn [be_enc be_dec_acc].
    replace (N.of_nat (S k)) with (N.succ (N.of_nat k)) in * by lia.
    rewrite N.pow_succ_r' in *.
    set (p := 256 ^ N.of_nat k) in *.
    assert (Hp : 0 < p) by (apply N.neq_0_lt_0, N.pow_nonzero; lia).
    assert (Hq : n / p < 256) by (apply N.div_lt_upper_bound; lia).
    rewrite b2n_n2b by exact Hq.
    (* the low part: enc of n only looks at n mod p *)
    assert (Hlow : forall m, be_enc k m = be_enc k (m mod p)).
    { clear. subst p. induction k as [|k IHk]; intro m; [reflexivity|].
      cbn [be_enc]. replace (N.of_nat (S k)) with (N.succ (N.of_nat k)) by lia.
      rewrite N.pow_succ_r'. set (q := 256 ^ N.of_nat k).
      assert (Hq : q <> 0) by (apply N.pow_nonzero; lia).
      f_equal.
      - unfold n2b. f_equal.
        rewrite (N.mul_comm 256 q), N.mod_mul_r by lia.
        rewrite (N.mul_comm q), N.div_add by lia.
        rewrite (N.div_small (m mod q) q) by (apply N.mod_lt; lia).
        rewrite N.add_0_l. rewrite N.mod_mod by lia. reflexivity.
      - rewrite IHk. rewrite (IHk (m mod (256 * q))). f_equal.
        rewrite (N.mul_comm 256 q), N.mod_mul_r by lia.
        rewrite N.mul_comm, N.mod_add by lia. rewrite N.mod_mod by lia. reflexivity. }
    rewrite Hlow. rewrite IH by (apply N.mod_lt; lia).
    pose proof (N.div_mod n p ltac:(lia)). nia.
Qed.

Lemma be_dec_enc k n : n < 256 ^ N.of_nat k -> be_dec (be_enc k n) = n.
Proof. intro H. unfold be_dec. rewrite be_dec_acc_enc by exact H. lia. Qed.


(* prefix test *)
Fixpoint is_prefix (p l : bytes) : bool :=
  match p, l with
  | [], _ => true
  | x :: p', y :: l' => byte_eqb x y && is_prefix p' l'
  | _ :: _, [] => false
  end.
Lemma is_prefix_spec p l : is_prefix p l = true <-> exists r, l = p ++ r.
Proof.
  revert l; induction p as [|x p IH]; intros l; simpl.
  - split; eauto.
  - destruct l as [|y l]; split; intro H; try discriminate.
    + destruct H as [r Hr]; discriminate.
    + apply andb_true_iff in H as [H1 H2]. apply byte_eqb_eq in H1; subst.
      apply IH in H2 as [r ->]. eauto.
    + destruct H as [r Hr]. inversion Hr; subst. apply andb_true_iff; split.
      apply byte_eqb_eq; reflexivity. apply IH; eauto.
Qed.

(* ---- large payloads: described by (seed, length) on both sides and compared by digest ----
   Coq's parser is slow on long literals, so bodies above a few hundred bytes are never written out:
   the harness and the model both build `gen_body seed n`, and the implementation's output is
   compared with the model's through (length, Adler-32, first 16 bytes, last 16 bytes). *)
Definition wrap256 (v : N) : N := if v <? 256 then v else v - 256.
(* state: current value v < 256 and position c within the current 256-block *)
Fixpoint gen_from (k : nat) (v c : N) : bytes :=
  match k with
  | O => []
  | S k' => n2b v :: (if c =? 255 then gen_from k' (wrap256 (v + 180)) 0
                      else gen_from k' (wrap256 (v + 167)) (c + 1))
  end.
Definition gen_body (seed n : N) : bytes := gen_from (N.to_nat n) (seed mod 256) 0.

(* Adler-32 with the reductions delayed to the end (sums stay far below 2^64 for bodies up to 16 MiB) *)
Definition adler_step (st : N * N) (x : byte) : N * N :=
  let '(a, b) := st in let a' := a + b2n x in (a', b + a').
Definition adler32 (l : bytes) : N :=
  let '(a, b) := fold_left adler_step l (1, 0) in (b mod 65521) * 65536 + (a mod 65521).

Definition lastn {A} (n : nat) (l : list A) : list A := skipn (length l - n) l.
Definition digest (l : bytes) : N * N * bytes * bytes :=
  (N.of_nat (length l), adler32 l, firstn 16 l, lastn 16 l).
Definition digest_eqb (d : N * N * bytes * bytes) (o : N * N * string * string) : bool :=
  let '(n, a, h, t) := d in let '(n', a', h', t') := o in
  (n =? n') && (a =? a') && bytes_eqb h (unhex h') && bytes_eqb t (unhex t').

(* ---- lengths in N, exact prefix split ---- *)
Definition blen (l : bytes) : N := N.of_nat (length l).

Fixpoint take_exact {A} (n : nat) (l : list A) : option (list A * list A) :=
  match n, l with
  | O, _ => Some ([], l)
  | S n', x :: r => match take_exact n' r with Some (a, b) => Some (x :: a, b) | None => None end
  | S _, [] => None
  end.

Lemma take_exact_app {A} (a b : list A) : take_exact (length a) (a ++ b) = Some (a, b).
Proof. induction a as [|x a IH]; [reflexivity|]. cbn [length app take_exact]. rewrite IH. reflexivity. Qed.

Lemma take_exact_spec {A} n (l a b : list A) : take_exact n l = Some (a, b) -> l = a ++ b /\ length a = n.
Proof.
  revert l a b; induction n as [|n IH]; intros l a b H; cbn [take_exact] in H.
  - inversion H; subst. auto.
  - destruct l as [|x r]; [discriminate|]. destruct (take_exact n r) as [[a' b']|] eqn:E; [|discriminate].
    inversion H; subst. apply IH in E as [-> <-]. auto.
Qed.

Lemma take_exact_none {A} n (l : list A) : take_exact n l = None <-> (length l < n)%nat.
Proof.
  revert l; induction n as [|n IH]; intros l; cbn [take_exact].
  - split; [discriminate|lia].
  - destruct l as [|x r]; cbn [length]; [split; [lia|reflexivity]|].
    destruct (take_exact n r) as [[a b]|] eqn:E.
    + split; [discriminate|]. intro H. assert (HH : take_exact n r = None) by (apply IH; lia). congruence.
    + split; [|reflexivity]. intros _. apply IH in E. lia.
Qed.

Lemma blen_nat l : N.to_nat (blen l) = length l.
Proof. unfold blen. lia. Qed.
Lemma blen_app a b : blen (a ++ b) = blen a + blen b.
Proof. unfold blen. rewrite app_length. lia. Qed.
