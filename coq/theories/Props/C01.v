(* C01 -- messages arrive byte-identical and whole over every transport.  Statements only. *)
From MV Require Import Lib.Bytes Model.Hops Model.Wire Proofs.WireProofs Proofs.PatternProofs.
Open Scope N_scope.

(* a new message of ANY size has room for that size, for every pool table that passes pool_ok
   (the table of the current source is re-extracted and re-checked on every run) *)
Theorem C01_pool_capacity : forall p sz, pool_ok p = true -> sz <= new_message_cap p sz.
Proof. exact new_message_cap_ge. Qed.
Print Assumptions C01_pool_capacity.

(* one send <-> one receive on a stream connection, for ANY sequence of (header, body) pairs whose sizes
   are within the limit (maxrx = 0: no limit): nothing split, merged, truncated, padded or mixed; a message
   whose size EQUALS the limit is within it *)
Theorem C01_stream_roundtrip : forall p ipc maxrx msgs, pool_ok p = true -> Forall (msg_ok maxrx) msgs ->
  let r := parse_stream p ipc maxrx (concat (map (fun hb => frame ipc (fst hb) (snd hb)) msgs)) in
  delivered r = map (fun hb => fst hb ++ snd hb) msgs /\ status r = AtBoundary.
Proof. exact stream_roundtrip. Qed.
Print Assumptions C01_stream_roundtrip.

Theorem C01_limit_inclusive : forall maxrx h b, 0 < maxrx -> blen h + blen b = maxrx -> maxrx < 2 ^ 63 -> msg_ok maxrx (h, b).
Proof.
  intros maxrx h b H0 He Hb. unfold msg_ok, within. cbn [fst snd]. rewrite He. split; [exact Hb|].
  rewrite N.ltb_irrefl, andb_false_r. reflexivity.
Qed.
Print Assumptions C01_limit_inclusive.

(* all six transports hand the protocol exactly header ++ body per message, in order *)
Theorem C01_transport_deliver : forall t maxrx msgs, Forall (msg_ok maxrx) msgs ->
  transport_deliver t maxrx msgs = map (fun hb => fst hb ++ snd hb) msgs.
Proof. exact transport_deliver_all. Qed.
Print Assumptions C01_transport_deliver.

(* what the cooked sender of each pattern prepends is removed again by the peer's receive filter,
   which hands up exactly the body *)
Theorem C01_pattern_roundtrip : forall p ttl pid id body, 0 < ttl < 256 ->
  exists h, rx_peer p ttl pid (tx_cooked p id body) = Some (Deliver h body).
Proof. exact pattern_roundtrip. Qed.
Print Assumptions C01_pattern_roundtrip.

(* the parser never indexes out of range, whatever the stream *)
Theorem C01_no_crash : forall p ipc maxrx s, pool_ok p = true -> status (parse_stream p ipc maxrx s) <> Crash.
Proof. intros p ipc maxrx s H. apply parse_no_crash. exact H. Qed.
Print Assumptions C01_no_crash.

Example C01_ex :
  transport_deliver TIpc 5 [(unhex "80000001", unhex "aa"); (unhex "", unhex "0102030405")] =
  [unhex "80000001aa"; unhex "0102030405"].
Proof. vm_compute. reflexivity. Qed.
