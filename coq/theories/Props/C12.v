(* C12 -- a failed operation leaves the object usable; nothing stays locked.  Statements only.
   The per-run obligation (coq/../C12_gen_all_balanced) instantiates C12_balanced_sound on the CFG skeletons
   regenerated from the current source. *)
From MV Require Import Model.LockCfg Proofs.LockCfgSound.
From MV Require Import Model.Handshaker Proofs.HandshakerProofs.
Open Scope N_scope.

(* For every function the checker accepts, EVERY path from its entry (any length, loops any number of times,
   every error branch): no Lock of a mutex already held, no Unlock of one not held, Cond.Wait only with the
   lock, and every return is reached with -- after the deferred unlocks -- exactly the entry locks held,
   i.e. each acquired lock is released exactly once on the way to every return. *)
Theorem C12_balanced_sound : forall pol f, balanced_fn pol f = true ->
  forall p, valid_from f 0 p = true -> exists s, run_path pol f p = Ok s.
Proof. exact balanced_sound. Qed.
Print Assumptions C12_balanced_sound.

(* what Ok means at a returning block *)
Theorem C12_return_releases : forall pol entry b s s',
  exec_block pol entry b s = Ok s' -> returns b = true ->
  exists h, run_defers (held s') (defers s') = Ok h /\ h = entry.
Proof. exact exec_block_return. Qed.
Print Assumptions C12_return_releases.

Theorem C12_no_self_deadlock : forall pol s l s', exec_instr pol s (ILock l) = Ok s' -> mem l (held s) = false.
Proof. exact exec_instr_lock_ok. Qed.
Print Assumptions C12_no_self_deadlock.

(* non-vacuity: the checker rejects the shape core.addPipe had (Lock; Lock on the closing branch) and a
   return that forgets the unlock, and accepts the repaired shapes *)
Definition ex_double_lock : func :=
  {| fname := "ex"; entry_held := []; blocks :=
     [ {| body := [ILock 1]; succs := [1%nat; 2%nat]; returns := false |};
       {| body := [ILock 1]; succs := []; returns := true |};
       {| body := [IUnlock 1]; succs := []; returns := true |} ] |}.
Definition ex_fixed : func :=
  {| fname := "ex"; entry_held := []; blocks :=
     [ {| body := [ILock 1; IDeferUnlock 1]; succs := [1%nat; 2%nat]; returns := false |};
       {| body := [IBlocking 3]; succs := [1%nat; 2%nat]; returns := false |};
       {| body := []; succs := []; returns := true |} ] |}.
Example C12_ex : balanced_fn permissive ex_double_lock = false /\ balanced_fn permissive ex_fixed = true
                 /\ run_path permissive ex_double_lock [1%nat] = Bad (SelfDeadlock 1).
Proof. vm_compute. auto. Qed.

(* ---- the handshaker (Model/Handshaker.v): a handshake that fails leaves its connection closed and is reported once as a
   failure; the handshaker stays usable -- the next completed handshake is what Wait returns next, however many other
   handshakes are still in flight; a connection is handed out at most once ---- *)
Theorem C12_failed_handshake_closed : forall s c, nmem c (h_work s) = true -> ~ In c (h_open (fst (hstep s (HFinish c false)))).
Proof. exact failed_is_closed. Qed.
Print Assumptions C12_failed_handshake_closed.

Theorem C12_stalled_peers_do_not_delay : forall s c, h_closed s = false -> h_done s = [] -> nmem c (h_work s) = true ->
  snd (hstep (fst (hstep s (HFinish c true))) HWait) = WPipe c /\
  snd (hstep (fst (hstep s (HFinish c false))) HWait) = WFail.
Proof. exact stalled_peers_do_not_delay. Qed.
Print Assumptions C12_stalled_peers_do_not_delay.

Theorem C12_connection_given_once : forall ops, NoDup (h_given (fst (hrun h0 ops))).
Proof. exact given_once. Qed.
Print Assumptions C12_connection_given_once.

(* the handshaker loses nothing and invents nothing: while it is open, what the Waits have returned so far followed by
   what is still waiting to be collected is exactly the list of handshakes that completed -- successes as pipes,
   failures as errors -- in the order they completed *)
Theorem C12_wait_returns_completions_in_order : forall ops, (forall o, In o ops -> o <> HClose) ->
  results (snd (hrun h0 ops)) ++ h_done (fst (hrun h0 ops)) = finished h0 ops.
Proof. exact wait_fifo_from_start. Qed.
Print Assumptions C12_wait_returns_completions_in_order.
