(* C03 -- REQ returns only the reply to its current request.  Statements only.
   The model (Model/Req.v) is a deterministic machine over histories of stimuli; `model_trace true init h`
   is the trace of the repaired implementation on the history h. *)
From MV Require Import Lib.Proto Model.Req Model.ReqOracle Proofs.ReqProofs Proofs.ReqInv.
Open Scope N_scope.

(* THE PROPERTY, for every history of stimuli (any number of contexts, pipes and calls; replies with arbitrary
   bytes on arbitrary pipes in arbitrary order, duplicated, stale, foreign; pipe losses; timers; closes), at the
   granularity of one stimulus per step: every reply the repaired REQ ever handed out to a Recv call had been
   matched under exactly the id that call was waiting for, which was the id of the context's most recent accepted
   Send at that moment (and not "no request"), and its payload is that of a delivery matched under that id.
   (glog / dlog are ghost logs of the model: hand-outs and matched deliveries.) *)
Theorem C03_reply_current_all_histories : forall h,
  let s := fst (run_model (req_model true) init h) in
  Forall (fun e => let '(t, c, i, id, lst, b) := e in i = id /\ id = lst /\ id <> 0 /\ In (i, b) (dlog s)) (glog s).
Proof. exact req_reply_current_all_histories. Qed.
Print Assumptions C03_reply_current_all_histories.

(* a Recv call returns a message exactly when the hand-out is logged *)
Theorem C03_handout_logged : forall s t c id e b,
  In (ORet t (RMsg [] b)) (out (recv_finish true s t c id e)) -> ~ In (ORet t (RMsg [] b)) (out s) ->
  exists i lst, glog (recv_finish true s t c id e) = (t, c, i, id, lst, b) :: glog s.
Proof. exact recv_finish_logs. Qed.
Print Assumptions C03_handout_logged.

(* replies whose id is not registered -- stale, foreign, duplicate, without the request bit, too short --
   are dropped without any effect on any context, in every state *)
Theorem C03_unmatched_reply_dropped : forall fixed s p body,
  wire_id fixed body = None \/ (exists id, wire_id fixed body = Some id /\ aget id (ctxByID s) = None) ->
  ctxs (pipe_recv fixed s p body) = ctxs s /\ out (pipe_recv fixed s p body) = out s /\
  woken (pipe_recv fixed s p body) = woken s /\ threads (pipe_recv fixed s p body) = threads s /\
  ctxByID (pipe_recv fixed s p body) = ctxByID s.
Proof. exact pipe_recv_unmatched. Qed.
Print Assumptions C03_unmatched_reply_dropped.

(* at most one delivered reply per request: matching consumes the registration *)
Theorem C03_reply_consumes_id : forall fixed s p body id c y,
  keys_nodup (ctxByID s) -> wire_id fixed body = Some id -> aget id (ctxByID s) = Some c -> aget c (ctxs s) = Some y ->
  aget id (ctxByID (pipe_recv fixed s p body)) = None.
Proof. exact pipe_recv_consumes. Qed.
Print Assumptions C03_reply_consumes_id.

(* the repaired RecvMsg returns a message only while the context's request is the one it waited for *)
Theorem C03_recv_returns_current : forall s t c id e b,
  In (ORet t (RMsg [] b)) (out (recv_finish true s t c id e)) -> ~ In (ORet t (RMsg [] b)) (out s) ->
  exists x i, aget c (ctxs s) = Some x /\ c_reqID x = id /\ c_repMsg x = Some (i, b).
Proof. exact recv_finish_current. Qed.
Print Assumptions C03_recv_returns_current.

Theorem C03_recv_no_request : forall s t c x,
  aget c (ctxs s) = Some x -> sclosed s = false -> c_closed x = false -> (c_fnp x && no_pipes s) = false ->
  c_reqID x = 0 -> do_call s t (CRecv c) = emit s (ORet t (RErr EProtoState)).
Proof. exact recv_without_request. Qed.
Print Assumptions C03_recv_no_request.

(* The code as found violated the property: on the history `defect9` (a new Send while a Recv of the previous
   request is blocked, then a third request, then the second request's reply) the faithful model of the old
   RecvMsg returns request 2's reply to request 3.  The witness was replayed on the implementation
   (known_findings.json); the code was repaired and the model of the repaired code passes. *)
Theorem C03_reply_current_old_refuted : c03_oracle (model_trace false init defect9) = Some 7.
Proof. exact defect9_old_model. Qed.
Print Assumptions C03_reply_current_old_refuted.

Theorem C03_reply_current_on_witness : c03_oracle (model_trace true init defect9) = None.
Proof. exact defect9_fixed_model. Qed.
Print Assumptions C03_reply_current_on_witness.
