(* C08 -- BUS and STAR reach every other member once and never echo to the sender.  Statements only.
   Model/BusStar.v: one machine for xbus/bus/xstar/star (`b_step star cooked`); a pipe is `idle` when its sender
   goroutine is waiting for a message (nothing in flight, nothing buffered) -- that is "queue space permitting" at its
   sharpest: an idle pipe always takes the message, whatever WRITEQ-LEN is (including 0); `otx m b` is the observation
   "message m was written to pipe b". *)
From MV Require Import Model.BusStar Model.BusStarOracle Proofs.PairPushProofs Proofs.BusStarProofs.
Open Scope N_scope.

(* ---- BUS ---- *)
(* for ALL pipe lists, headers and payloads: a Send writes exactly one copy to every idle pipe except the one a 4-byte
   raw header names, and nothing else *)
Theorem C08_bus_send_exact : forall (cooked : bool) s t c hdr body,
  b_closed s = false ->
  let '(skip, h) := bus_skip (if cooked then [] else hdr) in
  snd (b_step false cooked s (SCall t (CSend c hdr body))) =
  map (otx (h, body)) (filter (fun b => negb (pipe_id (bp_id b) =? skip) && idle b) (b_pipes s)) ++ [ORet t ROk].
Proof. exact bus_send_exact. Qed.
Print Assumptions C08_bus_send_exact.

Theorem C08_bus_no_echo : forall s t c hdr body p h b,
  length hdr = 4%nat ->
  In (OTx p h b) (snd (b_step false false s (SCall t (CSend c hdr body)))) -> pipe_id p <> be_dec hdr.
Proof. exact bus_no_echo. Qed.
Print Assumptions C08_bus_no_echo.

(* device forwarding: a raw socket tags a received message with the id of the pipe it came from ... *)
Theorem C08_bus_deliver_header : forall ttl src wire,
  rx_model RXBus ttl (pipe_id src) wire = Some (Deliver (be_enc 4 (pipe_id src)) wire).
Proof. exact bus_deliver_header. Qed.
Print Assumptions C08_bus_deliver_header.

(* ... and re-sending it with that header reaches every idle pipe except that one *)
Theorem C08_bus_raw_forward_skips_source : forall s t c src body,
  src < 2 ^ 31 -> b_closed s = false ->
  snd (b_step false false s (SCall t (CSend c (be_enc 4 (pipe_id src)) body))) =
  map (otx ([], body)) (filter (fun b => negb (bp_id b =? src) && idle b) (b_pipes s)) ++ [ORet t ROk].
Proof. exact bus_raw_forward_skips_source. Qed.
Print Assumptions C08_bus_raw_forward_skips_source.

Theorem C08_bus_cooked_send_all : forall s t c hdr body,
  b_closed s = false ->
  snd (b_step false true s (SCall t (CSend c hdr body))) = map (otx ([], body)) (filter idle (b_pipes s)) ++ [ORet t ROk].
Proof. exact bus_cooked_send_all. Qed.
Print Assumptions C08_bus_cooked_send_all.

(* a BUS socket (cooked or raw) writes nothing to any pipe when a message arrives: it does not pass messages on *)
Theorem C08_bus_cooked_no_forward : forall cooked s p wire, txs_of (snd (b_step false cooked s (SDeliver p wire))) = [].
Proof. exact bus_no_forward. Qed.
Print Assumptions C08_bus_cooked_no_forward.

(* ---- STAR ---- *)
(* for ALL pipe lists and payloads: an accepted message (header h, body b after the hop filter) is written exactly
   once to every idle pipe other than the source, nothing goes back to the source, and exactly one copy goes up *)
Theorem C08_star_forward_all_but_source : forall cooked s p wire h b,
  b_closed s = false -> b_attached s p = true -> existsb (fun e => fst e =? p) (b_rxw s ++ b_srxw s) = false ->
  rx_xstar (b_ttl s) wire = Deliver h b ->
  exists up, snd (b_step true cooked s (SDeliver p wire)) =
             map (otx (h, b)) (filter (fun q => negb (bp_id q =? p) && idle q) (b_pipes s)) ++ up
             /\ txs_of up = []
             /\ (up = [] \/ exists t, up = [ORet t (b_view cooked (h, b))]).
Proof. exact star_forward_all_but_source. Qed.
Print Assumptions C08_star_forward_all_but_source.

Theorem C08_star_hop_incremented : forall ttl d payload,
  0 < ttl < 256 -> d < ttl ->
  rx_xstar ttl ([x00; x00; x00; n2b d] ++ payload) = Deliver [x00; x00; x00; n2b (d + 1)] payload.
Proof. exact star_hop_incremented. Qed.
Print Assumptions C08_star_hop_incremented.

Theorem C08_star_send_exact : forall (cooked : bool) s t c hdr body,
  b_closed s = false ->
  let h := if cooked then [x00; x00; x00; x00] else hdr in
  length h = 4%nat ->
  snd (b_step true cooked s (SCall t (CSend c hdr body))) = map (otx (h, body)) (filter idle (b_pipes s)) ++ [ORet t ROk].
Proof. exact star_send_exact. Qed.
Print Assumptions C08_star_send_exact.

(* the one copy that goes up is accounted for exactly once; RecvMsg hands messages out oldest first *)
Theorem C08_up_once : forall view p m rq cap br rxw,
  let '(rq', br', w', o) := up_arrive view p m rq cap br rxw in
  (exists b, br = b :: br' /\ o = [ORet (br_t b) (view m)] /\ rq' = rq /\ w' = rxw) \/
  (br = [] /\ o = [] /\ rq' = rq ++ [m] /\ w' = rxw) \/
  (br = [] /\ o = [] /\ rq' = rq /\ w' = rxw ++ [(p, m)]).
Proof. exact up_arrive_once. Qed.
Print Assumptions C08_up_once.

Theorem C08_recv_fifo : forall rq rxw m q w,
  up_take rq rxw = Some (m, q, w) -> m :: q ++ map snd w = rq ++ map snd rxw.
Proof. exact up_take_fifo. Qed.
Print Assumptions C08_recv_fifo.

(* ---- a loop-free network of STAR sockets: for EVERY finite tree rooted at the sender and every TTL (1..255) at
   least its height, the deliveries are exactly one per member other than the origin, payload unchanged ---- *)
Theorem C08_star_tree_flood : forall ttl payload t,
  0 < ttl < 256 -> height t <= ttl ->
  originate ttl payload t = map (fun i => (i, payload)) (flat_map ids (kids t)).
Proof. exact star_tree_flood. Qed.
Print Assumptions C08_star_tree_flood.

Theorem C08_star_tree_once : forall (ttl : N) (payload : bytes) (t : tree),
  (0 < ttl < 256) -> (height t <= ttl) -> NoDup (ids t) ->
  (forall i, In i (ids t) -> i <> root t -> count_occ N.eq_dec (map fst (originate ttl payload t)) i = 1%nat) /\
  ~ In (root t) (map fst (originate ttl payload t)) /\
  (forall i b, In (i, b) (originate ttl payload t) -> b = payload).
Proof. exact star_tree_once. Qed.
Print Assumptions C08_star_tree_once.

(* the limit is tight *)
Theorem C08_star_tree_ttl_tight :
  originate 1 [x41] (Node 1 [Node 2 [Node 3 []]]) = [(2, [x41])] /\
  originate 2 [x41] (Node 1 [Node 2 [Node 3 []]]) = [(2, [x41]); (3, [x41])].
Proof. exact star_tree_ttl_tight. Qed.
Print Assumptions C08_star_tree_ttl_tight.
