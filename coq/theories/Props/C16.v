(* C16 -- a hostile or broken peer cannot crash, stall or pollute a socket.  Statements only. *)
From MV Require Import Lib.Bytes Model.Hops Model.Wire Proofs.WireProofs Proofs.HopsProofs.
From MV Require Import Model.Handshaker Proofs.HandshakerProofs.
Open Scope N_scope.

(* for ALL byte strings: the stream reader never indexes out of range and never runs out of fuel *)
Theorem C16_parse_never_crashes : forall p ipc maxrx s, pool_ok p = true ->
  status (parse_stream p ipc maxrx s) <> Crash /\ status (parse_stream p ipc maxrx s) <> OutOfFuel.
Proof.
  intros p ipc maxrx s H. split; [apply parse_no_crash; exact H|].
  apply parse_fuel_enough. apply Nat.lt_succ_diag_r.
Qed.
Print Assumptions C16_parse_never_crashes.

(* a frame announcing a negative length, or more than a positive limit, ends the connection at once:
   nothing of it or after it is delivered and NOTHING is allocated or read for it *)
Theorem C16_too_long_dropped : forall f p (ipc : bool) maxrx lb (pre : bytes) rest,
  length lb = 8%nat -> (if ipc then length pre = 1%nat else pre = []) ->
  (2 ^ 63 <= be_dec lb \/ (0 < maxrx /\ maxrx < be_dec lb)) ->
  parse (S f) p ipc maxrx (pre ++ lb ++ rest) = {| delivered := []; status := TooLong; allocs := [] |}.
Proof. exact parse_too_long. Qed.
Print Assumptions C16_too_long_dropped.

(* nothing beyond what a well-formed in-limit frame dictates is ever delivered, for ALL byte strings *)
Theorem C16_nothing_extra : forall p ipc maxrx fuel s,
  exists rest, framed ipc (delivered (parse fuel p ipc maxrx s)) s rest /\
    Forall (fun m => blen m < 2 ^ 63 /\ within maxrx (blen m) = true) (delivered (parse fuel p ipc maxrx s)).
Proof. exact parse_sound. Qed.
Print Assumptions C16_nothing_extra.

(* any handshake other than the exact expected header is refused *)
Theorem C16_bad_handshake_refused : forall p b, p < 65536 -> b <> hs_header p -> hs_check p b <> HsOk.
Proof. intros p b Hp Hb H. apply Hb. apply hs_check_ok_iff; assumption. Qed.
Print Assumptions C16_bad_handshake_refused.

(* every pattern's receive filter is total on ALL bodies, and what the backtrace receivers deliver has a
   well-formed header (given prefix, words with top bit clear, one word with the top bit set) and
   header ++ body = prefix ++ original body *)
Theorem C16_rx_total : forall r ttl pid body, rx_model r ttl pid body <> None.
Proof. exact rx_model_total. Qed.
Print Assumptions C16_rx_total.

Theorem C16_rx_sound : forall c ttl fuel hops hdr body h b,
  bt_loop fuel c ttl hops hdr body = Some (Deliver h b) ->
  exists ws w, h = hdr ++ concat ws ++ w /\ Forall low_word ws /\ high_word w /\ body = concat ws ++ w ++ b.
Proof. exact bt_loop_sound. Qed.
Print Assumptions C16_rx_sound.

Example C16_ex :
  status (parse_stream std_pool false 1048576 (unhex "ffffffffffffffff00")) = TooLong /\
  status (parse_stream std_pool false 1048576 (unhex "000000000010000100")) = TooLong /\
  delivered (parse_stream std_pool false 1048576 (unhex "0000000000000002aabb00000000")) = [unhex "aabb"] /\
  status (parse_stream std_pool false 1048576 (unhex "0000000000000002aabb00000000")) = Truncated.
Proof. vm_compute. auto. Qed.

(* ---- a peer that never completes its handshake does not delay the others (Model/Handshaker.v): whatever is stalled
   in the work queue, a handshake that completes is the very next thing Wait returns ---- *)
Theorem C16_stalled_handshake_delays_nobody : forall s c, h_closed s = false -> h_done s = [] -> nmem c (h_work s) = true ->
  snd (hstep (fst (hstep s (HFinish c true))) HWait) = WPipe c /\
  snd (hstep (fst (hstep s (HFinish c false))) HWait) = WFail.
Proof. exact stalled_peers_do_not_delay. Qed.
Print Assumptions C16_stalled_handshake_delays_nobody.
