(* C02 -- PAIR and PUSH/PULL deliver each message exactly once, in order.  Statements only.
   Model/PairPush.v: deterministic machines for PAIR (xpair/xpair1/pair/pair1), PUSH (xpush/push), PULL (xpull/pull);
   one step = one stimulus plus everything the library's goroutines do until quiescence.  `pa_hist`/`pu_hist` run a
   whole history; `txs_of` lists the messages written to pipes in writing order; `ppend`/`pupend` is what is queued
   (buffer, then the blocked Send calls in blocking order); `sub a b`: a is an order-preserving subsequence of b. *)
From MV Require Import Model.PairPush Model.PairPushOracle Proofs.PairPushProofs.
From MV Require Model.RaceCfg Model.SplitCs Proofs.SplitCsSound.
From MV Require Import Model.Wakeup Proofs.WakeupProofs.
Open Scope N_scope.

(* ---- PAIR has at most one peer ---- *)
(* an attach while a peer is connected is refused with ErrProtoState and changes NOTHING (no field of the state) *)
Theorem C02_pair_single_peer : forall v1 cooked s q p,
  pa_closed s = false -> pa_peer s = Some q ->
  pa_step v1 cooked s (SAddPipe p) = (s, [ORet (attach_key p) (RErr EProtoState)]).
Proof. exact pair_second_peer_refused. Qed.
Print Assumptions C02_pair_single_peer.

Theorem C02_pair_peer_gone : forall v1 cooked s q,
  pa_peer s = Some q -> pa_peer (fst (pa_step v1 cooked s (SDropPipe q))) = None.
Proof. exact pair_peer_gone. Qed.
Print Assumptions C02_pair_peer_gone.

(* once the peer has gone the next attach succeeds (no refusal is observed) *)
Theorem C02_pair_next_peer_accepted : forall v1 cooked s p,
  pa_closed s = false -> pa_peer s = None ->
  pa_peer (fst (pa_step v1 cooked s (SAddPipe p))) = Some p /\
  refusal p (snd (pa_step v1 cooked s (SAddPipe p))) = None.
Proof. exact pair_next_peer_accepted. Qed.
Print Assumptions C02_pair_next_peer_accepted.

(* ---- PAIR: nothing invented, duplicated or reordered, for ALL histories (any number of concurrent Send calls, queue
   lengths incl. 0, resizes, peer changes, deadlines, best effort, close) ---- *)
Theorem C02_pair_fifo : forall v1 cooked h,
  sub (txs_of (snd (pa_hist v1 cooked pair0 h))) (flat_map (pa_incoming v1 cooked) h).
Proof. exact pair_fifo. Qed.
Print Assumptions C02_pair_fifo.

Theorem C02_pair_fifo_from : forall v1 cooked h s,
  let '(s', o) := pa_hist v1 cooked s h in
  sub (txs_of o ++ ppend s') (ppend s ++ flat_map (pa_incoming v1 cooked) h).
Proof. exact pair_fifo_from. Qed.
Print Assumptions C02_pair_fifo_from.

(* ---- PAIR: exactly once.  While sends block, the socket stays open and options are left alone (any sequence of
   Send, Recv, peer connect/disconnect, deliveries, held/released/failed transport sends) every accepted message is
   either written -- once, in order -- or still queued: written ++ queued = queued before ++ sent, as lists ---- *)
Theorem C02_pair_exactly_once : forall v1 cooked h s,
  forallb pa_quiet h = true -> pa_best s = false -> pa_closed s = false ->
  let '(s', o) := pa_hist v1 cooked s h in
  txs_of o ++ ppend s' = ppend s ++ flat_map (pa_incoming v1 cooked) h.
Proof. exact pair_exactly_once. Qed.
Print Assumptions C02_pair_exactly_once.

(* ---- PUSH: every accepted message is written to exactly one pipe at most once, in send order, for ALL histories ---- *)
Theorem C02_push_once : forall h, sub (txs_of (snd (pu_hist push0 h))) (flat_map pu_incoming h).
Proof. exact push_once. Qed.
Print Assumptions C02_push_once.

Theorem C02_push_per_pipe_order : forall h p, sub (txs_on p (snd (pu_hist push0 h))) (flat_map pu_incoming h).
Proof. exact push_per_pipe_order. Qed.
Print Assumptions C02_push_per_pipe_order.

(* the scheduler: one message per ready pipe, taken from the head of readyQ, the pipe leaves readyQ; nothing is lost in
   a sweep *)
Theorem C02_push_sweep : forall cap ready sq bs,
  let '(q, b, rd, st, o) := pu_sweep cap sq bs ready in
  txs_of o ++ pending q b = pending sq bs /\ ready = st ++ rd /\ length (txs_of o) = length st.
Proof. exact pu_sweep_conserve. Qed.
Print Assumptions C02_push_sweep.

Theorem C02_push_sweep_pipes : forall cap ready sq bs,
  let '(q, b, rd, st, o) := pu_sweep cap sq bs ready in tx_pipes o = st /\ ready = st ++ rd.
Proof. exact push_sweep_pipes. Qed.
Print Assumptions C02_push_sweep_pipes.

(* ---- Send progress ("Send completes whenever a connected peer is able to take the message, for every accepted
   queue-length setting") ---- *)
(* holds for WRITEQ-LEN >= 1 ... *)
Theorem C02_push_send_progress_partial : forall s t c hdr body p rd,
  pu_closed s = false -> pu_best s = false -> (pu_fnp s && is_nil (pu_pipes s)) = false ->
  1 <= pu_sqlen s -> pu_sq s = [] -> pu_bs s = [] -> pu_ready s = p :: rd ->
  let '(s', o) := pu_step s (SCall t (CSend c hdr body)) in
  o = [ORet t ROk; OTx p hdr body] /\ pu_blocked s' = [].
Proof. exact push_send_progress_partial. Qed.
Print Assumptions C02_push_send_progress_partial.

(* ... and is REFUTED for WRITEQ-LEN = 0 (a value SetOption accepts): the code as it is (xpush.go sender():
   `len(s.sendQ) == 0` is always true for an unbuffered channel) never hands a message to any pipe.  On the witness
   history (WRITEQ-LEN 0; one connected, idle peer; Send) the oracle flags the blocked Send at step 3 ... *)
Theorem C02_push_send_progress_refuted : c02_progress_q0 (pp_trace PP0 (push_q0_witness 0)) = Some 3.
Proof. exact push_send_progress_refuted. Qed.
Print Assumptions C02_push_send_progress_refuted.

(* ... and in EVERY open state with WRITEQ-LEN 0, whatever pipes are ready, a blocking Send stays blocked *)
Theorem C02_push_q0_send_blocks : forall s t c hdr body,
  pu_closed s = false -> pu_best s = false -> (pu_fnp s && is_nil (pu_pipes s)) = false ->
  pu_sqlen s = 0 -> pu_sq s = [] ->
  let '(s', o) := pu_step s (SCall t (CSend c hdr body)) in
  o = [] /\ In t (pu_blocked s') /\ pu_ready s' = pu_ready s.
Proof. exact push_q0_send_blocks. Qed.
Print Assumptions C02_push_q0_send_blocks.

(* the same history with WRITEQ-LEN 1 passes both progress oracles *)
Theorem C02_push_send_progress_q1 :
  c02_progress_q0 (pp_trace PP0 (push_q0_witness 1)) = None /\ c02_progress (pp_trace PP0 (push_q0_witness 1)) = None.
Proof. exact push_send_progress_q1. Qed.
Print Assumptions C02_push_send_progress_q1.

(* ---- the receive side (PAIR, PULL): a delivered message is accounted for exactly once; RecvMsg hands out oldest first ---- *)
Theorem C02_recv_once : forall view p m rq cap br rxw,
  let '(rq', br', w', o) := up_arrive view p m rq cap br rxw in
  (exists b, br = b :: br' /\ o = [ORet (br_t b) (view m)] /\ rq' = rq /\ w' = rxw) \/
  (br = [] /\ o = [] /\ rq' = rq ++ [m] /\ w' = rxw) \/
  (br = [] /\ o = [] /\ rq' = rq /\ w' = rxw ++ [(p, m)]).
Proof. exact up_arrive_once. Qed.
Print Assumptions C02_recv_once.

Theorem C02_recv_fifo : forall rq rxw m q w,
  up_take rq rxw = Some (m, q, w) -> m :: q ++ map snd w = rq ++ map snd rxw.
Proof. exact up_take_fifo. Qed.
Print Assumptions C02_recv_fifo.

(* ---- inside PUSH's Send: the hand-over to the forwarding goroutine (Model/Wakeup.v).  The histories above take one
   API call at a time; this is about ANY number of goroutines calling Send at once.  SendMsg enqueues outside the mutex
   and then signals the condition variable unconditionally (re-checked on the source on every run: generated obligation
   C02_gen_push_signal_unconditional).  For every interleaving of enqueues, signals, passes of the forwarding goroutine
   and transmissions finishing, the goroutine is never asleep with a message queued and a pipe ready unless a caller is
   about to signal it -- and from every such state the message does move on. ---- *)
Theorem C02_push_no_lost_wakeup : forall cap pipes es s, wrun false (winit cap pipes) es = Some s -> lost s = false.
Proof. exact no_lost_wakeup. Qed.
Print Assumptions C02_push_no_lost_wakeup.

Theorem C02_push_queued_message_moves : forall cap pipes es s, wrun false (winit cap pipes) es = Some s ->
  0 < w_q s -> 0 < w_ready s ->
  exists es' s', wrun false s es' = Some s' /\ w_q s' = w_q s - 1 /\ w_infl s' = w_infl s + 1.
Proof. exact queued_message_moves. Qed.
Print Assumptions C02_push_queued_message_moves.

(* the variant "signal only if the queue holds at most one message" (seeded twice: it compiles and passes the test-suite)
   loses the wake-up for ever: the witness is two simultaneous Sends on an idle socket *)
Theorem C02_push_conditional_signal_refuted :
  exists es s, wrun true (winit 8 1) es = Some s /\ lost s = true /\
               (forall es' s', wrun true s es' = Some s' -> w_sender s' = Waiting /\ w_infl s' = 0 /\ 2 <= w_q s' /\ 0 < w_ready s').
Proof. exact conditional_signal_refuted. Qed.
Print Assumptions C02_push_conditional_signal_refuted.

(* ---- PAIR has one peer also when two connections attach at the same instant: the generated obligation
   C02_gen_attach_check_and_store_atomic evaluates the check-then-act analysis (Model/SplitCs.v) on xpair / xpair1 /
   xpush / xpull; for a function that passes, no path writes a field (the peer) on a reading made in an earlier
   critical section ---- *)
Theorem C02_check_then_act_all_paths : forall f entry, SplitCs.sp_func_ok f entry = true ->
  forall p, SplitCsSound.sp_valid f 0 p = true -> SplitCsSound.sp_path f 0 (SplitCs.s0 entry) p = [].
Proof. exact SplitCsSound.split_sound. Qed.
Print Assumptions C02_check_then_act_all_paths.
