(* C07 -- SURVEYOR delivers only responses to its current, unexpired survey.  Statements only.
   The model (Model/Survey.v) is a deterministic machine over histories of stimuli; `survey_model false` follows the code
   as found, `survey_model true` the documented meaning of SURVEY-TIME 0.  `reachable fixed s`: s is the model's state after
   some history (any list of stimuli) from the initial state. *)
From MV Require Import Lib.Proto Model.Survey Model.SurveyOracle Proofs.SurveyProofs.
Open Scope N_scope.

(* (a) a response whose id is not a registered survey -- stale, foreign, other than any context's current survey, without
   the survey bit, shorter than 4 bytes -- is dropped with no effect at all, in every state *)
Theorem C07_unmatched_response_dropped : forall s body,
  wire_id body = None \/ (exists id, wire_id body = Some id /\ aget id (survs s) = None) ->
  pipe_recv s body = s.
Proof. exact pipe_recv_unmatched. Qed.
Print Assumptions C07_unmatched_response_dropped.

Theorem C07_short_body_not_an_id : forall body, (length body < 4)%nat -> wire_id body = None.
Proof. exact wire_id_short. Qed.
Print Assumptions C07_short_body_not_an_id.

Theorem C07_unmarked_id_not_an_id : forall a b c d r, be_dec [a; b; c; d] < 2 ^ 31 -> wire_id (a :: b :: c :: d :: r) = None.
Proof. exact wire_id_nobit. Qed.
Print Assumptions C07_unmarked_id_not_an_id.

(* (b) a response with a registered id touches only the survey registered under that id: it is appended to that survey's
   queue, or handed to a Recv blocked on that very survey; no context and no other survey changes *)
Theorem C07_response_goes_to_its_survey : forall s body id v,
  wire_id body = Some id -> aget id (survs s) = Some v ->
  ctxs (pipe_recv s body) = ctxs s /\
  (forall id', id' <> id -> aget id' (survs (pipe_recv s body)) = aget id' (survs s)) /\
  (aget id (survs (pipe_recv s body)) = Some v \/
   aget id (survs (pipe_recv s body)) = Some (v_with_q v (v_q v ++ [split4 body]))) /\
  (out (pipe_recv s body) = out s \/
   exists th, In th (threads s) /\ th_id th = id /\
              out (pipe_recv s body) = ORet (th_t th) (RMsg (fst (split4 body)) (snd (split4 body))) :: out s).
Proof. exact pipe_recv_matched. Qed.
Print Assumptions C07_response_goes_to_its_survey.

(* (c) starting a new survey unregisters the context's previous one ... *)
Theorem C07_new_survey_unregisters_previous : forall fixed s t c h body x k,
  aget c (ctxs s) = Some x -> sclosed s = false -> x_closed x = false -> x_surv x = Some k ->
  aget k (survs (do_call fixed s t (CSend c h body))) = None.
Proof. exact send_unregisters_previous. Qed.
Print Assumptions C07_new_survey_unregisters_previous.

(* ... so its late responses are dropped without effect *)
Theorem C07_late_response_dropped : forall fixed s t c h body x k payload,
  aget c (ctxs s) = Some x -> sclosed s = false -> x_closed x = false -> x_surv x = Some k -> k < 2 ^ 31 ->
  let s' := do_call fixed s t (CSend c h body) in
  pipe_recv s' (surv_hdr k ++ payload) = s'.
Proof. exact late_response_dropped. Qed.
Print Assumptions C07_late_response_dropped.

(* (d) the broadcast over ANY pipe list: one transmission, identical bytes, per pipe whose sender is idle ... *)
Theorem C07_broadcast_once_per_idle_pipe : forall h b l,
  snd (bcast h b l) = map (fun pp => OTx (pp_id pp) h b) (filter idle l).
Proof. exact bcast_tx. Qed.
Print Assumptions C07_broadcast_once_per_idle_pipe.

Theorem C07_broadcast_same_bytes : forall h b l, Forall (fun o => exists p, o = OTx p h b) (snd (bcast h b l)).
Proof. exact bcast_same_bytes. Qed.
Print Assumptions C07_broadcast_same_bytes.

(* ... every pipe is offered the message, and a pipe whose sender is stuck queues it iff its queue has room *)
Theorem C07_broadcast_offers_every_pipe : forall h b l, fst (bcast h b l) = map (fun pp => fst (push1 h b pp)) l.
Proof. exact bcast_pipes. Qed.
Print Assumptions C07_broadcast_offers_every_pipe.

Theorem C07_broadcast_queue_space : forall h b pp,
  pp_q (fst (push1 h b pp)) = if pp_busy pp && (nlen (pp_q pp) <? pp_cap pp) then pp_q pp ++ [(h, b)] else pp_q pp.
Proof. exact push1_queue. Qed.
Print Assumptions C07_broadcast_queue_space.

(* the SendMsg step as a whole transmits exactly that: header = the new id, the caller's body *)
Theorem C07_send_transmits : forall fixed s t c h body x,
  aget c (ctxs s) = Some x -> sclosed s = false -> x_closed x = false ->
  filter is_tx (out (do_call fixed s t (CSend c h body))) =
  rev (map (fun pp => OTx (pp_id pp) (surv_hdr (nsend s + 1)) body) (filter idle (pipes s))) ++ filter is_tx (out s).
Proof. exact send_transmits. Qed.
Print Assumptions C07_send_transmits.

(* (e) Recv with no survey in progress: protocol-state error in the same step, nobody becomes blocked *)
Theorem C07_recv_no_survey : forall fixed s t c x,
  aget c (ctxs s) = Some x -> sclosed s = false -> x_surv x = None ->
  do_call fixed s t (CRecv c) = emit s (ORet t (RErr EProtoState)).
Proof. exact recv_without_survey. Qed.
Print Assumptions C07_recv_no_survey.

Theorem C07_recv_no_survey_not_blocked : forall fixed s t c x,
  aget c (ctxs s) = Some x -> sclosed s = false -> x_surv x = None ->
  blocked (do_call fixed s t (CRecv c)) = blocked s.
Proof. exact recv_without_survey_blocked. Qed.
Print Assumptions C07_recv_no_survey_not_blocked.

(* over ALL histories: every blocked Recv waits on its context's current, registered survey; queued responses carry the id
   of the survey whose queue they are in; registered ids were issued *)
Theorem C07_invariant_all_histories : forall fixed s, reachable fixed s -> Inv s.
Proof. exact reachable_Inv. Qed.
Print Assumptions C07_invariant_all_histories.

(* over ALL histories: a message returned to the application by any step carries the id of the current, registered survey
   of the context the receiving call belongs to *)
Theorem C07_returns_only_current_all_histories : forall fixed s st t h b,
  reachable fixed s -> In (ORet t (RMsg h b)) (snd (step fixed s st)) -> current_response s st t h.
Proof. exact model_returns_only_current. Qed.
Print Assumptions C07_returns_only_current_all_histories.

(* The code as found violates "SURVEY-TIME 0 = no expiry" (options.go): SetOption(SURVEY-TIME, 0); Send; Recv -> ErrProtoState.
   The faithful model shows it, the model of the documented behaviour does not. *)
Theorem C07_zero_survey_time_refuted : c07_zero (model_trace false init zero_hist) = Some 3.
Proof. exact zero_time_code. Qed.
Print Assumptions C07_zero_survey_time_refuted.

Theorem C07_zero_survey_time_documented : c07_zero (model_trace true init zero_hist) = None.
Proof. exact zero_time_documented. Qed.
Print Assumptions C07_zero_survey_time_documented.

(* the oracles accept the model's own trace on a history exercising every clause of the property *)
Theorem C07_oracles_accept_model_sample :
  map (fun o => o (model_trace false init sample_hist)) [c07_resp; c07_state; c07_early; c07_zero; c07_bcast] = [None; None; None; None; None].
Proof. exact sample_accepted. Qed.
Print Assumptions C07_oracles_accept_model_sample.

Theorem C07_raw_oracles_accept_model_sample : map (fun o => o (xmodel_trace rinit xsample_hist)) [x07_bcast; x07_recv] = [None; None].
Proof. exact xsample_accepted. Qed.
Print Assumptions C07_raw_oracles_accept_model_sample.
