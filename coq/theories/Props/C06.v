(* C06 -- SUB delivers exactly the matching messages; PUB reaches every subscriber.  Statements only.
   Models: Model/PubSub.v (cooked SUB with contexts `sstate`, raw XSUB `xstate`, PUB/XPUB `pstate`); one step
   = one stimulus and everything the library's goroutines then do until quiescence.  `sb_run fixed sb_init h` is the
   state of a SUB socket after the history h; fixed = true is the repaired sub.go (READQ-LEN >= 0 enforced, the receiver
   never blocks under the socket lock), fixed = false the code as found.  The check ties the code to fixed = true. *)
From MV Require Import Lib.Proto Model.PubSub Model.PubSubOracle Proofs.PubSubProofs.
Open Scope N_scope.

(* matching is "some current subscription is a prefix of the body", for all byte strings *)
Theorem C06_matches_prefix : forall subs body,
  matches subs body = true <-> exists t r, In t subs /\ body = t ++ r.
Proof. exact matches_spec. Qed.
Print Assumptions C06_matches_prefix.

Theorem C06_no_subscription_matches_nothing : forall body, matches [] body = false.
Proof. exact matches_none. Qed.
Print Assumptions C06_no_subscription_matches_nothing.

Theorem C06_empty_subscription_matches_all : forall subs body, In [] subs -> matches subs body = true.
Proof. exact matches_empty_topic. Qed.
Print Assumptions C06_empty_subscription_matches_all.

(* sub_iff: in ANY state, an arriving message is enqueued for context c (dropping c's oldest message when c's
   queue is full) iff a current subscription of c is a prefix of its body; otherwise c is untouched *)
Theorem C06_sub_iff : forall fixed s p body c x,
  pipe_up (sb_pipes s) p = true -> sb_wedged s = false ->
  kget c (sb_ctxs s) = Some x -> x_closed x = false ->
  blocked_on (sb_threads s) c = [] -> 0 < x_qlen x ->
  ((exists t r, In t (x_subs x) /\ body = t ++ r) ->
     kget c (sb_ctxs (fst (sb_step fixed s (SDeliver p body)))) = Some (push x body)) /\
  (~ (exists t r, In t (x_subs x) /\ body = t ++ r) ->
     kget c (sb_ctxs (fst (sb_step fixed s (SDeliver p body)))) = Some x).
Proof. exact sub_iff. Qed.
Print Assumptions C06_sub_iff.

(* ... and a Recv parked on c returns the arriving message, unmodified, iff it matches; c's queue stays as it was *)
Theorem C06_sub_iff_parked : forall fixed s p body c x th,
  pipe_up (sb_pipes s) p = true -> sb_wedged s = false ->
  NoDup (map fst (sb_ctxs s)) -> NoDup (map th_id (sb_threads s)) ->
  kget c (sb_ctxs s) = Some x -> x_closed x = false ->
  blocked_on (sb_threads s) c = [th] ->
  (In (ORet (th_id th) (RMsg [] body)) (snd (sb_step fixed s (SDeliver p body))) <-> exists t r, In t (x_subs x) /\ body = t ++ r)
  /\ kget c (sb_ctxs (fst (sb_step fixed s (SDeliver p body)))) = Some x.
Proof. exact sub_iff_parked. Qed.
Print Assumptions C06_sub_iff_parked.

(* unsub_purges: when Unsubscribe returns, c's queue is `filter matches old` for the remaining subscriptions:
   nothing that no longer matches is left, what still matches keeps its relative order *)
Theorem C06_unsub_purges : forall fixed s t c v topic x,
  sb_wedged s = false -> kget c (sb_ctxs s) = Some x -> In topic (x_subs x) ->
  exists x', kget c (sb_ctxs (fst (sb_step fixed s (SCall t (CSetOpt c OUnsubscribe v topic))))) = Some x' /\
             x_subs x' = remove1 topic (x_subs x) /\
             x_q x' = filter (matches (x_subs x')) (x_q x) /\
             (forall m, In m (x_q x') -> matches (x_subs x') m = true) /\
             snd (sb_step fixed s (SCall t (CSetOpt c OUnsubscribe v topic))) = [ORet t ROk].
Proof. exact unsub_purges. Qed.
Print Assumptions C06_unsub_purges.

Theorem C06_unsub_absent : forall fixed s t c v topic x,
  sb_wedged s = false -> kget c (sb_ctxs s) = Some x -> ~ In topic (x_subs x) ->
  sb_ctxs (fst (sb_step fixed s (SCall t (CSetOpt c OUnsubscribe v topic)))) = sb_ctxs s /\
  snd (sb_step fixed s (SCall t (CSetOpt c OUnsubscribe v topic))) = [ORet t (RErr EBadValue)].
Proof. exact unsub_absent. Qed.
Print Assumptions C06_unsub_absent.

(* ctx_independent: any call on context c' (Recv, Subscribe, Unsubscribe, READQ-LEN, RECV-DEADLINE, open, close)
   leaves every other context's record (subscriptions, queue, length, flags) and parked calls unchanged ... *)
Theorem C06_ctx_independent : forall fixed s t k c c',
  call_ctx k = Some c' -> c <> c' ->
  kget c (sb_ctxs (fst (sb_step fixed s (SCall t k)))) = kget c (sb_ctxs s) /\
  blocked_on (sb_threads (fst (sb_step fixed s (SCall t k)))) c = blocked_on (sb_threads s) c.
Proof. exact ctx_independent. Qed.
Print Assumptions C06_ctx_independent.

(* ... and what an arrival does to c is a function of c's own record and c's own parked calls *)
Theorem C06_deliver_local : forall fixed s p body c,
  pipe_up (sb_pipes s) p = true -> sb_wedged s = false ->
  kget c (sb_ctxs (fst (sb_step fixed s (SDeliver p body)))) =
  match kget c (sb_ctxs s) with Some x => Some (snd (dl_ctx (sb_threads s) body (c, x))) | None => None end.
Proof. exact deliver_local. Qed.
Print Assumptions C06_deliver_local.

(* for ALL histories: every message queued on any context matches that context's subscriptions in force *)
Theorem C06_queues_match_always : forall fixed h, sub_inv (sb_run fixed sb_init h).
Proof. exact sub_inv_always. Qed.
Print Assumptions C06_queues_match_always.

Theorem C06_recv_returns_matching : forall fixed h t c x m q',
  let s := sb_run fixed sb_init h in
  kget c (sb_ctxs s) = Some x -> x_q x = m :: q' -> x_closed x = false -> sb_wedged s = false ->
  snd (sb_step fixed s (SCall t (CRecv c))) = [ORet t (RMsg [] m)] /\ matches (x_subs x) m = true.
Proof. exact recv_returns_matching. Qed.
Print Assumptions C06_recv_returns_matching.

(* pub_all: a Send on an open PUB socket returns nil, hands the unmodified message to the transport of every
   attached pipe whose sender is idle, queues it on every attached pipe with room, and transmits nothing else *)
Theorem C06_pub_all : forall s t c h b pp,
  pb_closed s = false -> In pp (pb_pipes s) -> pp_alive pp = true ->
  In (ORet t ROk) (snd (pb_step s (SCall t (CSend c h b)))) /\
  (pp_busy pp = false -> In (OTx (pp_id pp) h b) (snd (pb_step s (SCall t (CSend c h b))))) /\
  (pp_busy pp = true -> qlen (pp_q pp) < pp_cap pp ->
     In (pp_with pp true (pp_hold pp) true (pp_q pp ++ [(h, b)])) (pb_pipes (fst (pb_step s (SCall t (CSend c h b)))))) /\
  (forall q h' b', In (OTx q h' b') (snd (pb_step s (SCall t (CSend c h b)))) ->
     h' = h /\ b' = b /\ exists pq, In pq (pb_pipes s) /\ pp_id pq = q /\ pp_alive pq = true).
Proof. exact pub_all. Qed.
Print Assumptions C06_pub_all.

Theorem C06_pub_full_drops_newest : forall s t c h b pp,
  pb_closed s = false -> In pp (pb_pipes s) -> pp_alive pp = true -> pp_busy pp = true -> pp_cap pp <= qlen (pp_q pp) ->
  In pp (pb_pipes (fst (pb_step s (SCall t (CSend c h b))))).
Proof. exact pub_full_drops_newest. Qed.
Print Assumptions C06_pub_full_drops_newest.

(* The code as found (fixed = false) did not meet the property for two accepted option values:
   READQ-LEN 0 on a SUB context: a matching message that finds no Recv parked blocked the receiver goroutine in
   `c.recvQ <- m` with the socket lock held; the message was never delivered and every later Recv, SetOption, Close,
   OpenContext parked on the mutex for ever.  READQ-LEN < 0: SetOption panicked in make(chan).
   Both were reproduced on the implementation, repaired, and the repaired model (fixed = true) is what the check uses. *)
Theorem C06_readqlen_zero_old_refuted : forall s p body c x,
  pipe_up (sb_pipes s) p = true -> sb_wedged s = false ->
  kget c (sb_ctxs s) = Some x -> x_closed x = false -> x_qlen x = 0 ->
  blocked_on (sb_threads s) c = [] -> matches (x_subs x) body = true ->
  sb_wedged (fst (sb_step false s (SDeliver p body))) = true.
Proof. exact readqlen_zero_wedges. Qed.
Print Assumptions C06_readqlen_zero_old_refuted.

Theorem C06_wedged_blocks : forall fixed s t k,
  sb_wedged s = true -> sb_locks k = true ->
  snd (sb_step fixed s (SCall t k)) = [] /\ In t (sb_blocked (fst (sb_step fixed s (SCall t k)))) /\
  sb_wedged (fst (sb_step fixed s (SCall t k))) = true.
Proof. exact wedged_blocks. Qed.
Print Assumptions C06_wedged_blocks.

Theorem C06_readqlen_zero_old_witness :
  map (fun r => snd r) (u_trace false U0 wedge_history) = [[]; []; []; []; []; [3]; [3; 4]].
Proof. exact wedge_history_old. Qed.
Print Assumptions C06_readqlen_zero_old_witness.

Theorem C06_readqlen_negative_old_refuted : forall s t c x v arg,
  kget c (sb_ctxs s) = Some x -> (v < 0)%Z ->
  snd (sb_step false s (SCall t (CSetOpt c OReadQLen v arg))) = [ORet t (RErr EPanic)].
Proof. exact readqlen_negative_panics. Qed.
Print Assumptions C06_readqlen_negative_old_refuted.

Theorem C06_readqlen_negative_old_witness : c06_panic_oracle (u_trace false U0 panic_history) = Some 1.
Proof. exact panic_history_old. Qed.
Print Assumptions C06_readqlen_negative_old_witness.

(* The repaired code: for ALL histories (any READQ-LEN values, any arrivals) the socket is never wedged and no call
   is ever parked on its mutex *)
Theorem C06_fixed_never_wedges : forall h, unwedged (sb_run true sb_init h).
Proof. exact fixed_never_wedges. Qed.
Print Assumptions C06_fixed_never_wedges.

(* READQ-LEN 0: a matching message that no parked Recv takes is dropped, the context and socket stay as they were *)
Theorem C06_readqlen_zero_drops : forall s p body c x,
  pipe_up (sb_pipes s) p = true -> sb_wedged s = false ->
  kget c (sb_ctxs s) = Some x -> x_qlen x = 0 -> blocked_on (sb_threads s) c = [] ->
  kget c (sb_ctxs (fst (sb_step true s (SDeliver p body)))) = Some x /\
  sb_wedged (fst (sb_step true s (SDeliver p body))) = false.
Proof. exact readqlen_zero_drops. Qed.
Print Assumptions C06_readqlen_zero_drops.

Theorem C06_readqlen_zero_on_witness :
  map (fun r => (snd (fst r), snd r)) (u_trace true U0 wedge_history) =
  [([], []); ([], []); ([ORet 1 ROk], []); ([ORet 2 ROk], []); ([], []); ([], [3]); ([ORet 3 (RErr EClosed); ORet 4 ROk], [])].
Proof. exact wedge_history_fixed. Qed.
Print Assumptions C06_readqlen_zero_on_witness.

(* READQ-LEN < 0: ErrBadValue and an unchanged socket *)
Theorem C06_readqlen_negative_rejected : forall s t c x v arg,
  kget c (sb_ctxs s) = Some x -> (v < 0)%Z ->
  snd (sb_step true s (SCall t (CSetOpt c OReadQLen v arg))) = [ORet t (RErr EBadValue)] /\
  fst (sb_step true s (SCall t (CSetOpt c OReadQLen v arg))) = sb_emit (sb_clear s) (ORet t (RErr EBadValue)).
Proof. exact readqlen_negative_rejected. Qed.
Print Assumptions C06_readqlen_negative_rejected.

Theorem C06_readqlen_negative_on_witness : c06_panic_oracle (u_trace true U0 panic_history) = None.
Proof. exact panic_history_fixed. Qed.
Print Assumptions C06_readqlen_negative_on_witness.

(* non-vacuity: a two-context history with deliveries, a purge and a hand-over on which the oracles are silent *)
Example C06_demo :
  c06_sub_oracle (u_trace true U0 demo_history) = None /\ c06_live_oracle (u_trace true U0 demo_history) = None /\
  flat_map (fun r => snd (fst r)) (u_trace true U0 demo_history) =
    [ORet 1 ROk; ORet 2 ROk; ORet 3 ROk; ORet 4 ROk; ORet 5 ROk; ORet 6 (RMsg [] (mkb 2 24930));
     ORet 7 (RMsg [] (mkb 2 25185))].
Proof. exact demo_history_ok. Qed.
