(* C10 -- Close unblocks everything, fails later calls and releases all resources.  Statements only (more in progress). *)
From MV Require Import Model.Core Model.CoreOracle Proofs.CoreProofs.
Open Scope N_scope.

Definition c10_witness : list kstim :=
  [ KListen 1 1 false; KNewDialer 1 true 30 120; KDial 2 1; KResolve 1 DOk 1; KConnect 1 2; KHookPolicy 1; KConnect 1 3;
    KProtoRefuse true; KHookPolicy 0; KConnect 1 4; KCloseSock 3; KPass 500 ].

(* after Close: no id in use, nothing listed, no dial attempt, in the model of the repaired core *)
Theorem C10_witness_released :
  c10_oracle (kmodel_trace true true kinit c10_witness) = None /\ c14_oracle (kmodel_trace true true kinit c10_witness) = None.
Proof. vm_compute. auto. Qed.
Print Assumptions C10_witness_released.
