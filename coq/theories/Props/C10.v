(* C10 -- Close unblocks everything, fails later calls and releases all resources.  Statements only (more in progress). *)
From MV Require Import Model.Core Model.CoreOracle Proofs.CoreProofs.
From MV Require Import Model.Handshaker Proofs.HandshakerProofs.
Open Scope N_scope.

Definition c10_witness : list kstim :=
  [ KListen 1 1 false; KNewDialer 1 true 30 120; KDial 2 1; KResolve 1 DOk 1; KConnect 1 2; KHookPolicy 1; KConnect 1 3;
    KProtoRefuse true; KHookPolicy 0; KConnect 1 4; KCloseSock 3; KPass 500 ].

(* after Close: no id in use, nothing listed, no dial attempt, in the model of the repaired core *)
Theorem C10_witness_released :
  c10_oracle (kmodel_trace true true kinit c10_witness) = None /\ c14_oracle (kmodel_trace true true kinit c10_witness) = None.
Proof. vm_compute. auto. Qed.
Print Assumptions C10_witness_released.

(* ---- Close concurrent with registration (any interleaving): the static part ----
   The dynamic correspondence above works at quiescence granularity and cannot see a Close that runs between a
   caller's "closed?" check and its registration.  The translator go2race regenerates the lock skeleton of every
   function on every run; the generated obligation C10_gen_register_after_check evaluates Model/AtomCfg.atom_ok on it.
   These theorems say what an accepted skeleton guarantees, for every path of any length. *)
From MV Require Import Model.RaceCfg Model.AtomCfg Proofs.RaceSound Proofs.AtomSound.

Theorem C10_register_after_check : forall L ins rd f, rctor f = false -> afunc_ok L ins rd f = true ->
  forall p, rvalid f 0 p = true ->
  forall a b, path_instrs f 0 p = a ++ RAccess true ins :: b ->
  exists a1 a2, a = a1 ++ RAccess false rd :: a2 /\ Forall (quiet L) a2.
Proof. exact insert_after_check. Qed.
Print Assumptions C10_register_after_check.

(* ... where a call counted as "quiet" cannot reach a lock operation however deep its own calls go *)
Theorem C10_quiet_calls_never_lock : forall prog L, lcert_ok prog L = true -> forall g, reaches_lock prog g -> lk L g = true.
Proof. exact lock_free. Qed.
Print Assumptions C10_quiet_calls_never_lock.

(* EVERY history: once the socket (or a dialer) is closed no connection attempt is started for it again *)
From MV Require Import Proofs.CoreClose.
Theorem C10_no_attempt_after_close_all_histories : forall h, wf_from [] h ->
  c14_oracle (kmodel_trace true true kinit h) = None.
Proof. exact no_attempt_after_close_all_histories. Qed.
Print Assumptions C10_no_attempt_after_close_all_histories.

(* EVERY history of stimuli with fresh pipe names, at EVERY quiescent point from the Close on (h1 is any prefix that contains
   the Close, h2 whatever follows): no pipe id is in use and no pipe is listed -- whatever was attached, half attached,
   refused, being dialled or waiting for a redial timer when Close was called, and whatever connects or resolves afterwards.
   (count_ids / count_listed are what the model reports as `Ids n` / `Listed n`, which the correspondence check compares
   with the implementation's own counters at every step.) *)
From MV Require Import Proofs.CoreInv Proofs.CoreRelease.
Theorem C10_released_at_every_point_after_close : forall h1 h2, fresh_hist kinit (h1 ++ h2) -> has_close h1 = true ->
  count_ids (kfinal kinit h1) = 0 /\ count_listed (kfinal kinit h1) = 0.
Proof. exact released_at_every_point_after_close. Qed.
Print Assumptions C10_released_at_every_point_after_close.

(* the premises are satisfiable: the witness history is fresh, contains a Close, and goes on after it *)
Theorem C10_released_premise_witness : fresh_hist kinit c10_witness /\ has_close c10_witness = true.
Proof. split; [vm_compute; repeat split|reflexivity]. Qed.
Print Assumptions C10_released_premise_witness.

(* ---- the handshaker of the stream transports (Model/Handshaker.v = transport/conn.go connHandshaker; tied by
   harness/cmd/hsm): for EVERY sequence of Start / handshake completions / Wait / Close, once the handshaker is closed
   every connection that is still open is one Wait had handed to the caller before -- nothing started and not
   collected survives the Close, at any later point, whatever finishes late or is started afterwards ---- *)
Theorem C10_handshaker_close_releases : forall ops s, s = fst (hrun h0 ops) -> h_closed s = true ->
  forall c, In c (h_open s) -> In c (h_given s).
Proof. exact closed_means_released. Qed.
Print Assumptions C10_handshaker_close_releases.

Theorem C10_handshaker_start_after_close : forall s c, h_closed s = true -> h_open (fst (hstep s (HStart c))) = h_open s.
Proof. exact start_after_close. Qed.
Print Assumptions C10_handshaker_start_after_close.

Theorem C10_handshaker_invariant_all_histories : forall ops, HandshakerProofs.Inv (fst (hrun h0 ops)).
Proof. intro ops. apply inv_run. exact inv_h0. Qed.
Print Assumptions C10_handshaker_invariant_all_histories.
