(* C10 -- Close unblocks everything, fails later calls and releases all resources.  Statements only (more in progress). *)
From MV Require Import Model.Core Model.CoreOracle Proofs.CoreProofs.
Open Scope N_scope.

Definition c10_witness : list kstim :=
  [ KListen 1 1 false; KNewDialer 1 true 30 120; KDial 2 1; KResolve 1 DOk 1; KConnect 1 2; KHookPolicy 1; KConnect 1 3;
    KProtoRefuse true; KHookPolicy 0; KConnect 1 4; KCloseSock 3; KPass 500 ].

(* after Close: no id in use, nothing listed, no dial attempt, in the model of the repaired core *)
Theorem C10_witness_released :
  c10_oracle (kmodel_trace true true kinit c10_witness) = None /\ c14_oracle (kmodel_trace true true kinit c10_witness) = None.
Proof. vm_compute. auto. Qed.
Print Assumptions C10_witness_released.

(* ---- Close concurrent with registration (any interleaving): the static part ----
   The dynamic correspondence above works at quiescence granularity and cannot see a Close that runs between a
   caller's "closed?" check and its registration.  The translator go2race regenerates the lock skeleton of every
   function on every run; the generated obligation C10_gen_register_after_check evaluates Model/AtomCfg.atom_ok on it.
   These theorems say what an accepted skeleton guarantees, for every path of any length. *)
From MV Require Import Model.RaceCfg Model.AtomCfg Proofs.RaceSound Proofs.AtomSound.

Theorem C10_register_after_check : forall L ins rd f, rctor f = false -> afunc_ok L ins rd f = true ->
  forall p, rvalid f 0 p = true ->
  forall a b, path_instrs f 0 p = a ++ RAccess true ins :: b ->
  exists a1 a2, a = a1 ++ RAccess false rd :: a2 /\ Forall (quiet L) a2.
Proof. exact insert_after_check. Qed.
Print Assumptions C10_register_after_check.

(* ... where a call counted as "quiet" cannot reach a lock operation however deep its own calls go *)
Theorem C10_quiet_calls_never_lock : forall prog L, lcert_ok prog L = true -> forall g, reaches_lock prog g -> lk L g = true.
Proof. exact lock_free. Qed.
Print Assumptions C10_quiet_calls_never_lock.

(* EVERY history: once the socket (or a dialer) is closed no connection attempt is started for it again *)
From MV Require Import Proofs.CoreClose.
Theorem C10_no_attempt_after_close_all_histories : forall h, wf_from [] h ->
  c14_oracle (kmodel_trace true true kinit h) = None.
Proof. exact no_attempt_after_close_all_histories. Qed.
Print Assumptions C10_no_attempt_after_close_all_histories.
