(* C09 -- devices forward transparently and the hop limit is exact.  Statements only. *)
From MV Require Import Lib.Bytes Model.Hops Proofs.HopsProofs.
Open Scope N_scope.

(* A well-formed REQ/SURVEY message that crossed k = |ws| + 1 connections (k-1 device words with the
   top bit clear, then the request-id word with the top bit set, then the payload) is delivered iff
   k <= ttl -- for every ttl, every k, every word content and every payload; the delivered header is
   exactly the words (raw mode: preceded by the arrival pipe id) and the body exactly the payload. *)
Definition bt_receiver_exact (r : receiver) (prefix : N -> bytes) : Prop :=
  forall ttl pid payload w ws, high_word w -> Forall low_word ws ->
  rx_model r ttl pid (concat ws ++ w ++ payload) =
  Some (if N.of_nat (length ws) + 1 <=? ttl then Deliver (prefix pid ++ concat ws ++ w) payload else Drop).

Theorem C09_hop_exact_rep : bt_receiver_exact RRep (fun _ => []).
Proof. intros ttl pid payload w ws Hw Hws. exact (bt_exact rep_params ttl [] payload w ws eq_refl Hw Hws). Qed.
Print Assumptions C09_hop_exact_rep.

Theorem C09_hop_exact_xrep : bt_receiver_exact RXRep (be_enc 4).
Proof. intros ttl pid payload w ws Hw Hws. exact (bt_exact xrep_params ttl _ payload w ws eq_refl Hw Hws). Qed.
Print Assumptions C09_hop_exact_xrep.

Theorem C09_hop_exact_respondent : bt_receiver_exact RRespondent (fun _ => []).
Proof. intros ttl pid payload w ws Hw Hws. exact (bt_exact respondent_params ttl [] payload w ws eq_refl Hw Hws). Qed.
Print Assumptions C09_hop_exact_respondent.

Theorem C09_hop_exact_xrespondent : bt_receiver_exact RXRespondent (be_enc 4).
Proof.
  intros ttl pid payload w ws Hw Hws. cbn [rx_model].
  rewrite <- (bt_exact xrespondent_params ttl (be_enc 4 pid) payload w ws eq_refl Hw Hws).
  destruct Hw as (a & b & c & d & -> & _).
  destruct ws as [|w0 ws]; [reflexivity|].
  inversion Hws as [|? ? (a0 & b0 & c0 & d0 & -> & _) _]; subst. reflexivity.
Qed.
Print Assumptions C09_hop_exact_xrespondent.

(* cooked and raw agree on what is delivered and what is dropped *)
Theorem C09_cooked_raw_agree : forall ttl pid payload w ws, high_word w -> Forall low_word ws ->
  let m := concat ws ++ w ++ payload in
  option_map cooked_view (rx_model RRep ttl pid m) = option_map cooked_view (rx_model RXRep ttl pid m) /\
  option_map cooked_view (rx_model RRespondent ttl pid m) = option_map cooked_view (rx_model RXRespondent ttl pid m).
Proof.
  intros ttl pid payload w ws Hw Hws m. subst m.
  rewrite C09_hop_exact_rep, C09_hop_exact_xrep, C09_hop_exact_respondent, C09_hop_exact_xrespondent by assumption.
  destruct (N.of_nat (length ws) + 1 <=? ttl); split; reflexivity.
Qed.
Print Assumptions C09_cooked_raw_agree.

(* PAIR1 carries a hop count h (number of forwarders crossed = connections - 1): delivered iff h <= ttl
   (one more connection than the others) and h < 255; the count is incremented on delivery *)
Theorem C09_pair1_exact : forall ttl h payload, ttl < 256 -> h < 2 ^ 32 ->
  rx_model RXPair1 ttl 0 (be_enc 4 h ++ payload) =
  Some (if (h <=? ttl) && (h <? 255) then Deliver (firstn 3 (be_enc 4 h) ++ [n2b (h + 1)]) payload else Drop).
Proof. intros. cbn [rx_model]. f_equal. apply rx_xpair1_exact; assumption. Qed.
Print Assumptions C09_pair1_exact.

(* STAR: a message whose hop byte is h has crossed h + 1 connections: delivered iff h + 1 <= ttl *)
Theorem C09_star_exact : forall ttl h payload, 0 < ttl < 256 -> h < 256 ->
  rx_model RXStar ttl 0 ([x00; x00; x00; n2b h] ++ payload) =
  Some (if h + 1 <=? ttl then Deliver [x00; x00; x00; n2b (h + 1)] payload else Drop).
Proof.
  intros ttl h payload Ht Hh. cbn [rx_model]. f_equal. rewrite rx_xstar_exact by assumption.
  destruct (N.ltb_spec h ttl); destruct (N.leb_spec (h + 1) ttl); try reflexivity; exfalso; lia.
Qed.
Print Assumptions C09_star_exact.

(* every hop of a STAR forward strictly increases the hop byte, so forwarding loops die within ttl steps *)
Theorem C09_loops_die : forall ttl h payload hdr body, 0 < ttl < 256 -> h < 256 ->
  rx_model RXStar ttl 0 ([x00; x00; x00; n2b h] ++ payload) = Some (Deliver hdr body) ->
  hdr = [x00; x00; x00; n2b (h + 1)] /\ h + 1 <= ttl.
Proof.
  intros ttl h payload hdr body Ht Hh H. rewrite C09_star_exact in H by assumption.
  destruct (N.leb_spec (h + 1) ttl); inversion H; subst. auto.
Qed.
Print Assumptions C09_loops_die.

Theorem C09_ttl_range : forall v, ttl_accepts v = true <-> (1 <= v <= 255)%Z.
Proof. exact ttl_range. Qed.
Print Assumptions C09_ttl_range.

(* n = |pids| devices between a REQ client and a REP server, n + 1 <= ttl: the payload reaches the
   server unchanged with a backtrace of n + 1 words; the reply built from that backtrace pops one
   word per device, is written at each device to the pipe the request came in on (in reverse order),
   and arrives at the client as <request id word> ++ reply. *)
Theorem C09_device_chain_transparent : forall ttl pids w payload reply srvpipe,
  high_word w -> Forall (fun p => p < 2 ^ 31) pids -> N.of_nat (length pids) + 1 <= ttl ->
  exists wire_srv backtrace,
    fwd_chain ttl pids (w ++ payload) = Some wire_srv /\
    rx_model RRep ttl srvpipe wire_srv = Some (Deliver backtrace payload) /\
    back_chain (backtrace ++ reply) (length pids) = Some (rev pids, w ++ reply).
Proof. exact device_chain. Qed.
Print Assumptions C09_device_chain_transparent.

(* no receiver runs out of fuel (so `None` never stands for an outcome) *)
Theorem C09_rx_total : forall r ttl pid body, rx_model r ttl pid body <> None.
Proof. exact rx_model_total. Qed.
Print Assumptions C09_rx_total.

(* The off-by-one that xrespondent had (hops from 1 with >=): the faithful model of that code drops a
   message with exactly ttl hops.  Kept as the refutation witness; the code was repaired (known_findings). *)
Theorem C09_hop_exact_xrespondent_old_refuted :
  bt (1, CmpGE) 3 [] (unhex "000000010000000280000003" ++ unhex "aa") = Some Drop /\
  bt (1, CmpGT) 3 [] (unhex "000000010000000280000003" ++ unhex "aa") =
    Some (Deliver (unhex "000000010000000280000003") (unhex "aa")).
Proof. exact off_by_one_witness. Qed.
Print Assumptions C09_hop_exact_xrespondent_old_refuted.

Example C09_ex : rx_model RXRep 8 77 (unhex "0000000580000001" ++ unhex "beef") =
                 Some (Deliver (unhex "0000004d0000000580000001") (unhex "beef")).
Proof. vm_compute. reflexivity. Qed.
