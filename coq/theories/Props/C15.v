(* C15 -- bytes on the wire follow the SP stream and WebSocket mappings.  Statements only. *)
From MV Require Import Lib.Bytes Model.Wire Proofs.WireProofs.
Open Scope N_scope.

(* the header is 00 'S' 'P' 00 <proto, big-endian> 00 00 *)
Theorem C15_hs_header_shape : forall p,
  length (hs_header p) = 8%nat /\ firstn 4 (hs_header p) = [x00; x53; x50; x00] /\ skipn 6 (hs_header p) = [x00; x00].
Proof. exact hs_header_shape. Qed.
Print Assumptions C15_hs_header_shape.

(* the peer's header is accepted iff it is exactly the well-formed header naming the expected protocol:
   EVERY deviation (not only single-byte ones) is rejected, for every 16-bit protocol number *)
Theorem C15_hs_accept_iff : forall p b, p < 65536 -> (hs_check p b = HsOk <-> b = hs_header p).
Proof. exact hs_check_ok_iff. Qed.
Print Assumptions C15_hs_accept_iff.

(* a message on the wire is an 8-byte big-endian length followed by exactly that many bytes, header then
   body, preceded on IPC by one byte 01; and the reader inverts the writer (C01_stream_roundtrip) *)
Theorem C15_frame_shape : forall ipc h b,
  frame ipc h b = (if ipc then [x01] else []) ++ be_enc 8 (blen h + blen b) ++ h ++ b.
Proof. reflexivity. Qed.
Print Assumptions C15_frame_shape.

Theorem C15_reader_inverts_writer : forall p ipc maxrx msgs, pool_ok p = true -> Forall (msg_ok maxrx) msgs ->
  let r := parse_stream p ipc maxrx (concat (map (fun hb => frame ipc (fst hb) (snd hb)) msgs)) in
  delivered r = map (fun hb => fst hb ++ snd hb) msgs /\ status r = AtBoundary.
Proof. exact stream_roundtrip. Qed.
Print Assumptions C15_reader_inverts_writer.

(* what the reader delivers is framed exactly so in the stream it read (an independent writer's bytes are
   accepted only as what they literally encode) *)
Theorem C15_reader_sound : forall p ipc maxrx fuel s,
  exists rest, framed ipc (delivered (parse fuel p ipc maxrx s)) s rest /\
    Forall (fun m => blen m < 2 ^ 63 /\ within maxrx (blen m) = true) (delivered (parse fuel p ipc maxrx s)).
Proof. exact parse_sound. Qed.
Print Assumptions C15_reader_sound.

Theorem C15_ws_subprotocol : forall name, ws_subprotocol name = name ++ list_byte_of_string ".sp.nanomsg.org".
Proof. reflexivity. Qed.
Print Assumptions C15_ws_subprotocol.

Example C15_ex : hs_header 48 = unhex "0053500000300000" /\ hs_check 49 (unhex "0053500000310000") = HsOk
  /\ hs_check 49 (unhex "0053500100310000") = HsBadVersion /\ hs_check 49 (unhex "0053500000300000") = HsBadProto.
Proof. vm_compute. auto. Qed.
