(* C11 -- sockets are safe for concurrent use: the lock discipline part.  Statements only.
   The per-run obligation C11_gen_guarded instantiates these on the skeleton regenerated from the current source. *)
From MV Require Import Model.RaceCfg Proofs.RaceSound.
From MV Require Model.RaceCfg Model.SplitCs Proofs.SplitCsSound.
From MV Require Import Model.LockOrder Proofs.LockOrderProofs.
Open Scope N_scope.

(* In every concrete execution -- every path of every function, through every chain of calls and goroutine starts --
   the entry assumption the analysis made for a function holds when the function runs ... *)
Theorem C11_entry_assumptions_hold : forall top prog E, program_ok top prog E = true ->
  forall g h, active top prog E g h -> sub_ms (entry_of top E g) h.
Proof. exact active_entry. Qed.
Print Assumptions C11_entry_assumptions_hold.

(* ... every concrete field access is covered by an analysed site whose must-held set is really held ... *)
Theorem C11_access_covered : forall top prog E, program_ok top prog E = true ->
  forall g f h p w fld hacc, active top prog E g h -> fun_of prog g = Some f -> rvalid f 0 p = true ->
  In (EAccess w fld hacc) (path_events f 0 h p) ->
  exists a, In (SAccess g w fld a) (analyse top prog E) /\ sub_ms a hacc.
Proof. exact access_covered. Qed.
Print Assumptions C11_access_covered.

(* ... hence two accesses (one of them a write) to a checked field always hold a common mutex class: with the
   instance abstraction (a context's / pipe's `s` is its owning socket) they cannot overlap in time. *)
Theorem C11_guarded_common_lock : forall nclasses nfields prog exempt,
  guarded_ok nclasses nfields prog exempt = true ->
  let top := all_classes nclasses in
  let E := infer_entries top prog in
  forall fld, (N.to_nat fld < N.to_nat nfields)%nat -> existsb (N.eqb fld) exempt = false ->
  forall g1 f1 h1 p1 w1 a1 g2 f2 h2 p2 w2 a2,
    active top prog E g1 h1 -> fun_of prog g1 = Some f1 -> rvalid f1 0 p1 = true ->
    In (EAccess w1 fld a1) (path_events f1 0 h1 p1) -> is_ctor prog g1 = false ->
    active top prog E g2 h2 -> fun_of prog g2 = Some f2 -> rvalid f2 0 p2 = true ->
    In (EAccess w2 fld a2) (path_events f2 0 h2 p2) -> is_ctor prog g2 = false ->
    w1 = true \/ w2 = true ->
    exists c, In c a1 /\ In c a2.
Proof. exact guarded_common_lock. Qed.
Print Assumptions C11_guarded_common_lock.

(* non-vacuity: a two-function program where a helper is called with the lock held and a goroutine entry reads the
   field without it is rejected; with the lock taken it is accepted *)
Definition ex_bad : list rfunc :=
  [ {| rname := "Set"; rroot := true; rctor := false; rblocks :=
       [ {| rbody := [RLock 0; RCall 1; RUnlock 0]; rsuccs := []; rreturns := true |} ] |};
    {| rname := "helper"; rroot := false; rctor := false; rblocks :=
       [ {| rbody := [RAccess true 0]; rsuccs := []; rreturns := true |} ] |};
    {| rname := "receiver"; rroot := true; rctor := false; rblocks :=
       [ {| rbody := [RAccess false 0]; rsuccs := [0%nat]; rreturns := false |} ] |} ].
Definition ex_good : list rfunc :=
  [ {| rname := "Set"; rroot := true; rctor := false; rblocks :=
       [ {| rbody := [RLock 0; RCall 1; RUnlock 0]; rsuccs := []; rreturns := true |} ] |};
    {| rname := "helper"; rroot := false; rctor := false; rblocks :=
       [ {| rbody := [RAccess true 0]; rsuccs := []; rreturns := true |} ] |};
    {| rname := "receiver"; rroot := true; rctor := false; rblocks :=
       [ {| rbody := [RLock 0; RAccess false 0; RUnlock 0]; rsuccs := [0%nat]; rreturns := false |} ] |} ].
Example C11_ex : guarded_ok 1 1 ex_bad [] = false /\ guarded_ok 1 1 ex_good [] = true.
Proof. vm_compute. auto. Qed.

(* ---- never deadlock: lock ordering.  On the lock skeleton regenerated from the source, order_edges lists every pair
   (c1, c2) of distinct mutex classes such that some function acquires c2 -- itself or through a function it calls,
   transitively -- at a point where c1 is certainly held; the generated obligation C11_gen_lock_order evaluates
   order_ok on it.  What that establishes: there is no cycle of such nested acquisitions (a simple cycle over ncl
   classes has at most ncl edges), hence no set of goroutines each holding one class of the cycle and waiting for
   the next. ---- *)
Theorem C11_lock_order_no_cycle : forall ncl edges, order_ok ncl edges = true ->
  forall a n, walk (strict_edges edges) a a n -> (n <= S ncl)%nat -> False.
Proof. exact order_ok_no_cycle. Qed.
Print Assumptions C11_lock_order_no_cycle.

(* ---- check-then-act (Model/SplitCs.v): the generated obligation C11_gen_check_then_act evaluates sp_all_ok on the
   regenerated lock skeleton; what that establishes, for every function that is not a constructor and EVERY path
   through it: no field is written under a mutex on the strength of a reading made in an earlier critical section
   (of the same call, same loop round) unless the function reads it again first or had written it itself there. ---- *)
Theorem C11_check_then_act_all_paths : forall top prog E, SplitCs.sp_all_ok top prog E = true ->
  forall i f, nth_error prog i = Some f -> RaceCfg.rctor f = false ->
  forall p, SplitCsSound.sp_valid f 0 p = true ->
  SplitCsSound.sp_path f 0 (SplitCs.s0 (RaceCfg.entry_of top E (N.of_nat i))) p = [].
Proof. exact SplitCsSound.sp_all_sound. Qed.
Print Assumptions C11_check_then_act_all_paths.

(* the table of classes a call may acquire (used for the edges "c1 held while calling something that takes c2") is
   closed under calls: whatever a function reachable through synchronous calls locks is in the caller's entry *)
Theorem C11_acquisition_table_closed : forall prog A, acq_closed prog A = true ->
  forall g k, calls prog g k -> forall fk c, nth_error prog (N.to_nat k) = Some fk -> RaceCfg.cmem c (direct_acq fk) = true ->
  RaceCfg.cmem c (nth (N.to_nat g) A []) = true.
Proof. exact acq_closed_sound. Qed.
Print Assumptions C11_acquisition_table_closed.

(* ... in terms of goroutines: if g1 .. gk each hold a mutex of class h_i while blocked acquiring one of class w_i (a
   nested acquisition, so an edge), and the mutex g_i waits for is held by g_(i+1), the last one's by g1 -- such a circle
   of at most ncl + 1 goroutines cannot exist when the generated obligation C11_gen_lock_order holds *)
Theorem C11_no_wait_circle : forall ncl edges, order_ok ncl edges = true ->
  forall (waits : list (N * N)) a, waits <> [] -> (length waits <= S ncl)%nat ->
  (forall e, In e waits -> In e (strict_edges edges)) -> chained a waits = Some a -> False.
Proof. exact no_wait_circle. Qed.
Print Assumptions C11_no_wait_circle.
