(* C20 -- macat prints and sends exactly what crossed the socket.
   Statements only; proofs live in Proofs/MacatProofs.v. *)
From MV Require Import Lib.Bytes Model.Macat Proofs.MacatProofs.
Open Scope N_scope.

(* raw: bytes unchanged *)
Theorem C20_raw_identity : forall body, fmt FRaw body = body.
Proof. reflexivity. Qed.
Print Assumptions C20_raw_identity.

(* ascii: one record per message, same length + newline, byte i kept iff printable else '.' *)
Theorem C20_ascii_shape : forall body,
  length (fmt FAscii body) = S (length body) /\
  (forall i, (i < length body)%nat ->
     nth i (fmt FAscii body) x00 = (if isprint (nth i body x00) then nth i body x00 else "."%byte)) /\
  nth (length body) (fmt FAscii body) x00 = x0a.
Proof. exact ascii_shape_lemma. Qed.
Print Assumptions C20_ascii_shape.

(* quoted: every message is exactly one line, and the line decodes back to the original bytes --
   for every byte string, and for any sequence of messages written back to back *)
Theorem C20_quoted_roundtrip : forall msgs,
  map dec_quoted (split_lines (concat (map (fmt FQuoted) msgs))) = map Some msgs.
Proof. exact quoted_roundtrip_stream. Qed.
Print Assumptions C20_quoted_roundtrip.

Theorem C20_ascii_records : forall msgs,
  split_lines (concat (map (fmt FAscii) msgs)) = map (map ascii_byte) msgs.
Proof. exact ascii_records. Qed.
Print Assumptions C20_ascii_records.

(* msgpack: a stream of bin objects that an independent reader splits back into exactly the messages;
   all lengths below 2^32 *)
Theorem C20_msgpack_roundtrip : forall msgs,
  Forall (fun m => blen m < 2 ^ 32) msgs ->
  dec_msgpack_stream (length msgs) (concat (map (fmt FMsgpack) msgs)) = Some msgs.
Proof. intros msgs H. apply msgpack_stream; [exact H|apply le_n]. Qed.
Print Assumptions C20_msgpack_roundtrip.

(* bin8 / bin16 / bin32 exactly for < 256 / < 65536 / else, length field = message length *)
Theorem C20_msgpack_tag : forall body,
  exists tag lenbytes, fmt FMsgpack body = tag :: lenbytes ++ body /\
   ((blen body < 256 /\ tag = xc4 /\ lenbytes = [n2b (blen body)]) \/
    (256 <= blen body < 65536 /\ tag = xc5 /\ lenbytes = be_enc 2 (blen body)) \/
    (65536 <= blen body /\ tag = xc6 /\ lenbytes = be_enc 4 (blen body mod 2 ^ 32))).
Proof. exact msgpack_tag. Qed.
Print Assumptions C20_msgpack_tag.

(* durations given as bare integers mean seconds *)
Theorem C20_bare_int_is_seconds : forall ds, ds <> [] -> Forall (fun d => d < 10) ds ->
  (dvalue 0 ds * 1000000000 < 2 ^ 63)%Z ->
  unmarshal_duration (map digit_byte ds) = DurNanos (dvalue 0 ds * 1000000000).
Proof. exact bare_int_seconds. Qed.
Print Assumptions C20_bare_int_is_seconds.

(* macat runs only when: exactly one protocol, at most one format, at most one of data/file, at least one
   (well-formed) address, and subscriptions only with SUB; it sends data iff data/file was given *)
Theorem C20_run_only_if_consistent : forall l p d, decide l = VRun p d ->
  cnt is_proto l = 1%nat /\ In (OProto p) l /\
  (cnt is_fmt l <= 1)%nat /\ (cnt is_data l <= 1)%nat /\ (d = true <-> cnt is_data l = 1%nat) /\
  existsb is_addr l = true /\ Forall (fun e => e <> OAddr false) l /\
  (existsb is_subev l = true -> p = PSub).
Proof. exact decide_run_sound. Qed.
Print Assumptions C20_run_only_if_consistent.

Theorem C20_conflicts_rejected : forall l,
  (cnt is_proto l <> 1%nat \/ (2 <= cnt is_fmt l)%nat \/ (2 <= cnt is_data l)%nat \/ existsb is_addr l = false
   \/ In (OAddr false) l \/ In (OFormat false) l \/ In (OFile false) l) ->
  forall p d, decide l <> VRun p d.
Proof. exact decide_conflict. Qed.
Print Assumptions C20_conflicts_rejected.

(* --count n sends exactly n copies of exactly the given bytes *)
Theorem C20_send_count : forall n data,
  length (send_loop n data) = n /\ forall m, In m (send_loop n data) -> m = data.
Proof. exact send_loop_exact. Qed.
Print Assumptions C20_send_count.

(* The strict reading "ascii output is 7-bit" is false of the faithful model (strconv.IsPrint accepts
   Latin-1 letters); it holds for 7-bit input. Kept visible; DESIGN.md section 9 item 15. *)
Theorem C20_ascii_7bit_refuted : exists b, (127 <? b2n (ascii_byte b)) = true.
Proof. exact ascii_not_7bit. Qed.
Print Assumptions C20_ascii_7bit_refuted.

Theorem C20_ascii_7bit_partial : forall b, b2n b < 128 -> b2n (ascii_byte b) < 127 /\ 32 <= b2n (ascii_byte b).
Proof. exact ascii_7bit_on_ascii_input. Qed.
Print Assumptions C20_ascii_7bit_partial.

(* non-vacuity: concrete instances *)
Example C20_ex_quoted :
  fmt FQuoted (unhex "00410a5c22e9ad") = unhex "5c783030415c6e5c5c5c22e95c7861640a".
Proof. vm_compute. reflexivity. Qed.
Example C20_ex_decide : decide [OProto PSub; OSub; OAddr true; OFormat true] = VRun PSub false
                        /\ decide [OProto PReq; OProto PRep; OAddr true] = VErrProtoTwice
                        /\ decide [OProto PReq; OSub; OAddr true] = VErrSubNotSub.
Proof. vm_compute. auto. Qed.
