(* C18 -- Deadlines, best-effort and fail-no-peers modes never block or fire early.  Statements only.
   Model/Deadline.v: Go's `select` over {the operation's own channel, closeQ, the time channel} as the set of
   outcomes of the READY arms; `send_outcome besteffort deadline queue_has_room closed now start` and
   `recv_outcome deadline has_msg closed now start` are the decisions of every SendMsg / RecvMsg of the idiom
   (table of the 24 implementations in that file).  The queue-socket machine (`do_send`, `do_recv`, `do_pass`:
   xpair, xpush, xpull, xpub, xreq, xbus) takes its entry decisions from them; REQ is Model/Req.v. *)
From MV Require Import Lib.Proto Model.Deadline Proofs.DeadlineProofs.
From MV Require Model.Req Model.ReqOracle Model.DeadlineOracle Proofs.DeadlineReqProofs.
Open Scope N_scope.

(* ---- never early: a timeout outcome is possible only when there is a deadline and it has elapsed ---- *)
Theorem timeout_not_early : forall be d room closed now start,
  In TimedOut (send_outcome be d room closed now start) -> be = false /\ 0 < d /\ start + d <= now.
Proof. exact send_timeout_not_early. Qed.
Print Assumptions timeout_not_early.

Theorem timeout_not_early_recv : forall d has closed now start,
  In TimedOut (recv_outcome d has closed now start) -> 0 < d /\ start + d <= now.
Proof. exact recv_timeout_not_early. Qed.
Print Assumptions timeout_not_early_recv.

(* on the machine: a sleep returns a timeout only to a parked call whose deadline has elapsed on the model's clock
   (b_lo = the time stamp taken before the call started) *)
Theorem timeout_not_early_machine : forall s u t,
  In (ORet t (RErr ESendTimeout)) (q_out (do_pass s u)) ->
  In (ORet t (RErr ESendTimeout)) (q_out s) \/
  exists b, In b (q_bsend s) /\ b_t b = t /\ 0 < b_d b /\ b_lo b + b_d b <= u.
Proof. exact pass_send_timeout_not_early. Qed.
Print Assumptions timeout_not_early_machine.

Theorem timeout_not_early_machine_recv : forall s u t,
  In (ORet t (RErr ERecvTimeout)) (q_out (do_pass s u)) ->
  In (ORet t (RErr ERecvTimeout)) (q_out s) \/
  exists b, In b (q_brecv s) /\ b_t b = t /\ 0 < b_d b /\ b_lo b + b_d b <= u.
Proof. exact pass_recv_timeout_not_early. Qed.
Print Assumptions timeout_not_early_machine_recv.

(* ---- never hanging beyond it: at now >= start + d the timeout arm is ready, the call cannot stay parked ---- *)
Theorem timeout_not_late : forall d room closed now start,
  0 < d -> start + d <= now ->
  ~ In Blocked (send_outcome false d room closed now start) /\ In TimedOut (send_outcome false d room closed now start).
Proof. exact send_timeout_not_late. Qed.
Print Assumptions timeout_not_late.

Theorem timeout_not_late_recv : forall d has closed now start,
  0 < d -> start + d <= now ->
  ~ In Blocked (recv_outcome d has closed now start) /\ In TimedOut (recv_outcome d has closed now start).
Proof. exact recv_timeout_not_late. Qed.
Print Assumptions timeout_not_late_recv.

(* on the machine: whoever is still parked after a sleep has no deadline, or its deadline (+ tolerance) lies beyond it *)
Theorem timeout_not_late_machine : forall s u b,
  In b (q_bsend (do_pass s u) ++ q_brecv (do_pass s u)) ->
  b_d b = 0 \/ u < hi_of b + b_d b + tol \/ u < b_lo b + b_d b.
Proof. exact pass_not_late. Qed.
Print Assumptions timeout_not_late_machine.

(* ---- a call that can complete at once is not failed by the deadline ---- *)
Theorem immediate_not_failed : forall d now start,
  now < start + d -> send_outcome false d true false now start = [Done].
Proof. exact send_immediate_not_failed. Qed.
Print Assumptions immediate_not_failed.

Theorem immediate_not_failed_recv : forall d now start,
  now < start + d -> recv_outcome d true false now start = [Done].
Proof. exact recv_immediate_not_failed. Qed.
Print Assumptions immediate_not_failed_recv.

Theorem immediate_not_failed_machine : forall k s t hdr body s',
  (k_send k = SkShared \/ k_send k = SkCentral) -> q_be s = false -> q_closed s = false ->
  (k_fnp k && q_fnp s && no_peers s) = false -> send_room k s = true ->
  In s' (do_send k s t hdr body) -> In (ORet t ROk) (q_out s').
Proof. exact do_send_room_completes. Qed.
Print Assumptions immediate_not_failed_machine.

Theorem immediate_not_failed_machine_recv : forall k s t s',
  k_recv k <> RkNone -> q_closed s = false -> recv_has s = true ->
  In s' (do_recv k s t) -> exists h b, In (ORet t (RMsg h b)) (q_out s').
Proof. exact do_recv_msg_completes. Qed.
Print Assumptions immediate_not_failed_machine_recv.

(* ---- with no deadline it waits ---- *)
Theorem no_deadline_waits : forall now start,
  send_outcome false 0 false false now start = [Blocked] /\ recv_outcome 0 false false now start = [Blocked].
Proof. exact (fun now start => conj (send_no_deadline_waits now start) (recv_no_deadline_waits now start)). Qed.
Print Assumptions no_deadline_waits.

Theorem no_deadline_waits_machine : forall s u b,
  In b (q_bsend s ++ q_brecv s) -> b_d b = 0 -> In (b_t b) (blocked (do_pass s u)).
Proof. exact pass_no_deadline_waits. Qed.
Print Assumptions no_deadline_waits_machine.

(* ---- best effort never blocks: for every queue state, deadline value, closed state and time ---- *)
Theorem best_effort_never_blocks : forall d room closed now start o,
  In o (send_outcome true d room closed now start) -> o = Done \/ o = Dropped \/ o = ErrClosed.
Proof. exact send_best_effort_never_blocks. Qed.
Print Assumptions best_effort_never_blocks.

Theorem best_effort_full_queue_drops : forall d now start, send_outcome true d false false now start = [Dropped].
Proof. exact send_best_effort_full_queue_drops. Qed.
Print Assumptions best_effort_full_queue_drops.

(* on the machine, every modelled socket, every state: no candidate successor has the call (or any new call) parked *)
Theorem best_effort_never_blocks_machine : forall k s t hdr body s',
  q_be s = true -> In s' (do_send k s t hdr body) -> forall x, In x (blocked s') -> In x (blocked s).
Proof. exact do_send_best_effort_not_parked. Qed.
Print Assumptions best_effort_never_blocks_machine.

(* ---- fail-no-peers ---- *)
(* xpush (queue machine): at entry; and the noPeerQ arm of a parked Send once the last peer has left *)
Theorem no_peers_fast_xpush : forall k s t hdr body,
  (k_send k = SkShared \/ k_send k = SkCentral) -> (k_closedcheck k && q_closed s) = false ->
  k_fnp k = true -> q_fnp s = true -> no_peers s = true ->
  do_send k s t hdr body = [reply s t (RErr ENoPeers)].
Proof. exact do_send_no_peers_fast. Qed.
Print Assumptions no_peers_fast_xpush.

Theorem no_peers_last_peer_left_xpush : forall d now start,
  now < start + d \/ d = 0 -> send_outcome_np false d false false true now start = [ErrNoPeers].
Proof. exact send_np_last_peer_left. Qed.
Print Assumptions no_peers_last_peer_left_xpush.

(* REQ (Model/Req.v): with fail-no-peers set and no pipe, CSend / CRecv return ENoPeers in the entry step *)
Theorem no_peers_fast : forall s t c h b x,
  Req.aget c (Req.ctxs s) = Some x -> Req.sclosed s = false -> Req.c_closed x = false -> Req.c_fnp x = true -> Req.no_pipes s = true ->
  Req.do_call s t (CSend c h b) = Req.emit (Req.set_misc s (Req.sclosed s) (Req.nsend s + 1) (Req.now s) (Req.ambig s)) (ORet t (RErr ENoPeers)) /\
  Req.do_call s t (CRecv c) = Req.emit s (ORet t (RErr ENoPeers)).
Proof.
  exact (fun s t c h b x H1 H2 H3 H4 H5 =>
    conj (DeadlineReqProofs.req_send_no_peers_fast s t c h b x H1 H2 H3 H4 H5) (DeadlineReqProofs.req_recv_no_peers_fast s t c x H1 H2 H3 H4 H5)).
Qed.
Print Assumptions no_peers_fast.

(* REQ: the last pipe leaves during the wait (every context fail-no-peers): each context's condition variable is
   broadcast, a parked Send's / Recv's wait condition is false and the code after its wait loop returns ENoPeers *)
Theorem no_peers_fast_last_pipe : forall s p pp,
  Req.get_pipe s p = Some pp -> Req.pp_closed pp = false ->
  (forall q, In q (Req.pipes s) -> Req.pp_id q = p \/ Req.pp_closed q = true) ->
  (forall c x, In (c, x) (Req.ctxs s) -> Req.c_fnp x = true) ->
  let s' := Req.remove_pipe s p in
  Req.threads s' = Req.threads s /\
  (forall c x, Req.aget c (Req.ctxs s) = Some x ->
     In c (Req.woken s') /\
     (forall t e, Req.send_waits s' t c e = false) /\
     (forall t m, Req.c_sendMsg x = Some (t, m) -> Req.c_closed x = false -> forall e, In (ORet t (RErr ENoPeers)) (Req.out (Req.send_finish s' t c e))) /\
     (forall id, id <> 0 -> Req.recv_waits s' c id = false) /\
     (forall fixed t id, Req.c_closed x = false -> In (ORet t (RErr ENoPeers)) (Req.out (Req.recv_finish fixed s' t c id false)))).
Proof. exact DeadlineReqProofs.last_pipe_leaves_parked_calls. Qed.
Print Assumptions no_peers_fast_last_pipe.

(* ... and end to end through `step` on a witness: two contexts, a parked Recv and a parked Send, the only peer leaves *)
Theorem no_peers_fast_witness :
  map (fun r => (snd (fst r), snd r)) (ReqOracle.model_trace true Req.init DeadlineReqProofs.np_witness) =
  [([ORet 1 ROk], []); ([], []); ([], []);
   ([OTx 1 (Req.req_hdr 1) (mkb 3 1); ORet 2 ROk], []); ([ORet 3 ROk], []); ([], [4]); ([], [4; 5]);
   ([ORet 4 (RErr ENoPeers); ORet 5 (RErr ENoPeers)], []);
   ([ORet 6 (RErr ENoPeers)], []); ([ORet 7 (RErr ENoPeers)], [])].
Proof. exact DeadlineReqProofs.np_witness_trace. Qed.
Print Assumptions no_peers_fast_witness.

(* REQ, the repaired SendMsg (fix 662fe76): whatever cancels the request of a context -- the deadline of a Recv on that
   context, a newer Send, Close -- ends the wait of a Send that was still waiting for a ready pipe (cancel stops that
   Send's timer and takes it off the send queue, so nothing else would ever wake it: the defect was a Send hanging beyond
   its deadline for ever).  Stated over Model/Req.v: after cancel the wait condition of every Send parked on the context
   is false, and the code after the wait loop returns the cancellation error. *)
Theorem C18_req_cancel_ends_parked_send : forall s t c e, Req.send_waits (Req.cancel s c) t c e = false.
Proof. exact DeadlineReqProofs.send_waits_after_cancel. Qed.
Print Assumptions C18_req_cancel_ends_parked_send.

Theorem C18_req_canceled_send_reports_it : forall s t c x m,
  Req.aget c (Req.ctxs s) = Some x -> Req.c_sendMsg x = Some (t, m) -> Req.c_closed x = false -> Req.c_fnp x = false ->
  In (ORet t (RErr ECanceled)) (Req.out (Req.send_finish s t c false)).
Proof. exact DeadlineReqProofs.send_finish_canceled. Qed.
Print Assumptions C18_req_canceled_send_reports_it.

(* ---- the code as found violates "never hanging beyond it" in one situation: a READQ-LEN / WRITEQ-LEN change while
   a Recv with a deadline is parked wakes it through sizeQ and RecvMsg calls time.After again (xpair, xreq, xpull,
   xbus, ...: the timer is created inside the retry loop).  The faithful model keeps the call parked 36 ms past its
   deadline on the witness, and the property oracle reports it (KNOWN-FINDING of the check). ---- *)
Theorem deadline_not_late_on_resize_refuted :
  DeadlineOracle.c18_late_resize_oracle (qtrace (as_found cfg_xpair) qinit resize_witness) = Some 9 /\
  DeadlineOracle.c18_late_oracle (qtrace (as_found cfg_xpair) qinit resize_witness) = None /\
  DeadlineOracle.c18_early_oracle (qtrace (as_found cfg_xpair) qinit resize_witness) = None.
Proof. exact resize_restarts_deadline. Qed.
Print Assumptions deadline_not_late_on_resize_refuted.

(* the repaired code: the resize leaves the parked call's timer alone and it expires at its own deadline *)
Theorem deadline_not_late_on_resize_repaired :
  map (fun r => (snd (fst r), snd r)) (qtrace cfg_xpair qinit resize_witness) =
  [([], []); ([ORet 1 ROk], []); ([], []); ([], [2]); ([], [2]); ([], [2]); ([], [2]); ([ORet 3 ROk], [2]); ([], [2]);
   ([ORet 2 (RErr ERecvTimeout)], []); ([], []); ([], [])] /\
  DeadlineOracle.c18_late_resize_oracle (qtrace cfg_xpair qinit resize_witness) = None /\
  DeadlineOracle.c18_late_oracle (qtrace cfg_xpair qinit resize_witness) = None /\
  DeadlineOracle.c18_early_oracle (qtrace cfg_xpair qinit resize_witness) = None.
Proof. exact resize_keeps_deadline. Qed.
Print Assumptions deadline_not_late_on_resize_repaired.
