(* C13 -- every pipe gets a consistent lifecycle and a unique id.  Statements only (more in progress). *)
From MV Require Import Model.Core Model.CoreOracle Proofs.CoreProofs.
Open Scope N_scope.

(* witness histories: closed during Attaching / refused by the protocol / closed during Attached / peer drop:
   the model of the repaired core satisfies the hook language and releases every id *)
Definition c13_witness : list kstim :=
  [ KListen 1 1 false; KHookPolicy 1; KConnect 1 1; KHookPolicy 0; KProtoRefuse true; KConnect 1 2; KProtoRefuse false;
    KHookPolicy 2; KConnect 1 3; KHookPolicy 0; KConnect 1 4; KPipeFail 4; KConnect 1 5; KCloseSock 2 ].

Theorem C13_witness_lifecycle : c13_oracle (kmodel_trace true true kinit c13_witness) = None.
Proof. vm_compute. reflexivity. Qed.
Print Assumptions C13_witness_lifecycle.

(* the core as found leaked the id (and the listing) of a pipe closed during Attaching or refused by the
   protocol: the faithful model of that code fails the C10 oracle on the same history; the repaired one passes *)
Theorem C13_ids_released_old_refuted : c10_oracle (kmodel_trace false true kinit c13_witness) <> None.
Proof. vm_compute. discriminate. Qed.
Print Assumptions C13_ids_released_old_refuted.

Theorem C13_ids_released_on_witness : c10_oracle (kmodel_trace true true kinit c13_witness) = None.
Proof. vm_compute. reflexivity. Qed.
Print Assumptions C13_ids_released_on_witness.
