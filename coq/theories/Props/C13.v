(* C13 -- every pipe gets a consistent lifecycle and a unique id.  Statements only (more in progress). *)
From MV Require Import Model.Core Model.CoreOracle Proofs.CoreProofs Proofs.CoreInv.
Open Scope N_scope.

(* witness histories: closed during Attaching / refused by the protocol / closed during Attached / peer drop:
   the model of the repaired core satisfies the hook language and releases every id *)
Definition c13_witness : list kstim :=
  [ KListen 1 1 false; KHookPolicy 1; KConnect 1 1; KHookPolicy 0; KProtoRefuse true; KConnect 1 2; KProtoRefuse false;
    KHookPolicy 2; KConnect 1 3; KHookPolicy 0; KConnect 1 4; KPipeFail 4; KConnect 1 5; KCloseSock 2 ].

Theorem C13_witness_lifecycle : c13_oracle (kmodel_trace true true kinit c13_witness) = None.
Proof. vm_compute. reflexivity. Qed.
Print Assumptions C13_witness_lifecycle.

(* the core as found leaked the id (and the listing) of a pipe closed during Attaching or refused by the
   protocol: the faithful model of that code fails the C10 oracle on the same history; the repaired one passes *)
Theorem C13_ids_released_old_refuted : c10_oracle (kmodel_trace false true kinit c13_witness) <> None.
Proof. vm_compute. discriminate. Qed.
Print Assumptions C13_ids_released_old_refuted.

Theorem C13_ids_released_on_witness : c10_oracle (kmodel_trace true true kinit c13_witness) = None.
Proof. vm_compute. reflexivity. Qed.
Print Assumptions C13_ids_released_on_witness.

(* EVERY history of stimuli on the repaired core (pipe names fresh when first used -- the harness numbers pipes
   consecutively): at every quiescent point the hook calls and protocol notifications that concern one pipe form
   exactly one of five words -- never seen; closed during Attaching; refused by the protocol; attached and alive;
   attached, then closed, protocol told, Detached -- so Attaching comes first and once, Attached/Detached at most
   once and only for an accepted pipe, and a refused or early-closed pipe gets neither. *)
Theorem C13_hook_language_all_histories : forall h p, fresh_hist kinit h ->
  let e := evs p (all_obs (kmodel_trace true true kinit h)) in
  e = [] \/ e = [HAttaching p; TClose p] \/ e = [HAttaching p; PAdd p false; TClose p] \/
  e = [HAttaching p; PAdd p true; HAttached p] \/
  e = [HAttaching p; PAdd p true; HAttached p; TClose p; PRemove p; HDetached p].
Proof. exact hook_language_all_histories. Qed.
Print Assumptions C13_hook_language_all_histories.

(* ... hence the lifecycle oracle that the correspondence check applies to the implementation's traces accepts
   every pipe of every model trace *)
Theorem C13_lifecycle_oracle_all_histories : forall h, fresh_hist kinit h ->
  let l := all_obs (kmodel_trace true true kinit h) in
  forall p, In p (pipes_of l) -> c13_pipe_ok l p = true.
Proof. exact c13_pipes_ok_all_histories. Qed.
Print Assumptions C13_lifecycle_oracle_all_histories.

(* the freshness premise is satisfiable: the witness history meets it *)
Theorem C13_fresh_premise_witness : fresh_hist kinit c13_witness.
Proof. exact fresh_hist_witness. Qed.
Print Assumptions C13_fresh_premise_witness.
