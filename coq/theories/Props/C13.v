(* C13 -- every pipe gets a consistent lifecycle and a unique id.  Statements only (more in progress). *)
From MV Require Import Model.Core Model.CoreOracle Proofs.CoreProofs Proofs.CoreInv.
Open Scope N_scope.

(* witness histories: closed during Attaching / refused by the protocol / closed during Attached / peer drop:
   the model of the repaired core satisfies the hook language and releases every id *)
Definition c13_witness : list kstim :=
  [ KListen 1 1 false; KHookPolicy 1; KConnect 1 1; KHookPolicy 0; KProtoRefuse true; KConnect 1 2; KProtoRefuse false;
    KHookPolicy 2; KConnect 1 3; KHookPolicy 0; KConnect 1 4; KPipeFail 4; KConnect 1 5; KCloseSock 2 ].

Theorem C13_witness_lifecycle : c13_oracle (kmodel_trace true true kinit c13_witness) = None.
Proof. vm_compute. reflexivity. Qed.
Print Assumptions C13_witness_lifecycle.

(* the core as found leaked the id (and the listing) of a pipe closed during Attaching or refused by the
   protocol: the faithful model of that code fails the C10 oracle on the same history; the repaired one passes *)
Theorem C13_ids_released_old_refuted : c10_oracle (kmodel_trace false true kinit c13_witness) <> None.
Proof. vm_compute. discriminate. Qed.
Print Assumptions C13_ids_released_old_refuted.

Theorem C13_ids_released_on_witness : c10_oracle (kmodel_trace true true kinit c13_witness) = None.
Proof. vm_compute. reflexivity. Qed.
Print Assumptions C13_ids_released_on_witness.

(* EVERY history of stimuli on the repaired core (pipe names fresh when first used -- the harness numbers pipes
   consecutively): at every quiescent point the hook calls and protocol notifications that concern one pipe form
   exactly one of five words -- never seen; closed during Attaching; refused by the protocol; attached and alive;
   attached, then closed, protocol told, Detached -- so Attaching comes first and once, Attached/Detached at most
   once and only for an accepted pipe, and a refused or early-closed pipe gets neither. *)
Theorem C13_hook_language_all_histories : forall h p, fresh_hist kinit h ->
  let e := evs p (all_obs (kmodel_trace true true kinit h)) in
  e = [] \/ e = [HAttaching p; TClose p] \/ e = [HAttaching p; PAdd p false; TClose p] \/
  e = [HAttaching p; PAdd p true; HAttached p] \/
  e = [HAttaching p; PAdd p true; HAttached p; TClose p; PRemove p; HDetached p].
Proof. exact hook_language_all_histories. Qed.
Print Assumptions C13_hook_language_all_histories.

(* ... hence the lifecycle oracle that the correspondence check applies to the implementation's traces accepts
   every pipe of every model trace *)
Theorem C13_lifecycle_oracle_all_histories : forall h, fresh_hist kinit h ->
  let l := all_obs (kmodel_trace true true kinit h) in
  forall p, In p (pipes_of l) -> c13_pipe_ok l p = true.
Proof. exact c13_pipes_ok_all_histories. Qed.
Print Assumptions C13_lifecycle_oracle_all_histories.

(* the freshness premise is satisfiable: the witness history meets it *)
Theorem C13_fresh_premise_witness : fresh_hist kinit c13_witness.
Proof. exact fresh_hist_witness. Qed.
Print Assumptions C13_fresh_premise_witness.

(* ---- the pipe ID allocator (internal/core/pipe.go), for EVERY value of its 32-bit counter and every set of IDs in use ---- *)
From MV Require Import Model.PipeId Proofs.PipeIdProofs.

(* an ID that is handed out is non-zero, fits in 31 bits and is not in use at that moment *)
Theorem C13_id_nonzero_31bit_unused : forall a id a', get a = Some (id, a') ->
  id <> 0 /\ id < 2 ^ 31 /\ ~ In id (a_used a) /\ a_used a' = id :: a_used a.
Proof. exact get_sound. Qed.
Print Assumptions C13_id_nonzero_31bit_unused.

(* after ANY sequence of allocations, releases and counter positions: no two live IDs are equal, none is zero, none needs 32 bits *)
Theorem C13_live_ids_distinct_all_histories : forall ops a, wf a -> wf (fold_left (fun a o => fst (id_step a o)) ops a).
Proof. exact wf_run. Qed.
Print Assumptions C13_live_ids_distinct_all_histories.

(* the search loop always ends with an ID (|in use| + 2 candidates suffice) while fewer than 2^31 - 1 IDs are in use *)
Theorem C13_id_allocator_total : forall a, N.of_nat (length (a_used a)) + 2 <= 2 ^ 31 -> get a <> None.
Proof. exact get_total. Qed.
Print Assumptions C13_id_allocator_total.

(* the premise of the history theorem is satisfiable *)
Theorem C13_id_wf_init : wf {| a_used := []; a_next := 2 ^ 31 |}.
Proof. split; constructor. Qed.
Print Assumptions C13_id_wf_init.
