(* C05 -- REP/RESPONDENT replies go back along the path of their request.  Statements only.
   Model/Rep.v is one deterministic machine for rep, respondent (cooked) and xrep, xrespondent (raw), selected by
   `kind`; `do_call k s t (CSend c hdr body)` is SendMsg on context c (raw: the socket), `step k s st` one stimulus
   followed by everything the goroutines do until quiescence, `run_model (rr_model k) s h` a whole history.
   `queued s p (h, b)`: message (h, b) was already in pipe p's send queue or in a SendMsg blocked on it. *)
From MV Require Import Lib.Proto Model.Hops Model.Rep Model.RepOracle Proofs.RepProofs Proofs.RepBounded.
Open Scope N_scope.

(* (a) cooked, every state: a reply is written to no pipe other than the context's recvPipe, and the message it
   adds carries exactly the stored backtrace as its header; the context then holds nothing *)
Theorem C05_cooked_reply_routed : forall k s t c x p bt hdr body,
  is_raw k = false -> aget c (ctxs s) = Some x -> sclosed s = false -> c_closed x = false ->
  c_bt x = Some bt -> c_recvPipe x = Some p ->
  let s' := do_call k s t (CSend c hdr body) in
  (exists x', aget c (ctxs s') = Some x' /\ c_bt x' = None /\ c_recvPipe x' = None /\ c_closed x' = false) /\
  sclosed s' = false /\
  (forall o, In o (out s') -> In o (out s) \/ (exists t' r, o = ORet t' r) \/
     (exists h b, o = OTx p h b /\ pipe_open s p /\ ((h = bt /\ b = body) \/ queued s p (h, b)))).
Proof. exact cooked_reply_routed. Qed.
Print Assumptions C05_cooked_reply_routed.

(* ... so sending again (or with no request ever received) fails with a protocol-state error and writes nothing *)
Theorem C05_send_without_request_refused : forall k s t c x hdr body,
  is_raw k = false -> aget c (ctxs s) = Some x -> sclosed s = false -> c_closed x = false -> c_bt x = None ->
  do_call k s t (CSend c hdr body) = emit s (ORet t (RErr EProtoState)).
Proof. exact cooked_second_send. Qed.
Print Assumptions C05_send_without_request_refused.

(* a received request is recorded in the context whose Recv took it and in no other *)
Theorem C05_request_recorded_in_own_context : forall k s t c x p h b,
  is_raw k = false -> aget c (ctxs s) = Some x ->
  let s' := recv_finish k s t c (p, (h, b)) in
  aget c (ctxs s') = Some (with_req x false (Some p) (Some h)) /\
  (forall c', c' <> c -> aget c' (ctxs s') = aget c' (ctxs s)) /\
  out s' = ORet t (RMsg [] b) :: out s.
Proof. exact recv_records_in_own_context. Qed.
Print Assumptions C05_request_recorded_in_own_context.

(* (c) cooked, every state: the requesting pipe has gone: the reply is accepted and discarded, nothing is written *)
Theorem C05_reply_discarded_when_pipe_gone : forall k s t c x p bt hdr body,
  is_raw k = false -> aget c (ctxs s) = Some x -> sclosed s = false -> c_closed x = false ->
  c_bt x = Some bt -> c_recvPipe x = Some p -> pipe_closed s p ->
  do_call k s t (CSend c hdr body) = emit (set_ctx s c (with_req x (c_recvWait x) None None)) (ORet t ROk).
Proof. exact cooked_reply_pipe_gone. Qed.
Print Assumptions C05_reply_discarded_when_pipe_gone.

(* (b) raw, every state: the first header word selects the pipe (id 1000+p) and exactly that word is stripped;
   the message goes to no other pipe *)
Theorem C05_raw_send_routed : forall k s t c x hdr body p rest,
  is_raw k = true -> aget c (ctxs s) = Some x -> sclosed s = false -> raw_lookup s hdr = Some (p, rest) ->
  let s' := do_call k s t (CSend c hdr body) in
  (exists w, hdr = w ++ rest /\ length w = 4%nat /\ be_dec w = pipe_id p) /\
  (forall o, In o (out s') -> In o (out s) \/ (exists t' r, o = ORet t' r) \/
     (exists h b, o = OTx p h b /\ pipe_open s p /\ ((h = rest /\ b = body) \/ queued s p (h, b)))).
Proof. exact raw_send_routed. Qed.
Print Assumptions C05_raw_send_routed.

(* a header shorter than a word, or naming no attached pipe (unknown id, or a pipe that has gone), selects nothing ... *)
Theorem C05_raw_short_header_selects_nothing : forall s hdr, (length hdr < 4)%nat -> raw_lookup s hdr = None.
Proof. exact raw_lookup_short. Qed.
Print Assumptions C05_raw_short_header_selects_nothing.

Theorem C05_raw_unknown_pipe_selects_nothing : forall s w rest,
  length w = 4%nat -> (forall p, be_dec w = pipe_id p -> ~ pipe_open s p) -> raw_lookup s (w ++ rest) = None.
Proof. exact raw_lookup_unknown. Qed.
Print Assumptions C05_raw_unknown_pipe_selects_nothing.

(* ... and then the message is dropped silently: the call succeeds, nothing is written *)
Theorem C05_raw_unroutable_dropped : forall k s t c x hdr body,
  is_raw k = true -> aget c (ctxs s) = Some x -> sclosed s = false -> raw_lookup s hdr = None ->
  do_call k s t (CSend c hdr body) = emit s (ORet t ROk).
Proof. exact raw_send_dropped. Qed.
Print Assumptions C05_raw_unroutable_dropped.

(* all four protocols, ALL histories: once a pipe is closed no later step writes to it (unless the history
   re-attaches a pipe under the same number) ... *)
Theorem C05_closed_pipe_never_written : forall k h s p,
  pipe_closed s p -> (forall st, In st h -> st <> SAddPipe p) ->
  forall os, In os (snd (run_model (rr_model k) s h)) -> forall hd b, ~ In (OTx p hd b) os.
Proof. exact closed_never_written. Qed.
Print Assumptions C05_closed_pipe_never_written.

(* ... in particular from the moment the peer goes, whatever was queued, held by the transport or blocked *)
Theorem C05_nothing_written_after_drop : forall k s p pp h,
  aget p (pipes s) = Some pp -> (forall st, In st h -> st <> SAddPipe p) ->
  forall os, In os (snd (run_model (rr_model k) s (SDropPipe p :: h))) -> forall hd b, ~ In (OTx p hd b) os.
Proof. exact nothing_after_drop. Qed.
Print Assumptions C05_nothing_written_after_drop.

(* all four protocols, ALL histories from the initial state (any interleaving of any stimuli, any header depth
   and content): every message the socket writes to pipe p with header hd is explained by the history so far --
   cooked: a request carrying exactly the routing header hd arrived on exactly pipe p;
   raw: the application sent a message whose header is the word naming p followed by exactly hd *)
Theorem C05_all_writes_explained : forall k h,
  explained_trace k [] h (snd (run_model (rr_model k) (init k) h)).
Proof. exact all_writes_explained. Qed.
Print Assumptions C05_all_writes_explained.

(* the invariant behind it, one step: everything a state carries (held by a context, waiting to be received,
   queued or blocked on a pipe) stays explained *)
Theorem C05_explained_step : forall k pre s st, explained k pre s ->
  explained k (pre ++ [st]) (fst (step k s st)) /\
  forall p hd b, In (OTx p hd b) (snd (step k s st)) -> origin k (pre ++ [st]) p hd.
Proof. exact explained_step. Qed.
Print Assumptions C05_explained_step.

(* the trace oracle the harness applies to the implementation accepts the model's own traces of the directed
   histories, and rejects them when a reply is moved to the other pipe, loses a header word, is repeated, or is
   written after its pipe went *)
Theorem C05_oracle_accepts_model_scripts :
  c05_oracle_k KRep (model_trace KRep (init KRep) script_two_ctx) = None /\
  c05_oracle_k KRespondent (model_trace KRespondent (init KRespondent) script_two_ctx) = None /\
  c05_oracle_k KRep (model_trace KRep (init KRep) script_drop) = None /\
  c05_oracle_k KRespondent (model_trace KRespondent (init KRespondent) script_drop) = None /\
  c05_oracle_k KXRep (model_trace KXRep (init KXRep) script_raw) = None /\
  c05_oracle_k KXRespondent (model_trace KXRespondent (init KXRespondent) script_raw) = None.
Proof. exact oracle_accepts_model_scripts. Qed.
Print Assumptions C05_oracle_accepts_model_scripts.

Theorem C05_oracle_rejects_misrouting :
  let tr := model_trace KRep (init KRep) script_two_ctx in
  c05_oracle_k KRep (tamper (map swap_pipes) 7 tr) = Some 7 /\
  c05_oracle_k KRep (tamper (map cut_header) 7 tr) = Some 7 /\
  c05_oracle_k KRep (tamper (fun os => os ++ os) 8 tr) = Some 8 /\
  c05_oracle_k KRep (tamper (fun os => OTx 1 (flat_map (be_enc 4) [5; hi 77]) (rp 3) :: os) 9 tr) = Some 9 /\
  let tr2 := model_trace KRep (init KRep) script_drop in
  c05_oracle_k KRep (tamper (fun os => OTx 2 (flat_map (be_enc 4) [hi 3]) (rp 4) :: os) 14 tr2) = Some 14.
Proof. exact oracle_rejects_misrouting. Qed.
Print Assumptions C05_oracle_rejects_misrouting.

(* ... and it accepts the model's trace of EVERY history of 5 (raw: 4) stimuli drawn from a 10-letter alphabet after
   the set-up `prefix` (two contexts, two pipes): requests with a shallow / deep routing header on either pipe, Recv
   and Send on either context, loss of pipe 1, transport holding / completing sends on pipe 1, context close;
   raw: sends routed to either pipe, re-addressed, unroutable.  (Evaluated: 2 x 100000 + 2 x 10000 histories.) *)
Theorem C05_oracle_accepts_model_all_short_cooked : forall k l,
  k = KRep \/ k = KRespondent -> length l = 5%nat -> Forall (fun a => In a cooked_alpha) l ->
  c05_oracle_k k (model_trace k (init k) (prefix ++ inst_from 10 l)) = None.
Proof. exact oracle_accepts_model_short_cooked. Qed.
Print Assumptions C05_oracle_accepts_model_all_short_cooked.

Theorem C05_oracle_accepts_model_all_short_raw : forall k l,
  k = KXRep \/ k = KXRespondent -> length l = 4%nat -> Forall (fun a => In a raw_alpha) l ->
  c05_oracle_k k (model_trace k (init k) (prefix ++ inst_from 10 l)) = None.
Proof. exact oracle_accepts_model_short_raw. Qed.
Print Assumptions C05_oracle_accepts_model_all_short_raw.
