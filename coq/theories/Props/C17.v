(* C17 -- a message has exactly one owner at a time.  Statements only. *)
From MV Require Import Lib.Bytes Model.Wire Model.Refcnt Proofs.WireProofs Proofs.RefcntProofs.
Open Scope N_scope.

(* The monitor that judges every recorded run is sound: a trace it accepts has, as a whole, no double release,
   no use after release, only exclusive hand-outs to the application (count one, and nothing but the application's
   own free touches the message afterwards), a count that never goes negative, releases exactly at zero,
   allocations that are empty / big enough / of unowned objects, and failed sends that leave the caller a
   message that was not released. *)
Theorem ledger_sound : forall tr, ledger_ok tr = true ->
  no_double_release tr /\ no_use_after_release tr /\ exclusive_handout tr /\
  refcount_never_negative tr /\ release_exactly_at_zero tr /\ new_is_fresh tr /\ failed_send_keeps tr.
Proof. exact ledger_sound_all. Qed.
Print Assumptions ledger_sound.

(* the diagnostic form used on the recorded traces is the same judgement *)
Theorem ledger_bad_iff : forall tr, ledger_bad tr = [] <-> ledger_ok tr = true.
Proof. exact ledger_bad_nil. Qed.
Print Assumptions ledger_bad_iff.

(* xpub / xbus / xstar / surveyor / xsurveyor SendMsg, for ALL numbers of pipes and ALL patterns of full and
   non-full queues: accepted by the monitor; ends with count = number of queued copies; after every proper
   prefix at least one reference is left; a publication nobody queued is released exactly once, at the end *)
Theorem fanout_balanced : forall m full h, hget h m = owned 1 ->
  (exists h', run h (fanout_send m full) = Some h' /\ hget h' m = owned (queued full)) /\
  (forall pre suf, fanout_send m full = pre ++ suf -> suf <> [] ->
     exists hp k, run h pre = Some hp /\ hget hp m = owned k /\ 1 <= k) /\
  (queued full = 0 -> exists h', run h (fanout_send m full ++ [MRelease m]) = Some h' /\ hget h' m = dead).
Proof. exact fanout_balanced_thm. Qed.
Print Assumptions fanout_balanced.

(* the whole life of a publication, the transports freeing their copies afterwards ... *)
Theorem fanout_lifecycle : forall m sz cap full, sz <= cap -> ledger_ok (fanout_life m sz cap full) = true.
Proof. exact fanout_life_ok. Qed.
Print Assumptions fanout_lifecycle.

(* ... or at ANY point while the loop is still running (all interleavings of delivery and free) *)
Theorem fanout_interleaved : forall m sz cap sched, sz <= cap -> ledger_ok (fanout_any m sz cap sched) = true.
Proof. exact fanout_any_ok. Qed.
Print Assumptions fanout_interleaved.

(* REQ keeps the request across any number of (re)transmissions, each holding its own reference *)
Theorem req_retained_request_balanced : forall m sz cap ntx late, sz <= cap -> ledger_ok (req_life m sz cap ntx late) = true.
Proof. exact req_retain_balanced. Qed.
Print Assumptions req_retained_request_balanced.

(* a new message of any size, for every pool table that passes pool_ok: empty, room for the size, one reference,
   no other object affected; and an owned object is never issued *)
Theorem new_message_fresh : forall p sz h m, pool_ok p = true -> live (hget h m) = false ->
  let cap := new_message_cap p sz in
  sz <= cap /\ exists h', step h (MNew m sz cap 0 0) = Some h' /\ hget h' m = owned 1 /\
  (forall x, x <> m -> hget h' x = hget h x).
Proof. exact new_message_fresh_thm. Qed.
Print Assumptions new_message_fresh.

Theorem new_message_never_aliases : forall h m sz cap bl hl, live (hget h m) = true -> step h (MNew m sz cap bl hl) = None.
Proof. exact new_refuses_owned. Qed.
Print Assumptions new_message_never_aliases.

(* every failing Send outcome (timeout, closed, no peers) of the queueing senders does nothing to the message:
   the caller holds it with the count it had *)
Theorem send_error_keeps_message : forall m o h n, hget h m = owned n -> 1 <= n -> send_is_error o = true ->
  send_ops m o = [] /\ step h (MSendErr m) = Some h /\
  exists h', run h (send_ops m o ++ [MSendErr m]) = Some h' /\ hget h' m = owned n.
Proof. exact send_error_keeps_thm. Qed.
Print Assumptions send_error_keeps_message.

(* every outcome, seen from the caller (who frees after an error and not otherwise): one release, no more *)
Theorem send_outcomes_balanced : forall m sz cap o, sz <= cap -> ledger_ok (MNew m sz cap 0 0 :: send_call m o) = true.
Proof. exact send_call_ok. Qed.
Print Assumptions send_outcomes_balanced.

Theorem fanout_send_closed_keeps_message : forall m full h n, hget h m = owned n -> 1 <= n ->
  exists h', run h (fanout_call m true full) = Some h' /\ hget h' m = owned n.
Proof. exact fanout_call_closed_keeps. Qed.
Print Assumptions fanout_send_closed_keeps_message.

(* SUB, for ALL patterns of matching contexts: the receiver's clone-per-context and each context's MakeUnique
   give every matching context a message nobody else holds; after the applications' frees all is released once *)
Theorem sub_handouts_exclusive : forall matches sz cap, sz <= cap -> ledger_ok (sub_trace matches sz cap) = true.
Proof. exact sub_exclusive_thm. Qed.
Print Assumptions sub_handouts_exclusive.

(* instances ... *)
Example C17_sub_ex : forallb (fun ms => ledger_ok (sub_trace ms 10 64))
  [[]; [false]; [true]; [true; true]; [true; false; true; true]; [true; true; true; true; true; true]] = true.
Proof. vm_compute. reflexivity. Qed.
(* ... and a SUB handing the shared message to two contexts is refused at the first hand-out *)
Example C17_sub_shared_refuted : ledger_ok (sub_trace_shared 2 10 64) = false /\ ledger_bad (sub_trace_shared 2 10 64) = [4; 5].
Proof. vm_compute. split; reflexivity. Qed.
Example C17_star_ex : ledger_ok (star_forward 0 10 64 [false; true; false]) = true.
Proof. vm_compute. reflexivity. Qed.
(* freeing the publication twice at the end of the loop: the second free finds it released (or steals a queued copy) *)
Example C17_double_free_refuted :
  ledger_ok (MNew 0 10 64 0 0 :: fanout_send 0 [] ++ [MRelease 0; MFree 0]) = false /\
  ledger_ok (MNew 0 10 64 0 0 :: fanout_send 0 [false] ++ [MFree 0; MRelease 0; MFree 0]) = false.
Proof. vm_compute. split; reflexivity. Qed.
(* a loop that forgets to clone gives the queue a reference it does not own *)
Example C17_missing_clone_refuted : ledger_ok (MNew 0 10 64 0 0 :: [MFree 0; MRelease 0; MFree 0]) = false.
Proof. vm_compute. reflexivity. Qed.

(* the surveyor defect found by this check (known_findings.json): the caller keeps a reference (Clone), Send on a
   surveyor without peers releases the message under it; with the result of MakeUnique assigned it does not *)
Example C17_surveyor_shared_send_refuted :
  ledger_bad (MNew 0 8 64 0 0 :: MClone 0 :: surveyor_send_as_found 0 1 8 64 true [] ++ [MRelease 0; MFree 0 (* the caller's own reference *)]) = [7] /\
  ledger_ok (MNew 0 8 64 0 0 :: MClone 0 :: surveyor_send_repaired 0 1 8 64 true [] ++ [MRelease 1; MFree 0; MRelease 0]) = true.
Proof. vm_compute. split; reflexivity. Qed.
