(* C19 -- options and unsupported operations follow one uniform contract.
   Statements only; proofs live in Proofs/OptionsProofs.v; the tables in Model/Options.v are tied to
   /repo by the exhaustive grid of harness/cmd/c19 (every name x value class x object). *)
From Coq Require Import List NArith ZArith Bool String.
From MV Require Import Model.Options Proofs.OptionsProofs.
Import ListNotations.
Open Scope string_scope.
Open Scope list_scope.

(* Any string that is not one of the known option names is a bad option on every object, for every value;
   so is a known name the object kind cannot set. *)
Theorem C19_unknown_is_bad_option : forall k name v,
  ~ In name (map fst name_table) -> expected k name v = RBadOption.
Proof. exact unknown_is_bad_option_lemma. Qed.
Print Assumptions C19_unknown_is_bad_option.

Theorem C19_unsupported_is_bad_option : forall k name o v,
  lookup name = Some o -> can_set k o = false ->
  expected k name v = RBadOption /\ expected_exc k name v = Some RBadOption.
Proof. exact unsupported_name_bad_option. Qed.
Print Assumptions C19_unsupported_is_bad_option.

Theorem C19_pipes_set_nothing : forall t s name v, expected (KPipe t s) name v = RBadOption.
Proof. exact pipes_set_nothing. Qed.
Print Assumptions C19_pipes_set_nothing.

(* A supported option given a value outside its domain is a bad value -- also after the exception
   list is applied, unless the triple is a recorded widening / state-dependent case. *)
Theorem C19_wrong_type_or_range_is_bad_value : forall k name o v,
  lookup name = Some o -> can_set k o = true -> domain o v = false ->
  exception k o v = ENone \/ exception k o v = ENarrow ->
  expected_exc k name v = Some RBadValue.
Proof. exact out_of_domain_bad_value_exc. Qed.
Print Assumptions C19_wrong_type_or_range_is_bad_value.

(* nil and foreign dynamic types are outside every domain; an option takes one type only *)
Theorem C19_foreign_types_rejected : forall o t,
  o <> OResizeDiscards -> domain o (VOther t) = false /\ domain o VNil = false.
Proof. exact foreign_type_outside_every_domain. Qed.
Print Assumptions C19_foreign_types_rejected.

Theorem C19_ranges :
  (forall z, domain OTtl (VInt z) = true <-> (1 <= z <= 255)%Z) /\
  (forall z, domain OReadQLen (VInt z) = true <-> (0 <= z)%Z) /\
  (forall z, domain OWriteQLen (VInt z) = true <-> (0 <= z)%Z) /\
  (forall z, domain OMaxRecvSize (VInt z) = true <-> (0 <= z)%Z) /\
  (forall d, domain OReconnectTime (VDur d) = true <-> (0 <= d)%Z) /\
  (forall d, domain OMaxReconnectTime (VDur d) = true <-> (0 <= d)%Z) /\
  (forall d, domain ORecvDeadline (VDur d) = true /\ domain OSendDeadline (VDur d) = true).
Proof. exact ranges_lemma. Qed.
Print Assumptions C19_ranges.

(* The contract has three outcomes and no other (no crash, no foreign error); exceptions never touch
   BadOption and only trade Ok for BadValue; the checker never accepts a panic. *)
Theorem C19_never_crashes : forall k name v,
  (expected k name v = ROk \/ expected k name v = RBadOption \/ expected k name v = RBadValue) /\
  (expected k name v = RBadOption <-> expected_exc k name v = Some RBadOption) /\
  (forall r, expected k name v <> RBadOption -> expected_exc k name v = Some r -> r = ROk \/ r = RBadValue).
Proof. exact never_crashes_combined. Qed.
Print Assumptions C19_never_crashes.

Theorem C19_panic_never_accepted : forall e k o s pr,
  set_matches e SPanic = false /\ set_matches e SOtherErr = false /\
  get_ok k o s pr GPanic = false /\ get_ok k o s pr GOtherErr = false.
Proof. exact panic_never_accepted_combined. Qed.
Print Assumptions C19_panic_never_accepted.

(* An accepted value is what Get returns; a refused Set changes nothing. *)
Theorem C19_get_after_set : forall k o g,
  can_get k o = true -> get_is_constant o = false ->
  (get_ok k (Some o) SOk true g = true <-> g = GSet \/ g = GBoth).
Proof. exact get_after_set_lemma. Qed.
Print Assumptions C19_get_after_set.

Theorem C19_refused_set_changes_nothing : forall k o s g,
  can_get k o = true -> s <> SOk ->
  (get_ok k (Some o) s true g = true <-> g = GUnchanged \/ g = GBoth).
Proof. exact refused_set_changes_nothing. Qed.
Print Assumptions C19_refused_set_changes_nothing.

(* An accepted zero duration means no limit. *)
Theorem C19_zero_duration_is_no_limit :
  (forall e, deadline_ready 0 e = false) /\
  (forall e, survey_open 0 e = true) /\
  (forall e, retry_due 0 e = false) /\
  (forall d e, (0 < d)%N -> (deadline_ready d e = true <-> (d <= e)%N)) /\
  (forall t e, (0 < t)%N -> (survey_open t e = true <-> (e < t)%N)).
Proof. exact zero_duration_is_no_limit_combined. Qed.
Print Assumptions C19_zero_duration_is_no_limit.

(* ... and that is what the behavioural scenarios are judged by *)
Theorem C19_zero_duration_scenarios :
  (forall p w, effect_expected (ERecvBlock p 0 w) = "blocked") /\
  (forall p w, effect_expected (ESendBlock p 0 w) = "blocked") /\
  (forall a, effect_expected (ESurvey 0 a) = "accepted") /\
  (forall w, effect_expected (ERetry 0 w) = "noretry").
Proof. exact zero_effects_expected. Qed.
Print Assumptions C19_zero_duration_scenarios.

(* Changing a queue length never disconnects a peer: with receivers that retry on the new queue the set
   of pipes is unchanged, the new capacity holds, nothing overflows. *)
Theorem C19_resize_keeps_pipes : forall s n,
  pipe_ids (resize Retry s n) = pipe_ids s /\
  q_cap (resize Retry s n) = n /\ (N.of_nat (List.length (q_items (resize Retry s n))) <= n)%N.
Proof. exact resize_keeps_pipes_combined. Qed.
Print Assumptions C19_resize_keeps_pipes.

(* ... refuted for the code as found in xbus (and bus): the receiver blocked on a full queue leaves
   its loop on the resize signal and closes the pipe (xbus.go:279). *)
Theorem C19_resize_refuted_for_bus :
  (exists s n, pipe_ids (resize BreakOuter s n) <> pipe_ids s) /\
  (forall p, code_policy p = BreakOuter <-> (p = Pbus \/ p = Pxbus)).
Proof. exact resize_refuted_for_bus_combined. Qed.
Print Assumptions C19_resize_refuted_for_bus.

(* Inheritance: whatever a new context / dialer / listener takes over is readable there (and settable
   on the socket); dialers take over all three core dialer options. *)
Theorem C19_inheritance : forall s o,
  inherits s o = true ->
  match s with
  | ICtx p => can_get (KCtx p) o = true /\ can_set (KSock p) o = true
  | IDialer t => can_get (KDialer t) o = true
  | IListener t => can_get (KListener t) o = true
  end.
Proof. exact inherited_is_readable. Qed.
Print Assumptions C19_inheritance.

Theorem C19_dialer_inherits_core : forall t o, mem o core_dialer_rw = true -> inherits (IDialer t) o = true.
Proof. exact dialer_inherits_core. Qed.
Print Assumptions C19_dialer_inherits_core.

(* Operations a pattern does not have give the designated error. *)
Theorem C19_unsupported_ops :
  (forall p, can_recv p = false -> unsup_expected (URecv p) = Some OpProtoOp) /\
  (forall p, can_send p = false -> unsup_expected (USend p) = Some OpProtoOp) /\
  (forall p, has_contexts p = false -> unsup_expected (UOpenCtx p) = Some OpProtoOp) /\
  (forall p, can_recv p = false <-> In p [Ppub; Pxpub; Ppush; Pxpush]) /\
  (forall p, can_send p = false <-> In p [Psub; Pxsub; Ppull; Pxpull]).
Proof. exact unsupported_ops_lemma. Qed.
Print Assumptions C19_unsupported_ops.

Theorem C19_device : forall a b,
  (device_result (Some a) (Some b) = OpOk <->
     (self_num a = peer_num b /\ self_num b = peer_num a /\ is_raw a = true /\ is_raw b = true)) /\
  ((self_num a <> peer_num b \/ self_num b <> peer_num a) -> device_result (Some a) (Some b) = OpBadProto) /\
  (self_num a = peer_num b -> self_num b = peer_num a -> (is_raw a = false \/ is_raw b = false) ->
     device_result (Some a) (Some b) = OpNotRaw).
Proof. exact device_lemma. Qed.
Print Assumptions C19_device.

(* an accepted option value takes effect as the LAST value set: whatever was set before, once WEBSOCKET-CHECKORIGIN is
   (back) on, an upgrade with a foreign Origin is refused; the default is on *)
Theorem C19_last_value_takes_effect : forall sets, effect_expected (EOrigin (sets ++ [true])) = "refused" /\
  effect_expected (EOrigin (sets ++ [false])) = "accepted" /\ effect_expected (EOrigin []) = "refused".
Proof. intro sets. cbn [effect_expected]. rewrite !last_last. auto. Qed.
Print Assumptions C19_last_value_takes_effect.

(* the same for MAX-RCV-SIZE on a listener, whichever way (listener or socket) and whenever (before or after Listen) it
   was set: a connection accepted afterwards is held to the last value -- 0 admits everything, v > 0 admits exactly the
   messages of at most v bytes -- and with nothing set to the 1 MiB default *)
Theorem C19_max_recv_last_value : forall tr via sets v n,
  effect_expected (EMaxRecv tr via (sets ++ [v]) n) = (if ((v =? 0) || (n <=? v))%N then "delivered" else "dropped") /\
  effect_expected (EMaxRecv tr via [] n) = (if (n <=? 1048576)%N then "delivered" else "dropped").
Proof. intros tr via sets v n. cbn [effect_expected]. rewrite last_last. unfold max_recv_admits. split; reflexivity. Qed.
Print Assumptions C19_max_recv_last_value.
