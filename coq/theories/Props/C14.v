(* C14 -- dialers reconnect after loss, back off as configured, stop when closed.  Statements only. *)
From MV Require Import Model.Core Model.CoreOracle Proofs.CoreProofs Proofs.CoreClose.
Open Scope N_scope.

(* a closed dialer never starts a connection attempt, whatever timer or callback asks for one *)
Theorem C14_no_attempt_after_close : forall s d x w, get_d s d = Some x -> kd_closed x = true ->
  forall o, In o (kout (start_dial s d w)) -> o <> DialAttempt d \/ In o (kout s).
Proof. exact start_dial_closed. Qed.
Print Assumptions C14_no_attempt_after_close.

(* back-off: for EVERY draw of the random factor in [1.1, 1.5] (the interval [lo, hi] encloses all of them) the
   delay stays within [ReconnectTime, MaxReconnectTime] and never decreases between successes; with no maximum
   it stays at ReconnectTime *)
Theorem C14_backoff_capped : forall mn mx lo hi, mn <= mx -> mn * 10 <= lo -> lo <= hi -> hi <= mx * 10 ->
  let '(lo', hi') := next_interval mx lo hi in
  mn * 10 <= lo' /\ lo' <= hi' /\ hi' <= mx * 10 /\ lo <= lo' /\ hi <= hi'.
Proof. exact backoff_bounds. Qed.
Print Assumptions C14_backoff_capped.

Theorem C14_backoff_no_max : forall lo hi, next_interval 0 lo hi = (lo, hi).
Proof. exact backoff_no_max. Qed.
Print Assumptions C14_backoff_no_max.

(* EVERY history of stimuli on the model of the repaired core (dialer names not reused after Close): once a dialer or the
   socket has been closed, no later step starts a connection attempt for it -- whatever redial timers are still pending
   (the pipeClosed timer cannot be stopped by Close), whatever pipes come and go.  c14_oracle is the trace oracle the
   correspondence check applies to the implementation's traces. *)
Theorem C14_no_attempt_after_close_all_histories : forall h, wf_from [] h ->
  c14_oracle (kmodel_trace true true kinit h) = None.
Proof. exact no_attempt_after_close_all_histories. Qed.
Print Assumptions C14_no_attempt_after_close_all_histories.

(* the premise is satisfiable: a history with a close, pending timers and later passes meets it *)
Definition c14_witness : list kstim :=
  [ KNewDialer 1 true 30 120; KDial 1 1; KResolve 1 DRefused 0; KPass 100; KResolve 1 DOk 1; KPipeFail 1; KCloseDialer 2 1;
    KPass 400; KNewDialer 2 true 30 0; KDial 3 2; KCloseSock 4; KResolve 2 DRefused 0; KPass 900 ].
Theorem C14_wf_premise_witness : wf_from [] c14_witness.
Proof. apply wf_fromb_sound. vm_compute. reflexivity. Qed.
Print Assumptions C14_wf_premise_witness.

(* EVERY history of stimuli on the model of the repaired core, for every configuration the property quantifies over
   (MaxReconnectTime zero or not below ReconnectTime): at every quiescent point the current reconnect delay of every dialer
   -- the interval [lo, hi] encloses every possible draw of the random back-off factor -- lies within
   [ReconnectTime, MaxReconnectTime], and stays at ReconnectTime when no maximum is set (units: 1/10 ms). *)
From MV Require Import Proofs.CoreBackoff.
Theorem C14_backoff_within_bounds_all_histories : forall h, cfg_hist h ->
  forall d x, get_d (krun kinit h) d = Some x ->
  if kd_max x =? 0 then kd_lo x = kd_min x * 10 /\ kd_hi x = kd_min x * 10
  else kd_min x * 10 <= kd_lo x /\ kd_lo x <= kd_hi x /\ kd_hi x <= kd_max x * 10.
Proof. exact backoff_within_bounds_all_histories. Qed.
Print Assumptions C14_backoff_within_bounds_all_histories.

Theorem C14_cfg_premise_witness : cfg_hist c14_witness.
Proof. cbn. repeat split; auto; right; vm_compute; discriminate. Qed.
Print Assumptions C14_cfg_premise_witness.
