(* C14 -- dialers reconnect after loss, back off as configured, stop when closed.  Statements only. *)
From MV Require Import Model.Core Model.CoreOracle Proofs.CoreProofs.
Open Scope N_scope.

(* a closed dialer never starts a connection attempt, whatever timer or callback asks for one *)
Theorem C14_no_attempt_after_close : forall s d x w, get_d s d = Some x -> kd_closed x = true ->
  forall o, In o (kout (start_dial s d w)) -> o <> DialAttempt d \/ In o (kout s).
Proof. exact start_dial_closed. Qed.
Print Assumptions C14_no_attempt_after_close.

(* back-off: for EVERY draw of the random factor in [1.1, 1.5] (the interval [lo, hi] encloses all of them) the
   delay stays within [ReconnectTime, MaxReconnectTime] and never decreases between successes; with no maximum
   it stays at ReconnectTime *)
Theorem C14_backoff_capped : forall mn mx lo hi, mn <= mx -> mn * 10 <= lo -> lo <= hi -> hi <= mx * 10 ->
  let '(lo', hi') := next_interval mx lo hi in
  mn * 10 <= lo' /\ lo' <= hi' /\ hi' <= mx * 10 /\ lo <= lo' /\ hi <= hi'.
Proof. exact backoff_bounds. Qed.
Print Assumptions C14_backoff_capped.

Theorem C14_backoff_no_max : forall lo hi, next_interval 0 lo hi = (lo, hi).
Proof. exact backoff_no_max. Qed.
Print Assumptions C14_backoff_no_max.
