(* C04 -- REQ re-sends an unanswered request until a peer answers.  Statements only. *)
From MV Require Import Lib.Proto Model.Req Model.ReqOracle Proofs.ReqProofs.
Open Scope N_scope.

(* a stale retry timer (its request was answered, cancelled or replaced) does nothing *)
Theorem C04_stale_resend_noop : forall s c id x,
  aget c (ctxs s) = Some x -> (c_reqID x =? id) && (match c_reqMsg x with Some _ => true | None => false end) = false ->
  resend_message s c id = s.
Proof.
  intros s c id x Hx H. unfold resend_message. rewrite Hx.
  destruct ((c_reqID x =? id) && match c_reqMsg x with Some _ => true | None => false end); [discriminate|reflexivity].
Qed.
Print Assumptions C04_stale_resend_noop.
