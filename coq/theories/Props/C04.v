(* C04 -- REQ re-sends an unanswered request until a peer answers.  Statements only. *)
From MV Require Import Lib.Proto Model.Req Model.ReqOracle Proofs.ReqProofs.
Open Scope N_scope.

(* a stale retry timer (its request was answered, cancelled or replaced) does nothing *)
Theorem C04_stale_resend_noop : forall s c id x,
  aget c (ctxs s) = Some x -> (c_reqID x =? id) && (match c_reqMsg x with Some _ => true | None => false end) = false ->
  resend_message s c id = s.
Proof.
  intros s c id x Hx H. unfold resend_message. rewrite Hx.
  destruct ((c_reqID x =? id) && match c_reqMsg x with Some _ => true | None => false end); [discriminate|reflexivity].
Qed.
Print Assumptions C04_stale_resend_noop.

From MV Require Import Proofs.ReqResend.

(* for EVERY state: whatever the send loop writes to a pipe is the message stored in the context -- header = the id the
   request was given when it was accepted, body = its bytes -- never another context's, never a reply, never altered *)
Theorem C04_transmission_is_stored_request : forall s c p x pp sq rq,
  exists mid body, (match c_reqMsg (sched_ctx x p) with Some m => m | None => (0, []) end) = (mid, body) /\
    out (send_one s c p x pp sq rq) = OTx p (req_hdr mid) body :: out s.
Proof. exact send_one_tx. Qed.
Print Assumptions C04_transmission_is_stored_request.

(* for EVERY state in which a context still waits for the answer to request `id` (nothing queued, a pipe ready): when its
   retry timer fires, exactly that request is written again -- same id, same bytes -- once, to the first ready pipe, which
   then returns to the ready queue *)
Theorem C04_retry_retransmits_the_request : forall s c id x mid body p rq pp,
  aget c (ctxs s) = Some x -> c_reqID x = id -> c_reqMsg x = Some (mid, body) -> c_sendMsg x = None -> c_queued x = false ->
  sendQ s = [] -> readyQ s = p :: rq -> get_pipe s p = Some pp -> pp_hold pp = false ->
  let s' := resend_message s c id in
  out s' = OTx p (req_hdr mid) body :: out s /\ readyQ s' = rq ++ [p] /\ sendQ s' = [].
Proof. exact resend_transmits_own_request. Qed.
Print Assumptions C04_retry_retransmits_the_request.

(* for EVERY state: once a reply matching a registered request has arrived, the stored request is gone -- whatever retry
   timer fires afterwards (whichever id it carries) re-sends nothing *)
Theorem C04_no_retransmission_after_reply : forall fixed s p a b c' d payload id cx,
  wire_key fixed (be_dec [a; b; c'; d]) = Some id ->
  aget id (ctxByID s) = Some cx ->
  (exists x, aget cx (ctxs (cancel_send s cx)) = Some x) ->
  let s' := pipe_recv fixed s p (a :: b :: c' :: d :: payload) in
  (exists x', aget cx (ctxs s') = Some x' /\ c_reqMsg x' = None /\ c_repMsg x' = Some (id, payload)) /\
  forall id', resend_message s' cx id' = s'.
Proof. exact no_resend_after_reply. Qed.
Print Assumptions C04_no_retransmission_after_reply.

(* the retry timer armed with a transmission is due exactly one retry interval after it (never sooner) *)
Theorem C04_retry_timer_due : forall s c k ms, exists tm, In tm (timers (fst (arm s c k ms))) /\ tm_id tm = snd (arm s c k ms) /\
  tm_due tm = now s + ms /\ tm_kind tm = k /\ tm_ctx tm = c.
Proof. exact arm_due. Qed.
Print Assumptions C04_retry_timer_due.
