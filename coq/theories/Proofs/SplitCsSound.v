(* Soundness of the check-then-act analysis (Model/SplitCs.v): if a function passes (certificate + no block reports),
   then along EVERY path through its control-flow graph the same transfer functions, run on the concrete facts of that
   path alone, never report a write on a stale reading. *)
From Coq Require Import Arith Lia.
From MV Require Import Model.RaceCfg.
From MV Require Import Model.SplitCs.
Open Scope N_scope.

(* ---- sets as membership predicates ---- *)
Definition sub (a b : list N) : Prop := forall x, cmem x a = true -> cmem x b = true.

Lemma in_cmem x a : In x a -> cmem x a = true.
Proof. induction a as [|y a IH]; [intros []|]. cbn. intros [E|H]; [subst; rewrite N.eqb_refl; reflexivity|rewrite (IH H); apply orb_true_r]. Qed.
Lemma cmem_in x a : cmem x a = true -> In x a.
Proof.
  induction a as [|y a IH]; [discriminate|]. cbn. intro H. apply orb_true_iff in H. destruct H as [E|H]; [apply N.eqb_eq in E; left; exact E|right; apply IH, H].
Qed.
Lemma csub_sub a b : csub a b = true <-> sub a b.
Proof.
  unfold csub, sub. rewrite forallb_forall. split.
  - intros H x Hx. apply H. apply cmem_in. exact Hx.
  - intros H x Hx. apply H. apply in_cmem. exact Hx.
Qed.
Lemma sub_refl a : sub a a. Proof. intros x H. exact H. Qed.
Lemma sub_trans a b c : sub a b -> sub b c -> sub a c. Proof. intros H1 H2 x H. apply H2, H1, H. Qed.

Lemma cmem_cadd x c h : cmem x (cadd c h) = (c =? x) || cmem x h.
Proof.
  unfold cadd. destruct (cmem c h) eqn:E; [|reflexivity].
  destruct (c =? x) eqn:Q; [apply N.eqb_eq in Q; subst; rewrite E; reflexivity|reflexivity].
Qed.
Lemma cmem_cdel x c h : cmem x (cdel c h) = negb (c =? x) && cmem x h.
Proof.
  induction h as [|y h IH]; cbn; [rewrite andb_false_r; reflexivity|].
  destruct (y =? c) eqn:Q.
  - apply N.eqb_eq in Q. subst y. rewrite IH. destruct (c =? x); reflexivity.
  - cbn. rewrite IH. destruct (y =? x) eqn:R; [|reflexivity]. apply N.eqb_eq in R. subst y.
    rewrite N.eqb_sym in Q. rewrite Q. reflexivity.
Qed.
Lemma cmem_filter x p h : cmem x (filter p h) = p x && cmem x h.
Proof.
  induction h as [|y h IH]; cbn; [rewrite andb_false_r; reflexivity|].
  destruct (p y) eqn:P; cbn; rewrite IH.
  - destruct (y =? x) eqn:Q; [apply N.eqb_eq in Q; subst; rewrite P; reflexivity|reflexivity].
  - destruct (y =? x) eqn:Q; [apply N.eqb_eq in Q; subst; rewrite P; reflexivity|reflexivity].
Qed.
Lemma cmem_nunion x a b : cmem x (nunion a b) = cmem x a || cmem x b.
Proof.
  unfold nunion. revert a. induction b as [|y b IH]; intro a; cbn; [rewrite orb_false_r; reflexivity|].
  rewrite IH, cmem_cadd. destruct (y =? x); destruct (cmem x a); destruct (cmem x b); reflexivity.
Qed.
Lemma nil_iff (h : list N) : is_nil h = true <-> forall x, cmem x h = false.
Proof.
  destruct h as [|y h]; cbn; split; auto; [discriminate|]. intro H. specialize (H y). rewrite N.eqb_refl in H. discriminate.
Qed.
Lemma nil_equiv a b : sub a b -> sub b a -> is_nil a = is_nil b.
Proof.
  intros H1 H2. destruct a as [|y a]; destruct b as [|z b]; try reflexivity; exfalso.
  - specialize (H2 z). cbn in H2. rewrite N.eqb_refl in H2. discriminate (H2 eq_refl).
  - specialize (H1 y). cbn in H1. rewrite N.eqb_refl in H1. discriminate (H1 eq_refl).
Qed.

(* ---- a covers c ---- *)
Record covers (a c : sst) : Prop := {
  cv_must : sub (s_must a) (s_must c);
  cv_may : sub (s_may c) (s_may a);
  cv_wr : sub (s_wr a) (s_wr c);
  cv_stale : sub (s_stale c) (s_stale a);
  cv_h1 : sub (s_held a) (s_held c);
  cv_h2 : sub (s_held c) (s_held a) }.

Lemma sst_le_covers c a : sst_le c a = true <-> covers a c.
Proof.
  unfold sst_le. rewrite !andb_true_iff, !csub_sub. split.
  - intros [[[[[A B] C] D] E] F]. constructor; assumption.
  - intros [A B C D E F]. repeat split; assumption.
Qed.
Lemma covers_refl a : covers a a. Proof. constructor; apply sub_refl. Qed.
Lemma covers_trans t a c : covers t a -> covers a c -> covers t c.
Proof. intros [A1 B1 C1 D1 E1 F1] [A2 B2 C2 D2 E2 F2]. constructor; eauto using sub_trans. Qed.

Ltac memb := repeat (rewrite ?cmem_cadd, ?cmem_cdel, ?cmem_filter, ?cmem_nunion in * ).

Lemma instr_covers a c i : covers a c ->
  covers (fst (sp_instr a i)) (fst (sp_instr c i)) /\ (forall f, In f (snd (sp_instr c i)) -> In f (snd (sp_instr a i))).
Proof.
  intros [A B C D E F]. destruct i as [k|k|k|w f|g|g]; cbn [sp_instr].
  - split; [|intros f []]. cbn. constructor; cbn; auto; intros x; memb; intro H; apply orb_true_iff in H; apply orb_true_iff; destruct H; auto.
  - assert (Hn : is_nil (cdel k (s_held a)) = is_nil (cdel k (s_held c))).
    { apply nil_equiv; intros x; memb; intro H; apply andb_true_iff in H; apply andb_true_iff; destruct H; split; auto. }
    rewrite Hn. destruct (is_nil (cdel k (s_held c))); (split; [|intros f []]); cbn; constructor; cbn; auto; try apply sub_refl.
    + intros x. memb. intro H. apply orb_true_iff in H. apply orb_true_iff. destruct H as [H|H]; [left; auto|right].
      apply andb_true_iff in H. destruct H as [H1 H2]. apply andb_true_iff. split; [|auto].
      apply negb_true_iff. apply negb_true_iff in H1. destruct (cmem x (s_wr a)) eqn:Q; [rewrite (C x Q) in H1; discriminate|reflexivity].
    + intros x; memb; intro H; apply andb_true_iff in H; apply andb_true_iff; destruct H; split; auto.
    + intros x; memb; intro H; apply andb_true_iff in H; apply andb_true_iff; destruct H; split; auto.
  - split; [cbn; constructor; assumption|intros f []].
  - assert (Hn : is_nil (s_held a) = is_nil (s_held c)) by (apply nil_equiv; assumption).
    rewrite Hn. destruct (is_nil (s_held c)); cbn [fst snd].
    + split; [constructor; assumption|intros x []].
    + split.
      * constructor; cbn; auto.
        -- intros x; memb; intro H; apply orb_true_iff in H; apply orb_true_iff; destruct H; auto.
        -- destruct w; [exact B|]. intros x; memb; intro H; apply orb_true_iff in H; apply orb_true_iff; destruct H; auto.
        -- destruct w; [|exact C]. intros x; memb; intro H; apply orb_true_iff in H; apply orb_true_iff; destruct H; auto.
        -- intros x; memb; intro H; apply andb_true_iff in H; apply andb_true_iff; destruct H; split; auto.
      * intros x Hx. destruct w; cbn in *; [|destruct Hx].
        destruct (cmem f (s_stale c)) eqn:S1; cbn in Hx; [|destruct Hx].
        destruct (cmem f (s_must c)) eqn:M1; cbn in Hx; [destruct Hx|].
        rewrite (D f S1). destruct (cmem f (s_must a)) eqn:M2; [rewrite (A f M2) in M1; discriminate|]. exact Hx.
  - split; [cbn; constructor; assumption|intros f []].
  - split; [cbn; constructor; assumption|intros f []].
Qed.

Lemma body_covers : forall b a c, covers a c ->
  covers (fst (sp_body a b)) (fst (sp_body c b)) /\ (forall f, In f (snd (sp_body c b)) -> In f (snd (sp_body a b))).
Proof.
  induction b as [|i b IH]; intros a c H; cbn [sp_body]; [split; [exact H|intros f []]|].
  destruct (instr_covers a c i H) as [H1 V1].
  destruct (sp_instr a i) as [a1 va]. destruct (sp_instr c i) as [c1 vc]. cbn [fst snd] in *.
  destruct (IH a1 c1 H1) as [H2 V2].
  destruct (sp_body a1 b) as [a2 va2]. destruct (sp_body c1 b) as [c2 vc2]. cbn [fst snd] in *.
  split; [exact H2|]. intros f Hf. apply in_app_or in Hf. apply in_or_app. destruct Hf; [left; apply V1|right; apply V2]; assumption.
Qed.

Lemma along_covers i n a c : covers a c -> covers (along i n a) (along i n c).
Proof. intros [A B C D E F]. unfold along. destruct (Nat.leb n i); constructor; cbn; auto. intros x H. discriminate. Qed.

(* ---- paths ---- *)
Fixpoint sp_valid (f : rfunc) (cur : nat) (p : list nat) : bool :=
  match p with
  | [] => true
  | n :: r => existsb (Nat.eqb n) (match nth_error (rblocks f) cur with Some b => rsuccs b | None => [] end) && sp_valid f n r
  end.
(* what one path reports: the block at [cur] is executed from state s, then the path continues *)
Fixpoint sp_path (f : rfunc) (cur : nat) (s : sst) (p : list nat) : list N :=
  match nth_error (rblocks f) cur with
  | None => []
  | Some b =>
    let '(s', v) := sp_body s (rbody b) in
    v ++ match p with [] => [] | n :: r => sp_path f n (along cur n s') r end
  end.

Theorem split_sound f entry : sp_func_ok f entry = true ->
  forall p, sp_valid f 0 p = true -> sp_path f 0 (s0 entry) p = [].
Proof.
  unfold sp_func_ok. set (A := sp_compute f entry). intro H. apply andb_true_iff in H. destruct H as [Hc Hv].
  unfold sp_cert_ok in Hc. apply andb_true_iff in Hc. destruct Hc as [Hc Hb]. apply andb_true_iff in Hc. destruct Hc as [Hlen H0].
  assert (Hnov : forall i, sp_block_viol f A i = []).
  { intro i. unfold sp_violations in Hv. fold A in Hv.
    destruct (Nat.ltb i (length (rblocks f))) eqn:Li.
    - apply Nat.ltb_lt in Li.
      assert (Hin : In i (seq 0 (length (rblocks f)))) by (apply in_seq; lia).
      destruct (sp_block_viol f A i) as [|x l] eqn:Ev; [reflexivity|].
      exfalso. assert (In x (flat_map (sp_block_viol f A) (seq 0 (length (rblocks f))))).
      { apply in_flat_map. exists i. split; [exact Hin|rewrite Ev; left; reflexivity]. }
      destruct (flat_map (sp_block_viol f A) (seq 0 (length (rblocks f)))); [destruct H|discriminate].
    - apply Nat.ltb_ge in Li. unfold sp_block_viol. destruct (nth_error A i) as [[s|]|]; try reflexivity.
      destruct (nth_error (rblocks f) i) eqn:E; [|reflexivity].
      assert (Hlt : (i < length (rblocks f))%nat) by (apply nth_error_Some; rewrite E; discriminate). lia. }
  assert (Hgen : forall p cur t c, nth_error A cur = Some (Some t) -> covers t c -> sp_valid f cur p = true -> sp_path f cur c p = []).
  { induction p as [|n r IH]; intros cur t c Ht Hcov Hval; cbn [sp_path].
    - destruct (nth_error (rblocks f) cur) as [b|] eqn:Eb; [|reflexivity].
      destruct (body_covers (rbody b) t c Hcov) as [_ V]. pose proof (Hnov cur) as Hz. unfold sp_block_viol in Hz. rewrite Ht, Eb in Hz.
      destruct (sp_body c (rbody b)) as [c' vc]. cbn [snd] in V. rewrite app_nil_r.
      destruct vc as [|x l]; [reflexivity|]. specialize (V x (or_introl eq_refl)). rewrite Hz in V. destruct V.
    - cbn [sp_valid] in Hval. apply andb_true_iff in Hval. destruct Hval as [Hs Hval].
      destruct (nth_error (rblocks f) cur) as [b|] eqn:Eb; [|reflexivity].
      destruct (body_covers (rbody b) t c Hcov) as [Hc' V]. pose proof (Hnov cur) as Hz. unfold sp_block_viol in Hz. rewrite Ht, Eb in Hz.
      assert (Hcur : (cur < length (rblocks f))%nat) by (apply nth_error_Some; rewrite Eb; discriminate).
      assert (Hok : sp_block_ok f A cur = true).
      { rewrite forallb_forall in Hb. apply Hb. apply in_seq. lia. }
      unfold sp_block_ok in Hok. rewrite Ht, Eb in Hok. rewrite forallb_forall in Hok.
      apply existsb_exists in Hs. destruct Hs as (n' & Hn' & En). apply Nat.eqb_eq in En. subst n'.
      specialize (Hok n Hn'). destruct (nth_error A n) as [[tn|]|] eqn:En; try discriminate Hok.
      apply sst_le_covers in Hok.
      destruct (sp_body c (rbody b)) as [c' vc]. destruct (sp_body t (rbody b)) as [t' vt]. cbn [fst snd] in *.
      assert (vc = []). { destruct vc as [|x l]; [reflexivity|]. specialize (V x (or_introl eq_refl)). rewrite Hz in V. destruct V. }
      subst vc. cbn [app].
      apply (IH n tn (along cur n c') En); [|exact Hval].
      eapply covers_trans; [exact Hok|]. apply along_covers. exact Hc'. }
  intros p Hp.
  destruct (nth_error A 0) as [[t|]|] eqn:E0.
  - apply sst_le_covers in H0. apply (Hgen p 0%nat t (s0 entry) E0 H0 Hp).
  - destruct (rblocks f) eqn:Eb; [|discriminate H0]. destruct p; cbn; rewrite Eb; reflexivity.
  - destruct (rblocks f) eqn:Eb; [|discriminate H0]. destruct p; cbn; rewrite Eb; reflexivity.
Qed.

Lemma in_combine_seq {A} (l : list A) : forall i x k, nth_error l i = Some x -> In ((k + i)%nat, x) (combine (seq k (length l)) l).
Proof.
  induction l as [|y l IH]; intros i x k H; [destruct i; discriminate|].
  destruct i as [|i]; cbn in *.
  - inversion H; subst. left. rewrite Nat.add_0_r. reflexivity.
  - right. replace (k + S i)%nat with (S k + i)%nat by lia. apply IH. exact H.
Qed.

(* the whole program: what the generated obligation (sp_all_ok ... = true, by vm_compute on the regenerated skeleton)
   establishes for every function that is not a constructor and every path through it *)
Theorem sp_all_sound top prog E : sp_all_ok top prog E = true ->
  forall i f, nth_error prog i = Some f -> rctor f = false ->
  forall p, sp_valid f 0 p = true -> sp_path f 0 (s0 (entry_of top E (N.of_nat i))) p = [].
Proof.
  unfold sp_all_ok. intros H i f Hf Hc p Hp. rewrite forallb_forall in H.
  specialize (H (i, f) (in_combine_seq prog i f 0%nat Hf)). cbn in H. rewrite Hc in H. cbn in H.
  apply split_sound; assumption.
Qed.
