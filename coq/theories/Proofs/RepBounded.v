(* C05: the trace oracle accepts the model's own trace of EVERY history up to a small length over a small
   alphabet of stimuli (all interleavings of requests on two pipes, Recv/Send on two contexts, pipe loss, held
   and released sends, context close; raw: routed, re-addressed and unroutable sends) -- by evaluation. *)
From MV Require Import Lib.Proto Model.Hops Model.Rep Model.RepOracle Proofs.RepProofs.
Open Scope N_scope.

Inductive shape :=
| ShDrop (p : N) | ShReq (p : N) (deep : bool) | ShRecv (c : N) | ShSend (c : N)
| ShHold (p : N) (h : bool) | ShRelease (p : N) (ok : bool) | ShCloseCtx (c : N)
| ShRawSend (p : N) (deep : bool) | ShRawBad.

(* routing header of the requests sent on pipe p: one id word, or two device words and an id word *)
Definition bt_of (p : N) (deep : bool) : list N := if deep then [p; 7; hi (40 + p)] else [hi (20 + p)].

(* the i-th stimulus of a history gets call id, request number and reply number i *)
Definition inst (i : N) (sh : shape) : stim :=
  match sh with
  | ShDrop p => SDropPipe p
  | ShReq p deep => SDeliver p (rq (bt_of p deep) i)
  | ShRecv c => SCall i (CRecv c)
  | ShSend c => SCall i (CSend c [] (rp i))
  | ShHold p h => SHold p h
  | ShRelease p ok => SRelease p ok
  | ShCloseCtx c => SCall i (CCloseCtx c)
  | ShRawSend p deep => SCall i (CSend 0 (be_enc 4 (pipe_id p) ++ flat_map (be_enc 4) (bt_of p deep)) (rp i))
  | ShRawBad => SCall i (CSend 0 (be_enc 4 1009 ++ be_enc 4 (hi 1)) (rp i))
  end.
Fixpoint inst_from (i : N) (l : list shape) : list stim :=
  match l with [] => [] | sh :: r => inst i sh :: inst_from (N.succ i) r end.

Fixpoint all_lists {A} (alpha : list A) (n : nat) : list (list A) :=
  match n with O => [[]] | S m => flat_map (fun h => map (fun a => a :: h) alpha) (all_lists alpha m) end.

Lemma all_lists_complete {A} (alpha : list A) : forall n l,
  length l = n -> Forall (fun a => In a alpha) l -> In l (all_lists alpha n).
Proof.
  induction n as [|n IH]; intros l L F.
  - destruct l; [left; reflexivity|discriminate].
  - destruct l as [|a l]; [discriminate|]. inversion F; subst. cbn [all_lists].
    apply in_flat_map. exists l. split; [apply IH; [cbn in L; congruence|assumption]|].
    apply in_map_iff. exists a. split; [reflexivity|assumption].
Qed.

(* two contexts (cooked), two pipes *)
Definition prefix : list stim := [SCall 1 (COpenCtx 1); SAddPipe 1; SAddPipe 2].
Definition cooked_alpha : list shape :=
  [ShDrop 1; ShReq 1 false; ShReq 2 true; ShRecv 0; ShRecv 1; ShSend 0; ShSend 1; ShHold 1 true; ShRelease 1 true; ShCloseCtx 1].
Definition raw_alpha : list shape :=
  [ShDrop 1; ShReq 1 false; ShReq 2 true; ShRecv 0; ShRawSend 1 false; ShRawSend 2 true; ShRawSend 1 true; ShRawBad; ShHold 1 true; ShRelease 1 true].

Definition accepts (k : kind) (l : list shape) : bool :=
  match c05_oracle_k k (model_trace k (init k) (prefix ++ inst_from 10 l)) with None => true | Some _ => false end.

Lemma accepts_all_cooked : forallb (accepts KRep) (all_lists cooked_alpha 5) && forallb (accepts KRespondent) (all_lists cooked_alpha 5) = true.
Proof. vm_cast_no_check (eq_refl true). Qed.
Lemma accepts_all_raw : forallb (accepts KXRep) (all_lists raw_alpha 4) && forallb (accepts KXRespondent) (all_lists raw_alpha 4) = true.
Proof. vm_cast_no_check (eq_refl true). Qed.

Lemma forallb_all_lists {A} (alpha : list A) n (f : list A -> bool) :
  forallb f (all_lists alpha n) = true -> forall l, length l = n -> Forall (fun a => In a alpha) l -> f l = true.
Proof. intros H l L F. rewrite forallb_forall in H. apply H, all_lists_complete; assumption. Qed.

Lemma accepts_none k l : accepts k l = true -> c05_oracle_k k (model_trace k (init k) (prefix ++ inst_from 10 l)) = None.
Proof. unfold accepts. destruct (c05_oracle_k k (model_trace k (init k) (prefix ++ inst_from 10 l))); [discriminate|reflexivity]. Qed.

Global Opaque all_lists accepts.

Lemma oracle_accepts_model_short_cooked k l :
  k = KRep \/ k = KRespondent -> length l = 5%nat -> Forall (fun a => In a cooked_alpha) l ->
  c05_oracle_k k (model_trace k (init k) (prefix ++ inst_from 10 l)) = None.
Proof.
  intros K L F. apply accepts_none. pose proof accepts_all_cooked as H. apply andb_true_iff in H. destruct H as (H1 & H2).
  destruct K as [->| ->]; [exact (forallb_all_lists _ _ _ H1 l L F)|exact (forallb_all_lists _ _ _ H2 l L F)].
Qed.

Lemma oracle_accepts_model_short_raw k l :
  k = KXRep \/ k = KXRespondent -> length l = 4%nat -> Forall (fun a => In a raw_alpha) l ->
  c05_oracle_k k (model_trace k (init k) (prefix ++ inst_from 10 l)) = None.
Proof.
  intros K L F. apply accepts_none. pose proof accepts_all_raw as H. apply andb_true_iff in H. destruct H as (H1 & H2).
  destruct K as [->| ->]; [exact (forallb_all_lists _ _ _ H1 l L F)|exact (forallb_all_lists _ _ _ H2 l L F)].
Qed.
