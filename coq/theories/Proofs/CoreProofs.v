From MV Require Import Model.Core Model.CoreOracle.
From Coq Require Import Lia ZifyBool ZifyN ZifyNat.
Open Scope N_scope.

(* ---- dialer ---- *)

(* a closed dialer never starts a transport dial (timers may fire: they are no-ops) *)
Lemma start_dial_closed s d x w : get_d s d = Some x -> kd_closed x = true ->
  forall o, In o (kout (start_dial s d w)) -> o <> DialAttempt d \/ In o (kout s).
Proof.
  intros Hg Hc o Ho. unfold start_dial in Ho. rewrite Hg, Hc in Ho.
  destruct w as [t|]; cbn in Ho.
  - destruct Ho as [<-|Ho]; [left; discriminate|right; exact Ho].
  - right; exact Ho.
Qed.

(* the delay after a failed redial: with a maximum >= the minimum the interval stays within [min, max] and
   never shrinks; with no maximum it does not change *)
Definition next_interval (mx lo hi : N) : N * N :=
  if mx =? 0 then (lo, hi) else (N.min (mx * 10) (lo * 11 / 10), N.min (mx * 10) (ceil_mul hi 15 10)).

Lemma backoff_bounds mn mx lo hi : mn <= mx -> mn * 10 <= lo -> lo <= hi -> hi <= mx * 10 ->
  let '(lo', hi') := next_interval mx lo hi in
  mn * 10 <= lo' /\ lo' <= hi' /\ hi' <= mx * 10 /\ lo <= lo' /\ hi <= hi'.
Proof.
  intros H1 H2 H3 H4. unfold next_interval.
  destruct (N.eqb_spec mx 0) as [->|Hm]; [lia|].
  assert (A : lo <= lo * 11 / 10) by (apply N.div_le_lower_bound; lia).
  assert (B : hi <= ceil_mul hi 15 10) by (unfold ceil_mul; apply N.div_le_lower_bound; lia).
  assert (C : lo * 11 / 10 <= ceil_mul hi 15 10).
  { unfold ceil_mul. apply N.div_le_mono; lia. }
  repeat split; lia.
Qed.

Lemma backoff_no_max lo hi : next_interval 0 lo hi = (lo, hi).
Proof. reflexivity. Qed.

(* ---- pipe lifecycle: what one addPipe emits, for every state ---- *)
Definition fresh (s : kstate) (p : N) : Prop := get_p s p = None.

Lemma get_p_app_new s p x : fresh s p -> kp x = p ->
  find (fun y => kp y =? p) (kpipes s ++ [x]) = Some x.
Proof.
  unfold fresh, get_p. intros Hf Hk. induction (kpipes s) as [|y l IH]; cbn in *.
  - rewrite Hk, N.eqb_refl. reflexivity.
  - destruct (kp y =? p); [discriminate|]. apply IH, Hf.
Qed.
