(* C08: lemmas about Model/BusStar.v (BUS, STAR) and the STAR network theorem.  Statements are collected in Props/C08.v. *)
From MV Require Import Model.BusStar Model.BusStarOracle Proofs.HopsProofs Proofs.PairPushProofs.
From Coq Require Import ZifyBool ZifyN ZifyNat.
Open Scope N_scope.

Definition idle (b : bp) : bool := negb (bp_infl b) && is_nil (bp_sq b).
Definition otx (m : msg) (b : bp) : obs := OTx (bp_id b) (fst m) (snd m).

(* what one fan-out writes: exactly one copy to every targeted pipe whose sender goroutine is waiting *)
Lemma fan_obs tgt m ps : snd (fan tgt m ps) = map (otx m) (filter (fun b => tgt b && idle b) ps).
Proof.
  unfold fan. cbn [snd]. induction ps as [|b ps IH]; [reflexivity|].
  cbn [flat_map filter]. rewrite IH. destruct (tgt b); cbn [andb]; [|reflexivity].
  unfold offer, idle. destruct (negb (bp_infl b) && is_nil (bp_sq b)); [reflexivity|].
  destruct (qlen (bp_sq b) <? bp_cap b); reflexivity.
Qed.

(* ... and the pipe list keeps its ids *)
Lemma offer_id m b : bp_id (fst (offer m b)) = bp_id b.
Proof.
  unfold offer. destruct (negb (bp_infl b) && is_nil (bp_sq b)); [destruct (bp_hold b); reflexivity|].
  destruct (qlen (bp_sq b) <? bp_cap b); reflexivity.
Qed.
Lemma fan_ids tgt m ps : map bp_id (fst (fan tgt m ps)) = map bp_id ps.
Proof.
  unfold fan. cbn [fst]. rewrite List.map_map. apply List.map_ext. intro b. destruct (tgt b); [apply offer_id|reflexivity].
Qed.

(* ---- BUS Send ---- *)
Lemma bus_send_exact (cooked : bool) s t c hdr body :
  b_closed s = false ->
  let '(skip, h) := bus_skip (if cooked then [] else hdr) in
  snd (b_step false cooked s (SCall t (CSend c hdr body))) =
  map (otx (h, body)) (filter (fun b => negb (pipe_id (bp_id b) =? skip) && idle b) (b_pipes s)) ++ [ORet t ROk].
Proof.
  intro Hc. cbn [b_step]. unfold b_send. rewrite Hc.
  destruct (bus_skip (if cooked then [] else hdr)) as [skip h].
  pose proof (fan_obs (fun b => negb (pipe_id (bp_id b) =? skip)) (h, body) (b_pipes s)) as Hf.
  destruct (fan (fun b => negb (pipe_id (bp_id b) =? skip)) (h, body) (b_pipes s)) as [ps o]. cbn [snd] in *.
  rewrite Hf. reflexivity.
Qed.

(* a raw Send whose 4-byte header names a pipe never writes to that pipe *)
Lemma bus_no_echo s t c hdr body p h b :
  length hdr = 4%nat ->
  In (OTx p h b) (snd (b_step false false s (SCall t (CSend c hdr body)))) -> pipe_id p <> be_dec hdr.
Proof.
  intros Hl Hin. destruct (b_closed s) eqn:Hc.
  { cbn [b_step] in Hin. unfold b_send in Hin. rewrite Hc in Hin. cbn in Hin. destruct Hin as [H|[]]; discriminate. }
  pose proof (bus_send_exact false s t c hdr body Hc) as H.
  unfold bus_skip in H. rewrite Hl in H. cbn [Nat.eqb] in H. cbv beta iota in H. rewrite H in Hin.
  apply in_app_or in Hin as [Hin|[Hin|[]]]; [|discriminate].
  apply in_map_iff in Hin as (x & Hx & Hin). apply filter_In in Hin as [_ Hin].
  apply andb_true_iff in Hin as [Hin _]. unfold otx in Hx. inversion Hx; subst. intro E. rewrite E, N.eqb_refl in Hin. discriminate.
Qed.

(* device forwarding: the header a raw BUS socket puts on a message from pipe src is the pipe's id ... *)
Lemma bus_deliver_header ttl src wire : rx_model RXBus ttl (pipe_id src) wire = Some (Deliver (be_enc 4 (pipe_id src)) wire).
Proof. reflexivity. Qed.

Lemma pipe_id_roundtrip src : src < 2 ^ 31 -> be_dec (be_enc 4 (pipe_id src)) = pipe_id src.
Proof. intro H. apply be_dec_enc. unfold pipe_id. change (256 ^ N.of_nat 4) with 4294967296. change (2 ^ 31) with 2147483648 in H. lia. Qed.

(* ... and re-sending the message with that header writes it exactly once to every pipe able to take it except src *)
Lemma bus_raw_forward_skips_source s t c src body :
  src < 2 ^ 31 -> b_closed s = false ->
  snd (b_step false false s (SCall t (CSend c (be_enc 4 (pipe_id src)) body))) =
  map (otx ([], body)) (filter (fun b => negb (bp_id b =? src) && idle b) (b_pipes s)) ++ [ORet t ROk].
Proof.
  intros Hs Hc. pose proof (bus_send_exact false s t c (be_enc 4 (pipe_id src)) body Hc) as H.
  unfold bus_skip in H. rewrite be_enc_length in H. cbn [Nat.eqb] in H. rewrite H, (pipe_id_roundtrip src Hs).
  f_equal. f_equal. apply filter_ext. intro b. f_equal. f_equal. unfold pipe_id.
  destruct (N.eqb_spec (1000 + bp_id b) (1000 + src)); destruct (N.eqb_spec (bp_id b) src); try reflexivity; lia.
Qed.

(* a cooked BUS socket ignores whatever header the application left: every pipe able to take the message gets it *)
Lemma bus_cooked_send_all s t c hdr body :
  b_closed s = false ->
  snd (b_step false true s (SCall t (CSend c hdr body))) = map (otx ([], body)) (filter idle (b_pipes s)) ++ [ORet t ROk].
Proof.
  intro Hc. pose proof (bus_send_exact true s t c hdr body Hc) as H.
  unfold bus_skip in H. cbn [length Nat.eqb] in H. cbv beta iota in H. rewrite H. f_equal. f_equal.
  apply filter_ext. intro b. unfold pipe_id. destruct (N.eqb_spec (1000 + bp_id b) 0); [lia|reflexivity].
Qed.

(* ---- BUS never passes a received message on (cooked or raw: forwarding is the application's / device's business) ---- *)
Lemma up_arrive_no_tx view p m rq cap br rxw : txs_of (snd (up_arrive view p m rq cap br rxw)) = [].
Proof. unfold up_arrive. destruct br; [destruct (qlen rq <? cap)|]; reflexivity. Qed.

Lemma bus_no_forward cooked s p wire : txs_of (snd (b_step false cooked s (SDeliver p wire))) = [].
Proof.
  cbn [b_step]. destruct (b_attached s p && _); [|reflexivity].
  unfold b_deliver. cbn [rx_model andb].
  pose proof (up_arrive_no_tx (b_view cooked) p (be_enc 4 (pipe_id p), wire) (b_rq s) (b_rqlen s) (b_br s) (b_rxw s)) as H.
  destruct (up_arrive (b_view cooked) p (be_enc 4 (pipe_id p), wire) (b_rq s) (b_rqlen s) (b_br s) (b_rxw s)) as [[[rq br] w] o2].
  cbn [snd app] in *. exact H.
Qed.

(* ---- STAR: a received message goes to every other pipe (able to take it), hop byte incremented, and once up ---- *)
Lemma star_forward_all_but_source cooked s p wire h b :
  b_closed s = false -> b_attached s p = true -> existsb (fun e => fst e =? p) (b_rxw s ++ b_srxw s) = false ->
  rx_xstar (b_ttl s) wire = Deliver h b ->
  exists up, snd (b_step true cooked s (SDeliver p wire)) =
             map (otx (h, b)) (filter (fun q => negb (bp_id q =? p) && idle q) (b_pipes s)) ++ up
             /\ txs_of up = []
             /\ (up = [] \/ exists t, up = [ORet t (b_view cooked (h, b))]).
Proof.
  intros Hc Ha Hw Hr. cbn [b_step]. rewrite Ha, Hw. cbn [negb andb]. unfold b_deliver. cbn [rx_model]. rewrite Hr, Hc.
  pose proof (fan_obs (fun q => negb (bp_id q =? p)) (h, b) (b_pipes s)) as Hf.
  destruct (fan (fun q => negb (bp_id q =? p)) (h, b) (b_pipes s)) as [ps o1]. cbn [snd] in Hf. cbn [andb].
  unfold up_arrive. destruct (b_br s) as [|x r].
  - destruct (qlen (b_rq s) <? b_rqlen s); cbn [snd]; exists []; rewrite Hf; auto.
  - cbn [snd]. exists [ORet (br_t x) (b_view cooked (h, b))]. rewrite Hf. split; [reflexivity|]. split; [reflexivity|]. right. eauto.
Qed.

(* STAR Send: one copy to every pipe able to take it; the cooked header is four zero bytes (hop count 0) *)
Lemma star_send_exact (cooked : bool) s t c hdr body :
  b_closed s = false ->
  let h := if cooked then [x00; x00; x00; x00] else hdr in
  length h = 4%nat ->
  snd (b_step true cooked s (SCall t (CSend c hdr body))) = map (otx (h, body)) (filter idle (b_pipes s)) ++ [ORet t ROk].
Proof.
  intros Hc h Hl. cbn [b_step]. unfold b_send. rewrite Hc. fold h. rewrite Hl. cbn [Nat.eqb].
  pose proof (fan_obs (fun _ => true) (h, body) (b_pipes s)) as Hf.
  destruct (fan (fun _ => true) (h, body) (b_pipes s)) as [ps o]. cbn [snd] in *. rewrite Hf. reflexivity.
Qed.

(* ---- the hop byte of a well-formed message ---- *)
Lemma star_hop_incremented ttl d payload :
  0 < ttl < 256 -> d < ttl ->
  rx_xstar ttl ([x00; x00; x00; n2b d] ++ payload) = Deliver [x00; x00; x00; n2b (d + 1)] payload.
Proof.
  intros Ht Hd. rewrite rx_xstar_exact by lia. destruct (N.ltb_spec d ttl); [reflexivity|lia].
Qed.

(* ============================== a network of STAR sockets ============================== *)
(* A loop-free topology is a tree; rooted at the member that sends, every other member has one connection towards
   the origin (its source pipe when the message arrives) and its children are its other pipes.  `flood` applies the
   node rule proved above (star_forward_all_but_source: deliver one copy up, forward header++body to every pipe but
   the source) at every node, with the receive filter of Model/Hops.v deciding on the hop byte. *)
Inductive tree := Node (id : N) (kids : list tree).

Fixpoint tree_ind' (P : tree -> Prop) (H : forall i ks, Forall P ks -> P (Node i ks)) (t : tree) : P t :=
  match t with
  | Node i ks =>
    H i ks ((fix go (l : list tree) : Forall P l :=
               match l with [] => Forall_nil P | k :: r => Forall_cons k (tree_ind' P H k) (go r) end) ks)
  end.

Fixpoint nmax (l : list N) : N := match l with [] => 0 | x :: r => N.max x (nmax r) end.
(* longest path from the node down, in connections *)
Fixpoint height (t : tree) : N := match t with Node _ ks => nmax (map (fun k => 1 + height k) ks) end.
Fixpoint ids (t : tree) : list N := match t with Node i ks => i :: flat_map ids ks end.
Definition root (t : tree) : N := match t with Node i _ => i end.
Definition kids (t : tree) : list tree := match t with Node _ ks => ks end.

(* `wire` arrives at the root of t from its parent: the deliveries (member, payload handed to the application) in t *)
Fixpoint flood (ttl : N) (wire : bytes) (t : tree) : list (N * bytes) :=
  match t with
  | Node i ks =>
    match rx_xstar ttl wire with
    | Drop => []
    | Deliver h b => (i, b) :: flat_map (flood ttl (h ++ b)) ks
    end
  end.
(* the origin's cooked Send puts four zero bytes in front (star_send_exact) and writes to every pipe *)
Definition originate (ttl : N) (payload : bytes) (t : tree) : list (N * bytes) :=
  flat_map (flood ttl ([x00; x00; x00; x00] ++ payload)) (kids t).

Lemma nmax_ge l x : In x l -> x <= nmax l.
Proof. induction l as [|y l IH]; cbn [In nmax]; [tauto|]. intros [->|H]; [lia|]. specialize (IH H). lia. Qed.

Lemma flat_map_ext_in {A B} (f g : A -> list B) l : (forall x, In x l -> f x = g x) -> flat_map f l = flat_map g l.
Proof.
  induction l as [|x l IH]; intro H; [reflexivity|]. cbn [flat_map]. rewrite (H x (or_introl eq_refl)), IH; [reflexivity|].
  intros y Hy. apply H. right. exact Hy.
Qed.

Lemma map_flat_map' {A B C} (f : B -> C) (g : A -> list B) l : map f (flat_map g l) = flat_map (fun x => map f (g x)) l.
Proof. induction l as [|x l IH]; [reflexivity|]. cbn [flat_map]. rewrite map_app, IH. reflexivity. Qed.

(* a member at the top of a subtree of height k that receives hop byte d delivers, and so does everyone below, as long
   as d + k < ttl *)
Lemma flood_all ttl payload : 0 < ttl < 256 -> forall t d,
  d + height t < ttl ->
  flood ttl ([x00; x00; x00; n2b d] ++ payload) t = map (fun i => (i, payload)) (ids t).
Proof.
  intros Ht t. induction t as [i ks IH] using tree_ind'. intros d Hd.
  cbn [flood ids]. rewrite star_hop_incremented by (try exact Ht; lia). cbn [map]. f_equal.
  rewrite map_flat_map'. apply flat_map_ext_in. intros k Hk.
  rewrite Forall_forall in IH. apply (IH k Hk (d + 1)).
  cbn [height] in Hd. pose proof (nmax_ge (map (fun k => 1 + height k) ks) (1 + height k)) as Hm.
  assert (Hin : In (1 + height k) (map (fun k => 1 + height k) ks)) by (apply in_map_iff; eauto).
  specialize (Hm Hin). lia.
Qed.

(* NETWORK theorem: in every finite tree of STAR sockets, with every TTL at least the depth of the tree below the
   origin, the deliveries are exactly: every member other than the origin, the unchanged payload, in preorder -- one
   delivery per occurrence in the tree *)
Lemma star_tree_flood ttl payload t :
  0 < ttl < 256 -> height t <= ttl ->
  originate ttl payload t = map (fun i => (i, payload)) (flat_map ids (kids t)).
Proof.
  intros Ht Hh. unfold originate. destruct t as [i ks]. cbn [kids]. rewrite map_flat_map'. apply flat_map_ext_in. intros k Hk.
  change x00 with (n2b 0) at 4. apply flood_all; [exact Ht|].
  cbn [height] in Hh. pose proof (nmax_ge (map (fun k => 1 + height k) ks) (1 + height k)) as Hm.
  assert (Hin : In (1 + height k) (map (fun k => 1 + height k) ks)) by (apply in_map_iff; eauto).
  specialize (Hm Hin). lia.
Qed.

(* with distinct members: everyone but the origin receives the message exactly once, the origin not at all *)
Lemma star_tree_once (ttl : N) (payload : bytes) (t : tree) :
  (0 < ttl < 256) -> (height t <= ttl) -> NoDup (ids t) ->
  (forall i, In i (ids t) -> i <> root t -> count_occ N.eq_dec (map fst (originate ttl payload t)) i = 1%nat) /\
  ~ In (root t) (map fst (originate ttl payload t)) /\
  (forall i b, In (i, b) (originate ttl payload t) -> b = payload).
Proof.
  intros Ht Hh Hn. rewrite (star_tree_flood ttl payload t Ht Hh).
  rewrite List.map_map. cbn [fst]. rewrite map_id.
  destruct t as [r ks]. cbn [ids root kids] in *. inversion Hn as [|x l Hnot Hnd]; subst.
  split; [|split].
  - intros i [Hi|Hi] Hne; [congruence|]. apply NoDup_count_occ'; assumption.
  - exact Hnot.
  - intros i b Hin. apply in_map_iff in Hin as (j & Hj & _). inversion Hj. reflexivity.
Qed.

(* the hop limit is tight: a chain of three members and TTL 1 -- the far member gets nothing *)
Lemma star_tree_ttl_tight :
  originate 1 [x41] (Node 1 [Node 2 [Node 3 []]]) = [(2, [x41])] /\
  originate 2 [x41] (Node 1 [Node 2 [Node 3 []]]) = [(2, [x41]); (3, [x41])].
Proof. vm_compute. split; reflexivity. Qed.
