From MV Require Import Model.LockCfg.
From Coq Require Import Lia Arith.
Open Scope N_scope.

Lemma list_eqb_eq a : forall b, list_eqb a b = true -> a = b.
Proof.
  induction a as [|x a IH]; intros [|y b] H; cbn in H; try discriminate; [reflexivity|].
  apply andb_true_iff in H as [H1 H2]. apply N.eqb_eq in H1. apply IH in H2. congruence.
Qed.

Lemma st_eqb_eq a b : st_eqb a b = true -> a = b.
Proof.
  unfold st_eqb. intro H. apply andb_true_iff in H as [H1 H2].
  apply list_eqb_eq in H1, H2. destruct a, b; cbn in *; congruence.
Qed.

Lemma existsb_eqb_in n l : existsb (Nat.eqb n) l = true -> In n l.
Proof.
  intro H. apply existsb_exists in H as (x & Hx & E). apply Nat.eqb_eq in E. subst. exact Hx.
Qed.

Section Sound.
  Variable pol : policy.
  Variable f : func.
  Variable A : assignment.
  Hypothesis HC : consistent pol f A = true.

  Lemma cons_len : length A = length (blocks f).
  Proof.
    unfold consistent in HC. apply andb_true_iff in HC as [H _]. apply andb_true_iff in H as [H _].
    apply Nat.eqb_eq in H. exact H.
  Qed.

  Lemma cons_block i : (i < length (blocks f))%nat -> block_ok pol f A i = true.
  Proof.
    intro Hi. unfold consistent in HC. apply andb_true_iff in HC as [_ H].
    rewrite forallb_forall in H. apply H. apply in_seq. lia.
  Qed.

  (* the invariant: executing from a block whose assigned state is the current state never fails, along
     every valid continuation of any length *)
  Lemma run_from_ok : forall p cur s,
    nth_error A cur = Some (Some s) -> valid_from f cur p = true ->
    exists s', run_from pol f cur s p = Ok s'.
  Proof.
    induction p as [|n r IH]; intros cur s HA Hv.
    - (* last block of the path *)
      cbn [run_from]. destruct (nth_error (blocks f) cur) as [b|] eqn:Eb; [|eauto].
      assert (Hi : (cur < length (blocks f))%nat) by (apply nth_error_Some; congruence).
      pose proof (cons_block cur Hi) as Hb. unfold block_ok in Hb. rewrite HA, Eb in Hb.
      destruct (exec_block pol (entry_held f) b s) as [s'|e]; [eauto|discriminate].
    - cbn [run_from valid_from] in *. apply andb_true_iff in Hv as [Hin Hv].
      destruct (nth_error (blocks f) cur) as [b|] eqn:Eb; [|cbn in Hin; discriminate].
      assert (Hi : (cur < length (blocks f))%nat) by (apply nth_error_Some; congruence).
      pose proof (cons_block cur Hi) as Hb. unfold block_ok in Hb. rewrite HA, Eb in Hb.
      destruct (exec_block pol (entry_held f) b s) as [s'|e]; [|discriminate].
      rewrite forallb_forall in Hb. apply existsb_eqb_in in Hin. specialize (Hb n Hin).
      destruct (nth_error A n) as [[t|]|] eqn:En; try discriminate.
      apply st_eqb_eq in Hb. subst t. apply IH; assumption.
  Qed.

  Lemma entry_assigned : blocks f <> [] -> nth_error A 0 = Some (Some (init_st f)).
  Proof.
    intro Hne. unfold consistent in HC. apply andb_true_iff in HC as [H _]. apply andb_true_iff in H as [_ H].
    destruct (nth_error A 0) as [[s|]|] eqn:E.
    - apply st_eqb_eq in H. congruence.
    - destruct (blocks f); [congruence|discriminate].
    - destruct (blocks f); [congruence|discriminate].
  Qed.
End Sound.

(* For every function the checker accepts, EVERY path from the entry -- of any length, around loops any
   number of times, through every error branch -- executes without: locking a mutex already held
   (self-deadlock on Go's non-reentrant mutex), unlocking a mutex not held, Cond.Wait without the lock,
   a forbidden blocking operation while a lock is held (per the policy), and every returning block is
   reached with, after the deferred unlocks, exactly the entry locks held. *)
Theorem balanced_sound pol f : balanced_fn pol f = true ->
  forall p, valid_from f 0 p = true -> exists s, run_path pol f p = Ok s.
Proof.
  intros H p Hv. unfold balanced_fn in H. unfold run_path.
  destruct (blocks f) as [|b0 bs] eqn:Eb.
  - unfold run_from. destruct p; cbn; rewrite Eb; cbn; eauto.
  - apply (run_from_ok pol f _ H p 0%nat (init_st f)); [|exact Hv].
    apply (entry_assigned pol f _ H). rewrite Eb. discriminate.
Qed.

(* the meaning of Ok at a returning block, spelled out *)
Lemma exec_block_return pol entry b s s' :
  exec_block pol entry b s = Ok s' -> returns b = true ->
  exists h, run_defers (held s') (defers s') = Ok h /\ h = entry.
Proof.
  unfold exec_block. destruct (exec_body pol s (body b)) as [s1|]; [|discriminate].
  intros H Hr. rewrite Hr in H. unfold at_return in H.
  destruct (run_defers (held s1) (defers s1)) as [h|] eqn:E; [|discriminate].
  destruct (list_eqb h entry) eqn:El; [|discriminate]. inversion H; subst.
  exists h. split; [exact E|apply list_eqb_eq; exact El].
Qed.

Lemma exec_instr_lock_ok pol s l s' : exec_instr pol s (ILock l) = Ok s' -> mem l (held s) = false.
Proof. cbn. destruct (mem l (held s)); [discriminate|reflexivity]. Qed.

Lemma exec_instr_unlock_ok pol s l s' : exec_instr pol s (IUnlock l) = Ok s' -> mem l (held s) = true.
Proof. cbn. destruct (mem l (held s)); [reflexivity|discriminate]. Qed.
