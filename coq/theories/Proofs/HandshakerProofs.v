From Coq Require Import List NArith Bool Lia.
Import ListNotations.
From MV Require Import Model.Handshaker.
Open Scope N_scope.

Definition wpipes (d : list wres) : list N := flat_map (fun w => match w with WPipe c => [c] | _ => [] end) d.

Lemma nmem_in x l : nmem x l = true <-> In x l.
Proof.
  unfold nmem. rewrite existsb_exists. split.
  - intros (y & Hy & E). apply N.eqb_eq in E. subst. exact Hy.
  - intro H. exists x. split; [exact H|apply N.eqb_refl].
Qed.
Lemma nmem_false x l : nmem x l = false <-> ~ In x l.
Proof. rewrite <- nmem_in. destruct (nmem x l); split; intro H; congruence. Qed.
Lemma in_nrem x c l : In x (nrem c l) <-> In x l /\ x <> c.
Proof.
  unfold nrem. rewrite filter_In. split; intros [H1 H2]; split; auto.
  - intro E. subst. rewrite N.eqb_refl in H2. discriminate.
  - apply negb_true_iff. apply N.eqb_neq. exact H2.
Qed.
Lemma nodup_nrem c l : NoDup l -> NoDup (nrem c l).
Proof. intro H. unfold nrem. apply NoDup_filter. exact H. Qed.
Lemma in_close_all x cs l : In x (close_all cs l) <-> In x l /\ ~ In x cs.
Proof.
  unfold close_all. rewrite filter_In. rewrite negb_true_iff, nmem_false. tauto.
Qed.
Lemma wpipes_app a b : wpipes (a ++ b) = wpipes a ++ wpipes b.
Proof. unfold wpipes. apply flat_map_app. Qed.
Lemma wpipes_done_conns d x : In x (wpipes d) -> In x (done_conns d).
Proof.
  unfold wpipes, done_conns. rewrite !in_flat_map. intros (w & Hw & Hx). exists w. split; [exact Hw|].
  destruct w; simpl in *; tauto.
Qed.

Record Inv (s : hst) : Prop := {
  i_work : NoDup (h_work s);
  i_done : NoDup (wpipes (h_done s));
  i_given : NoDup (h_given s);
  i_wd : forall c, In c (h_work s) -> ~ In c (wpipes (h_done s)) /\ ~ In c (h_given s);
  i_dg : forall c, In c (wpipes (h_done s)) -> ~ In c (h_given s);
  i_open : forall c, In c (h_open s) -> In c (h_work s) \/ In c (wpipes (h_done s)) \/ In c (h_given s);
  i_seen : forall c, In c (h_work s) \/ In c (wpipes (h_done s)) \/ In c (h_given s) -> In c (h_seen s);
  i_closed : h_closed s = true -> wpipes (h_done s) = [] /\ forall c, In c (h_open s) -> In c (h_given s) }.

Lemma inv_h0 : Inv h0.
Proof. constructor; simpl; try constructor; try tauto; try discriminate. Qed.

Ltac fields := constructor; cbn [fst h_work h_done h_given h_open h_seen h_closed].

Lemma nodup_snoc (c : N) l : NoDup l -> ~ In c l -> NoDup (l ++ [c]).
Proof.
  induction l as [|x l IH]; intros Hn Hc; simpl.
  - constructor; [intros []|constructor].
  - inversion Hn; subst. constructor.
    + rewrite in_app_iff. intros [H|[H|[]]]; [tauto|]. subst. apply Hc. left. reflexivity.
    + apply IH; [assumption|]. intro H. apply Hc. right. exact H.
Qed.

Lemma nodup_app_r {A} (a b : list A) : NoDup (a ++ b) -> NoDup b.
Proof. induction a as [|x a IH]; simpl; intro H; [exact H|inversion H; auto]. Qed.

Lemma inv_step s o : Inv s -> Inv (fst (hstep s o)).
Proof.
  intros HI. pose proof HI as [Hw Hd Hg Hwd Hdg Ho Hs Hc]. destruct o as [c|c ok| |]; unfold hstep.
  - (* HStart *)
    destruct (nmem c (h_seen s)) eqn:Es; [exact HI|].
    apply nmem_false in Es.
    assert (Hfresh : ~ (In c (h_work s) \/ In c (wpipes (h_done s)) \/ In c (h_given s))) by (intro H; apply Es, Hs, H).
    destruct (h_closed s) eqn:Ec; fields.
    + exact Hw.
    + exact Hd.
    + exact Hg.
    + exact Hwd.
    + exact Hdg.
    + exact Ho.
    + intros x Hx. right. apply Hs. exact Hx.
    + intros _. apply Hc. reflexivity.
    + constructor; [tauto|exact Hw].
    + exact Hd.
    + exact Hg.
    + intros x [E|Hx]; [subst; tauto|apply Hwd, Hx].
    + exact Hdg.
    + intros x [E|Hx]; [subst; left; left; reflexivity|]. destruct (Ho x Hx) as [H|[H|H]]; [left; right; exact H|right; left; exact H|right; right; exact H].
    + intros x [[E|H]|[H|H]]; [left; exact E|right; apply Hs; tauto|right; apply Hs; tauto|right; apply Hs; tauto].
    + discriminate.
  - (* HFinish *)
    destruct (nmem c (h_work s)) eqn:Ew; cbn [negb]; [|exact HI].
    apply nmem_in in Ew. destruct (Hwd c Ew) as [Hcd Hcg].
    assert (Hrem : forall x, In x (nrem c (h_work s)) -> ~ In x (wpipes (h_done s)) /\ ~ In x (h_given s)).
    { intros x Hx. apply in_nrem in Hx. apply Hwd. tauto. }
    assert (Hopen : forall x, In x (nrem c (h_open s)) -> In x (nrem c (h_work s)) \/ In x (wpipes (h_done s)) \/ In x (h_given s)).
    { intros x Hx. apply in_nrem in Hx. destruct Hx as [Hx Hne]. destruct (Ho x Hx) as [H|[H|H]]; [left; apply in_nrem; tauto|tauto|tauto]. }
    assert (Hseen : forall x, In x (nrem c (h_work s)) \/ In x (wpipes (h_done s)) \/ In x (h_given s) -> In x (h_seen s)).
    { intros x [H|[H|H]]; apply Hs; [apply in_nrem in H; tauto|tauto|tauto]. }
    destruct ok; cbn [negb].
    + destruct (h_closed s) eqn:Ec; fields; rewrite ?wpipes_app; cbn [wpipes flat_map app]; rewrite ?app_nil_r.
      * apply nodup_nrem, Hw.
      * exact Hd.
      * exact Hg.
      * exact Hrem.
      * exact Hdg.
      * exact Hopen.
      * exact Hseen.
      * intros _. destruct (Hc eq_refl) as [H1 H2]. split; [exact H1|]. intros x Hx. apply in_nrem in Hx. apply H2. tauto.
      * apply nodup_nrem, Hw.
      * apply nodup_snoc; assumption.
      * exact Hg.
      * intros x Hx. destruct (Hrem x Hx) as [A B]. split; [|exact B]. rewrite in_app_iff. intros [H|[H|[]]]; [tauto|]. subst. apply in_nrem in Hx. tauto.
      * intros x Hx. rewrite in_app_iff in Hx. destruct Hx as [H|[H|[]]]; [apply Hdg, H|subst; exact Hcg].
      * intros x Hx. destruct (N.eq_dec x c) as [E|Hne]; [subst; right; left; rewrite in_app_iff; right; left; reflexivity|].
        destruct (Ho x Hx) as [H|[H|H]]; [left; apply in_nrem; tauto|right; left; rewrite in_app_iff; tauto|tauto].
      * intros x [H|[H|H]]; apply Hs; [apply in_nrem in H; tauto| |tauto].
        rewrite in_app_iff in H. destruct H as [H|[H|[]]]; [tauto|subst; tauto].
      * discriminate.
    + fields; rewrite ?wpipes_app; cbn [wpipes flat_map app]; rewrite ?app_nil_r.
      * apply nodup_nrem, Hw.
      * exact Hd.
      * exact Hg.
      * exact Hrem.
      * exact Hdg.
      * exact Hopen.
      * exact Hseen.
      * intros Ec. destruct (Hc Ec) as [H1 H2]. split; [exact H1|]. intros x Hx. apply in_nrem in Hx. apply H2. tauto.
  - (* HWait *)
    destruct (h_closed s) eqn:Ec; [exact HI|].
    destruct (h_done s) as [|w r] eqn:Ed; [exact HI|].
    assert (Hsplit : wpipes (w :: r) = match w with WPipe c => [c] | _ => [] end ++ wpipes r) by reflexivity.
    rewrite Hsplit in *.
    fields.
    + exact Hw.
    + apply nodup_app_r in Hd. exact Hd.
    + destruct w; try exact Hg. constructor; [|exact Hg]. apply Hdg. left. reflexivity.
    + intros x Hx. destruct (Hwd x Hx) as [A B]. split.
      * intro H. apply A. apply in_or_app. right. exact H.
      * destruct w; try exact B. intros [E|H]; [subst; apply A; left; reflexivity|exact (B H)].
    + intros x Hx. assert (Hx' : ~ In x (h_given s)) by (apply Hdg; apply in_or_app; right; exact Hx).
      destruct w; try exact Hx'. intros [E|H]; [|exact (Hx' H)]. subst. simpl in Hd. inversion Hd; subst. tauto.
    + intros x Hx. destruct (Ho x Hx) as [H|[H|H]]; [tauto| |destruct w; simpl; tauto].
      apply in_app_or in H. destruct H as [H|H]; [|tauto]. destruct w; simpl in H; try tauto. destruct H as [E|[]]. subst. right. right. left. reflexivity.
    + intros x [H|[H|H]]; apply Hs; [tauto|right; left; apply in_or_app; tauto|].
      destruct w; try tauto. destruct H as [E|H]; [subst; right; left; left; reflexivity|tauto].
    + discriminate.
  - (* HClose *)
    fields; cbn [wpipes flat_map].
    + exact Hw.
    + constructor.
    + exact Hg.
    + intros x Hx. destruct (Hwd x Hx). tauto.
    + intros x [].
    + intros x Hx. apply in_close_all in Hx. destruct Hx as [Hx Hn]. rewrite in_app_iff in Hn.
      destruct (Ho x Hx) as [H|[H|H]]; [tauto|exfalso; apply Hn; right; apply wpipes_done_conns, H|tauto].
    + intros x [H|[[]|H]]; apply Hs; tauto.
    + intros _. split; [reflexivity|]. intros x Hx. apply in_close_all in Hx. destruct Hx as [Hx Hn]. rewrite in_app_iff in Hn.
      destruct (Ho x Hx) as [H|[H|H]]; [tauto|exfalso; apply Hn; right; apply wpipes_done_conns, H|exact H].
Qed.

(* ---- every reachable state ---- *)
Lemma hrun_fst_step s o ops : fst (hrun s (o :: ops)) = fst (hrun (fst (hstep s o)) ops).
Proof. simpl. destruct (hstep s o) as [s1 w]. cbn [fst]. destruct (hrun s1 ops) as [s2 ws]. reflexivity. Qed.

Lemma inv_run ops : forall s, Inv s -> Inv (fst (hrun s ops)).
Proof.
  induction ops as [|o ops IH]; intros s HI; [exact HI|].
  rewrite hrun_fst_step. apply IH. apply inv_step. exact HI.
Qed.

(* Close releases: once the handshaker is closed, every connection that is still open belongs to the caller (Wait handed
   it over before the Close) -- at every later point, whatever else happens (handshakes finishing late, more Starts) *)
Theorem closed_means_released : forall ops s, s = fst (hrun h0 ops) -> h_closed s = true ->
  forall c, In c (h_open s) -> In c (h_given s).
Proof. intros ops s E Hc. subst. apply (i_closed _ (inv_run ops h0 inv_h0)). exact Hc. Qed.

Lemma closed_stays s o : h_closed s = true -> h_closed (fst (hstep s o)) = true.
Proof.
  intro Hc. destruct o as [c|c ok| |]; unfold hstep.
  - destruct (nmem c (h_seen s)); [exact Hc|]. rewrite Hc. reflexivity.
  - destruct (nmem c (h_work s)); cbn [negb]; [|exact Hc]. destruct ok; cbn [negb]; [rewrite Hc; reflexivity|exact Hc].
  - rewrite Hc. exact Hc.
  - reflexivity.
Qed.

(* a connection is handed to the caller at most once *)
Theorem given_once : forall ops, NoDup (h_given (fst (hrun h0 ops))).
Proof. intro ops. apply (i_given _ (inv_run ops h0 inv_h0)). Qed.

(* once closed, Wait reports it -- it never hands out a pipe again (late arrivals are closed by their worker) *)
Theorem wait_after_close : forall s, h_closed s = true -> hstep s HWait = (s, WClosed).
Proof. intros s Hc. unfold hstep. rewrite Hc. reflexivity. Qed.

(* a peer whose handshake never completes does not delay the others: whatever is still in flight, a handshake that
   completes is the next thing Wait returns when nothing else is waiting to be collected *)
Theorem stalled_peers_do_not_delay : forall s c, h_closed s = false -> h_done s = [] -> nmem c (h_work s) = true ->
  snd (hstep (fst (hstep s (HFinish c true))) HWait) = WPipe c /\
  snd (hstep (fst (hstep s (HFinish c false))) HWait) = WFail.
Proof.
  intros s c Hc Hd Hw. unfold hstep at 2 4. rewrite Hw, Hc, Hd. cbn [negb fst app].
  split; unfold hstep; cbn [h_closed h_done snd]; reflexivity.
Qed.

(* a connection started after Close is closed on the spot (never opened from the model's point of view), and a
   handshake that fails leaves its connection closed *)
Theorem start_after_close : forall s c, h_closed s = true -> h_open (fst (hstep s (HStart c))) = h_open s.
Proof. intros s c Hc. unfold hstep. rewrite Hc. destruct (nmem c (h_seen s)); reflexivity. Qed.

Theorem failed_is_closed : forall s c, nmem c (h_work s) = true -> ~ In c (h_open (fst (hstep s (HFinish c false)))).
Proof. intros s c Hw. unfold hstep. rewrite Hw. cbn [negb fst h_open]. intro H. apply in_nrem in H. tauto. Qed.

(* non-vacuity: a run with a stalled peer, a success, a failure, Close, a late success and a late Start *)
Example witness :
  htrace h0 [HStart 1; HStart 2; HStart 3; HStart 4; HFinish 2 true; HWait; HFinish 3 false; HWait; HWait; HClose; HFinish 4 true; HStart 5; HWait] =
  [(WBlock, [1]); (WBlock, [2; 1]); (WBlock, [3; 2; 1]); (WBlock, [4; 3; 2; 1]); (WBlock, [4; 3; 2; 1]); (WPipe 2, [4; 3; 2; 1]);
   (WBlock, [4; 2; 1]); (WFail, [4; 2; 1]); (WBlock, [4; 2; 1]); (WBlock, [2]); (WBlock, [2]); (WBlock, [2]); (WClosed, [2])].
Proof. vm_compute. reflexivity. Qed.

(* ---- completions are returned in order, each once ---- *)
(* what a completed handshake puts on the done queue (before Close) *)
Definition fin_of (s : hst) (o : hop) : list wres :=
  match o with
  | HFinish c ok => if nmem c (h_work s) then [if ok then WPipe c else WFail] else []
  | _ => []
  end.
Fixpoint finished (s : hst) (ops : list hop) : list wres :=
  match ops with
  | [] => []
  | o :: r => fin_of s o ++ finished (fst (hstep s o)) r
  end.
Definition is_result (w : wres) : bool := match w with WPipe _ | WFail | WLate _ => true | _ => false end.
Definition results (ws : list wres) : list wres := filter is_result ws.
Definition all_results (d : list wres) : Prop := forall w, In w d -> is_result w = true.

Lemma step_fifo s o : h_closed s = false -> all_results (h_done s) -> o <> HClose ->
  h_closed (fst (hstep s o)) = false /\ all_results (h_done (fst (hstep s o))) /\
  results [snd (hstep s o)] ++ h_done (fst (hstep s o)) = h_done s ++ fin_of s o.
Proof.
  intros Hc Ha Hn. destruct o as [c|c ok| |]; unfold hstep, fin_of; rewrite ?Hc.
  - destruct (nmem c (h_seen s)); cbn [fst snd h_closed h_done results filter is_result app]; rewrite ?app_nil_r; repeat split; auto.
  - destruct (nmem c (h_work s)); cbn [negb]; [|cbn [fst snd h_closed h_done results filter is_result app]; rewrite ?app_nil_r; repeat split; auto].
    destruct ok; cbn [negb fst snd h_closed h_done results filter is_result app]; (split; [reflexivity|]); (split; [|reflexivity]);
      intros w Hw; apply in_app_or in Hw; destruct Hw as [Hw|[Hw|[]]]; try (apply Ha; exact Hw); subst; reflexivity.
  - destruct (h_done s) as [|w r] eqn:Ed; cbn [fst snd h_closed h_done results filter is_result app]; [rewrite Ed; repeat split; [exact Hc|intros w []]|].
    split; [reflexivity|]. split; [intros x Hx; apply Ha; right; exact Hx|].
    rewrite ?app_nil_r. rewrite (Ha w (or_introl eq_refl)). reflexivity.
  - congruence.
Qed.

(* FIFO, nothing lost, nothing invented: as long as the handshaker is open, what the Waits returned so far followed by
   what is still on the done queue is exactly the list of handshakes that completed, in the order they completed *)
Theorem wait_returns_completions_in_order : forall ops s, h_closed s = false -> all_results (h_done s) ->
  (forall o, In o ops -> o <> HClose) ->
  results (snd (hrun s ops)) ++ h_done (fst (hrun s ops)) = h_done s ++ finished s ops.
Proof.
  induction ops as [|o ops IH]; intros s Hc Ha Hn; cbn [hrun finished].
  - cbn [hrun fst snd results filter app finished]. rewrite ?app_nil_r. reflexivity.
  - destruct (step_fifo s o Hc Ha (Hn o (or_introl eq_refl))) as (Hc1 & Ha1 & E1).
    destruct (hstep s o) as [s1 w] eqn:Es. cbn [fst snd] in *.
    specialize (IH s1 Hc1 Ha1 (fun x Hx => Hn x (or_intror Hx))).
    destruct (hrun s1 ops) as [s2 ws] eqn:Er. cbn [fst snd] in *.
    unfold results in *. change (w :: ws) with ([w] ++ ws). rewrite filter_app, <- app_assoc, IH, app_assoc, E1, <- app_assoc. reflexivity.
Qed.

Corollary wait_fifo_from_start : forall ops, (forall o, In o ops -> o <> HClose) ->
  results (snd (hrun h0 ops)) ++ h_done (fst (hrun h0 ops)) = finished h0 ops.
Proof. intros ops H. apply (wait_returns_completions_in_order ops h0 eq_refl); [intros w []|exact H]. Qed.
