(* C10 over EVERY history of stimuli on the model of the repaired core (fresh pipe names): at every quiescent point after
   the socket was closed, no pipe id is in use and no pipe is listed -- whatever was attached, half-attached, refused,
   dialing or timing out when Close was called, and whatever arrives afterwards. *)
From MV Require Import Model.Core Model.CoreOracle Proofs.CoreInv Proofs.CoreClose.
From Coq Require Import Lia.
Open Scope N_scope.

(* ---- pipe names stay distinct ---- *)
Definition names (s : kstate) : list N := map kp (kpipes s).

Lemma names_put_p s x : names (put_p s x) = names s.
Proof.
  unfold names, put_p. cbn [kset_pipes kpipes]. rewrite map_map. apply map_ext.
  intro y. destruct (N.eqb_spec (kp y) (kp x)); congruence.
Qed.
Lemma names_pct s d : names (pipe_closed_timer s d) = names s.
Proof. unfold pipe_closed_timer. destruct (get_d s d); reflexivity. Qed.

Lemma names_pipe_close s p : names (pipe_close s p) = names s.
Proof.
  unfold pipe_close. destruct (get_p s p) as [x|]; [|reflexivity]. destruct (ktclosed x); [reflexivity|].
  set (s1 := put_p (kemit s (TClose p)) _).
  assert (H1 : names s1 = names s) by (unfold s1; rewrite names_put_p; reflexivity).
  set (s2 := if kadded x then _ else s1).
  assert (H2 : names s2 = names s).
  { unfold s2. destruct (kadded x); [|exact H1].
    change (names (put_p (kemit s1 (PRemove p)) {| kp := p; kowner := kowner x; kadded := true; kclosing := true; klisted := false; kid := false; ktclosed := true |}) = names s).
    rewrite names_put_p. exact H1. }
  destruct (kowner x); [exact H2|rewrite names_pct; exact H2].
Qed.

Lemma names_add_pipe s p o : names (add_pipe true s p o) = names s ++ [p].
Proof.
  unfold add_pipe.
  set (s1 := kemit (kset_pipes s _) (HAttaching p)).
  assert (H1 : names s1 = names s ++ [p]) by (unfold s1, names; cbn [kemit kset_pipes kpipes]; rewrite map_app; reflexivity).
  set (s2 := if kpolicy s1 =? 1 then _ else s1).
  assert (H2 : names s2 = names s ++ [p]) by (unfold s2; destruct (kpolicy s1 =? 1); [rewrite names_pipe_close|]; exact H1).
  destruct (get_p s2 p) as [x|]; [|exact H2].
  destruct (kclosing x); [rewrite names_put_p; exact H2|].
  destruct (krefuse s2 || ksclosed s2).
  - rewrite names_pipe_close, names_put_p. exact H2.
  - set (s4 := match o with OwnD d => _ | OwnL _ => _ end).
    assert (H4 : names s4 = names s ++ [p]).
    { unfold s4. destruct o as [l|d]; [rewrite names_put_p; exact H2|].
      destruct (get_d _ d); [change (names (put_p (kemit s2 (PAdd p true)) {| kp := p; kowner := OwnD d; kadded := true; kclosing := false; klisted := true; kid := true; ktclosed := false |}) = names s ++ [p])|];
        rewrite names_put_p; exact H2. }
    destruct (kpolicy _ =? 2); [rewrite names_pipe_close|]; exact H4.
Qed.

Lemma names_start_dial s d w : names (start_dial s d w) = names s.
Proof. unfold start_dial. destruct (get_d s d) as [x|]; [|reflexivity]. destruct (kd_closed x); [destruct w|]; reflexivity. Qed.

Lemma names_fire : forall fuel s, names (fire_timers fuel s) = names s.
Proof.
  induction fuel as [|f IH]; intro s; [reflexivity|]. cbn [fire_timers]. destruct (filter _ (ktimers s)); [reflexivity|].
  rewrite IH, names_start_dial. reflexivity.
Qed.

Lemma names_fold {A} (f : kstate -> A -> kstate) : (forall s a, names (f s a) = names s) ->
  forall l s, names (fold_left f l s) = names s.
Proof. intros Hf l. induction l as [|a l IH]; intro s; cbn [fold_left]; [reflexivity|]. rewrite IH. apply Hf. Qed.

Lemma get_p_none_names s p : get_p s p = None -> ~ In p (names s).
Proof.
  unfold get_p, names. intros H Hin. apply in_map_iff in Hin as (x & Hk & Hx).
  pose proof (find_none _ _ H x Hx) as Hn. cbn in Hn. rewrite Hk, N.eqb_refl in Hn. discriminate.
Qed.

Lemma nodup_snoc (l : list N) p : NoDup l -> ~ In p l -> NoDup (l ++ [p]).
Proof.
  intros Hn Hp. induction Hn as [|a l Ha Hn IH]; cbn; [constructor; [intros []|constructor]|].
  constructor.
  - intro Hin. apply in_app_or in Hin as [Hin|[->|[]]]; [contradiction|]. apply Hp. left. reflexivity.
  - apply IH. intro Hin. apply Hp. right. exact Hin.
Qed.

Definition ND (s : kstate) : Prop := NoDup (names s).

Definition kclose_body (s : kstate) (t : N) : kstate :=
    let s := kset_misc s true (kpolicy s) (krefuse s) (know s) (kambig s) in
    let s := fold_left (fun s x => if kl_closed x then s else put_l s {| kl := kl x; kl_closed := true; kl_active := kl_active x; kl_serving := false |})
                       (klisteners s) s in
    let s := fold_left (fun s x =>
               if kd_closed x then s
               else put_d (kset_timers s (filter (fun tm => negb ((kt_d tm =? kd x) && kt_stoppable tm)) (ktimers s)))
                          (with_d x true (kd_active x) (kd_lo x) (kd_hi x) (kd_pending x))) (kdialers s) s in
    let s := fold_left (fun s x => if klisted x then pipe_close s (kp x) else s) (kpipes s) s in
    kemit s (KRet t 0).
Lemma kclose_eq s t : kstep_raw true true s (KCloseSock t) = kclose_body s t.
Proof. reflexivity. Qed.
Lemma names_kemit s o : names (kemit s o) = names s. Proof. reflexivity. Qed.
Lemma names_kset_misc s a b c d e : names (kset_misc s a b c d e) = names s. Proof. reflexivity. Qed.

Lemma ND_add_pipe s p o : get_p s p = None -> ND s -> ND (add_pipe true s p o).
Proof. intros Hf Hn. unfold ND. rewrite names_add_pipe. apply nodup_snoc; [exact Hn|apply get_p_none_names, Hf]. Qed.

Lemma ND_step_raw s st : fresh_stim s st -> ND s -> ND (kstep_raw true true s st).
Proof.
  intros Hf Hn. unfold ND in *. destruct st; [cbn [kstep_raw]..|idtac|rewrite kpass_eq|cbn [kstep_raw]].
  - destruct (ksclosed s); [exact Hn|]. destruct fail; exact Hn.
  - destruct (get_l s l) as [x|]; [|exact Hn]. destruct (kl_closed x); [exact Hn|]. destruct (kl_active x); exact Hn.
  - destruct (get_l s l) as [x|]; [|exact Hn]. destruct (_ && _); [apply ND_add_pipe; [exact Hf|exact Hn]|exact Hn].
  - exact Hn.
  - destruct (get_l s l) as [x|]; [|exact Hn]. destruct (kl_closed x); exact Hn.
  - destruct (ksclosed s); exact Hn.
  - destruct (get_d s d) as [x|]; [|exact Hn]. destruct (kd_active x); [exact Hn|]. destruct (kd_closed x); [exact Hn|].
    destruct (kd_asynch x); [change (NoDup (names (start_dial (put_d s (with_d x false true (kd_min x * 10) (kd_min x * 10) (kd_pending x))) d None)))|];
      rewrite names_start_dial; exact Hn.
  - unfold resolve. destruct (get_d s d) as [x|]; [|exact Hn]. destruct (kd_pending x) as [|w rest]; [exact Hn|].
    set (s1 := put_d s _).
    destruct r.
    + assert (H2 : NoDup (names (add_pipe true s1 p (OwnD d)))) by (apply ND_add_pipe; [exact Hf|exact Hn]).
      destruct w; exact H2.
    + destruct w as [t|].
      * destruct (kd_asynch _); [exact Hn|]. destruct (get_d _ d); exact Hn.
      * destruct (if kd_max _ =? 0 then _ else _). exact Hn.
  - destruct (get_d s d) as [x|]; [|exact Hn]. destruct (kd_closed x); exact Hn.
  - rewrite names_pipe_close. exact Hn.
  - rewrite names_pipe_close. exact Hn.
  - exact Hn.
  - exact Hn.
  - rewrite kclose_eq. unfold kclose_body. cbv zeta. rewrite names_kemit.
    rewrite names_fold; [|intros s0 x; destruct (klisted x); [apply names_pipe_close|reflexivity]].
    rewrite names_fold; [|intros s0 x; destruct (kd_closed x); reflexivity].
    rewrite names_fold; [|intros s0 x; destruct (kl_closed x); reflexivity]. exact Hn.
  - unfold kpass_body. cbv zeta. rewrite names_kset_misc, names_fire, names_kset_misc. exact Hn.
  - exact Hn.
Qed.

(* ---- every pipe known to a closed socket has its transport closed ---- *)
Definition TC (s : kstate) : Prop := forall p x, get_p s p = Some x -> ktclosed x = true.

Lemma TC_frame s s' : (forall p, get_p s' p = get_p s p) -> TC s -> TC s'.
Proof. intros H HT p x Hx. rewrite H in Hx. exact (HT p x Hx). Qed.

Lemma pipe_close_tclosed s p x : get_p s p = Some x ->
  exists x', get_p (pipe_close s p) p = Some x' /\ ktclosed x' = true.
Proof.
  intro Hx. destruct (ktclosed x) eqn:Et.
  - exists x. unfold pipe_close. rewrite Hx, Et. auto.
  - destruct (kadded x) eqn:Ea.
    + unfold pipe_close. rewrite Hx, Et, Ea.
      set (x1 := {| kp := p; kowner := kowner x; kadded := true; kclosing := true; klisted := klisted x; kid := kid x; ktclosed := true |}).
      set (s1 := put_p (kemit s (TClose p)) x1).
      assert (G1 : get_p s1 p = Some x1) by (apply (get_put_same (kemit s (TClose p)) x1); exists x; exact Hx).
      set (x2 := {| kp := p; kowner := kowner x; kadded := true; kclosing := true; klisted := false; kid := false; ktclosed := true |}).
      assert (G2 : get_p (kemit (put_p (kemit s1 (PRemove p)) x2) (HDetached p)) p = Some x2).
      { change (get_p (put_p (kemit s1 (PRemove p)) x2) p = Some x2). apply (get_put_same (kemit s1 (PRemove p)) x2). exists x1. exact G1. }
      exists x2. split; [|reflexivity].
      destruct (kowner x) as [l|d]; [exact G2|]. destruct (pct_pipes (kemit (put_p (kemit s1 (PRemove p)) x2) (HDetached p)) d p) as [B _].
      rewrite B. exact G2.
    + destruct (pipe_close_unadded s p x Hx Et Ea) as [G _]. eexists. split; [exact G|reflexivity].
Qed.

Lemma pipe_close_none s p : get_p s p = None -> pipe_close s p = s.
Proof. intro H. unfold pipe_close. rewrite H. reflexivity. Qed.

Lemma TC_pipe_close s q : TC s -> TC (pipe_close s q).
Proof.
  intros HT p x Hx. destruct (N.eq_dec p q) as [->|Hne].
  - destruct (get_p s q) as [y|] eqn:Ey.
    + destruct (pipe_close_tclosed s q y Ey) as (x' & G & Hc). congruence.
    + rewrite (pipe_close_none s q Ey) in Hx. congruence.
  - destruct (pipe_close_other s q p Hne) as [A _]. rewrite A in Hx. exact (HT p x Hx).
Qed.

(* a pipe arriving at a closed socket is shut at once *)
Lemma add_pipe_closed_sock s p o : ksclosed s = true -> get_p s p = None ->
  exists x', get_p (add_pipe true s p o) p = Some x' /\ ktclosed x' = true.
Proof.
  intros Hc Hf. unfold add_pipe. fold (new_pipe p o).
  set (s1 := kset_pipes s (kpipes s ++ [new_pipe p o])).
  assert (G1 : get_p s1 p = Some (new_pipe p o)) by (unfold s1; rewrite get_p_append, Hf, N.eqb_refl; reflexivity).
  set (s2 := kemit s1 (HAttaching p)).
  assert (G2 : get_p s2 p = Some (new_pipe p o)) by exact G1.
  destruct (kpolicy s2 =? 1).
  - destruct (pipe_close_unadded s2 p (new_pipe p o) G2 eq_refl eq_refl) as [G3 _]. cbn [new_pipe kowner klisted kid] in G3.
    rewrite G3. cbn [kclosing ktclosed].
    eexists. split; [apply (get_put_same (pipe_close s2 p)); eexists; exact G3|reflexivity].
  - rewrite G2. cbn [new_pipe kclosing].
    assert (Hc2 : ksclosed s2 = true) by exact Hc. rewrite Hc2, Bool.orb_true_r.
    set (x4 := {| kp := p; kowner := o; kadded := false; kclosing := false; klisted := false; kid := negb true; ktclosed := false |}).
    set (s4 := put_p (kemit s2 (PAdd p false)) x4).
    assert (G4 : get_p s4 p = Some x4) by (apply (get_put_same (kemit s2 (PAdd p false)) x4); exists (new_pipe p o); exact G2).
    destruct (pipe_close_unadded s4 p x4 G4 eq_refl eq_refl) as [G5 _]. eexists. split; [exact G5|reflexivity].
Qed.

Lemma TC_add_pipe s p o : ksclosed s = true -> get_p s p = None -> TC s -> TC (add_pipe true s p o).
Proof.
  intros Hc Hf HT q x Hx. destruct (N.eq_dec q p) as [->|Hne].
  - destruct (add_pipe_closed_sock s p o Hc Hf) as (x' & G & Ht). congruence.
  - destruct (add_pipe_other s p o q Hf Hne) as [A _]. rewrite A in Hx. exact (HT q x Hx).
Qed.

Lemma TC_start_dial s d w : TC s -> TC (start_dial s d w).
Proof. apply TC_frame. intro p. unfold start_dial. destruct (get_d s d) as [x|]; [|reflexivity]. destruct (kd_closed x); [destruct w|]; reflexivity. Qed.

Lemma TC_fire : forall fuel s, TC s -> TC (fire_timers fuel s).
Proof.
  induction fuel as [|f IH]; intros s HT; [exact HT|]. cbn [fire_timers]. destruct (filter _ (ktimers s)); [exact HT|].
  apply IH, TC_start_dial. revert HT. apply TC_frame. reflexivity.
Qed.

Lemma TC_fold {A} (f : kstate -> A -> kstate) : (forall s a, TC s -> TC (f s a)) -> forall l s, TC s -> TC (fold_left f l s).
Proof. intros Hf l. induction l as [|a l IH]; intros s HT; cbn [fold_left]; [exact HT|]. apply IH, Hf, HT. Qed.

Lemma TC_step_raw s st : ksclosed s = true -> fresh_stim s st -> TC s -> TC (kstep_raw true true s st).
Proof.
  intros Hc Hf HT. destruct st; [cbn [kstep_raw]..|rewrite kclose_eq|rewrite kpass_eq|cbn [kstep_raw]].
  - rewrite Hc. exact HT.
  - destruct (get_l s l) as [x|]; [|exact HT]. destruct (kl_closed x); [exact HT|]. destruct (kl_active x); exact HT.
  - destruct (get_l s l) as [x|]; [|exact HT]. destruct (_ && _); [apply TC_add_pipe; assumption|exact HT].
  - exact HT.
  - destruct (get_l s l) as [x|]; [|exact HT]. destruct (kl_closed x); exact HT.
  - rewrite Hc. exact HT.
  - destruct (get_d s d) as [x|]; [|exact HT]. destruct (kd_active x); [exact HT|]. destruct (kd_closed x); [exact HT|].
    destruct (kd_asynch x); [apply (TC_frame (start_dial (put_d s (with_d x false true (kd_min x * 10) (kd_min x * 10) (kd_pending x))) d None)); [reflexivity|]|];
      apply TC_start_dial; revert HT; apply TC_frame; reflexivity.
  - unfold resolve. destruct (get_d s d) as [x|]; [|exact HT]. destruct (kd_pending x) as [|w rest]; [exact HT|].
    set (s1 := put_d s _).
    assert (H1 : TC s1) by (revert HT; apply TC_frame; reflexivity).
    destruct r.
    + assert (H2 : TC (add_pipe true s1 p (OwnD d))) by (apply TC_add_pipe; [exact Hc|exact Hf|exact H1]).
      destruct w; exact H2.
    + destruct w as [t|].
      * destruct (kd_asynch _); [exact H1|]. destruct (get_d _ d); exact H1.
      * destruct (if kd_max _ =? 0 then _ else _). exact H1.
  - destruct (get_d s d) as [x|]; [|exact HT]. destruct (kd_closed x); exact HT.
  - apply TC_pipe_close, HT.
  - apply TC_pipe_close, HT.
  - exact HT.
  - exact HT.
  - unfold kclose_body. cbv zeta.
    match goal with |- TC (kemit ?X _) => apply (TC_frame X); [reflexivity|] end.
    apply TC_fold; [intros s0 x H0; destruct (klisted x); [apply TC_pipe_close|]; exact H0|].
    apply TC_fold; [intros s0 x H0; destruct (kd_closed x); [exact H0|revert H0; apply TC_frame; reflexivity]|].
    apply TC_fold; [intros s0 x H0; destruct (kl_closed x); [exact H0|revert H0; apply TC_frame; reflexivity]|].
    revert HT. apply TC_frame. reflexivity.
  - unfold kpass_body. cbv zeta.
    match goal with |- TC (kset_misc ?X _ _ _ _ _) =>
      assert (H1 : TC X) by (apply TC_fire; revert HT; apply TC_frame; reflexivity); revert H1; generalize X end.
    intros s2 H2. revert H2. apply TC_frame. reflexivity.
  - exact HT.
Qed.

(* ---- Close shuts every pipe ---- *)
Lemma fold_close : forall (rem : list kpipe) (s : kstate),
  (forall p x, get_p s p = Some x -> ktclosed x = true \/ exists y, In y rem /\ kp y = p /\ klisted y = true) ->
  TC (fold_left (fun s x => if klisted x then pipe_close s (kp x) else s) rem s).
Proof.
  induction rem as [|y rem IH]; intros s H; cbn [fold_left].
  - intros p x Hx. destruct (H p x Hx) as [Hc|(y & [] & _)]. exact Hc.
  - apply IH. destruct (klisted y) eqn:El.
    + intros p x Hx. destruct (N.eq_dec p (kp y)) as [->|Hne].
      * left. destruct (get_p s (kp y)) as [x0|] eqn:E0.
        -- destruct (pipe_close_tclosed s (kp y) x0 E0) as (x' & G & Hc). congruence.
        -- rewrite (pipe_close_none s (kp y) E0) in Hx. congruence.
      * destruct (pipe_close_other s (kp y) p Hne) as [A _]. rewrite A in Hx.
        destruct (H p x Hx) as [Hc|(y' & [->|Hin] & Hk & Hl)]; [left; exact Hc|congruence|].
        right. exists y'. auto.
    + intros p x Hx. destruct (H p x Hx) as [Hc|(y' & [->|Hin] & Hk & Hl)]; [left; exact Hc|congruence|].
      right. exists y'. auto.
Qed.

Lemma getp_fold {A} (f : kstate -> A -> kstate) : (forall s a, kpipes (f s a) = kpipes s) ->
  forall l s, kpipes (fold_left f l s) = kpipes s.
Proof. intros Hf l. induction l as [|a l IH]; intro s; cbn [fold_left]; [reflexivity|]. rewrite IH. apply Hf. Qed.

Lemma close_TC s t e : (forall p, ok_pipe p (get_p s p) (e p)) -> TC (kstep_raw true true s (KCloseSock t)).
Proof.
  intro HP. rewrite kclose_eq. unfold kclose_body. cbv zeta.
  match goal with |- TC (kemit ?X _) => apply (TC_frame X); [reflexivity|] end.
  match goal with |- TC (fold_left _ (kpipes ?S2) ?S2) =>
    assert (Hk : kpipes S2 = kpipes s);
    [ rewrite getp_fold; [|intros s0 x; destruct (kd_closed x); reflexivity];
      rewrite getp_fold; [|intros s0 x; destruct (kl_closed x); reflexivity]; reflexivity
    | generalize dependent S2 ] end.
  intros s2 Hk. apply fold_close. intros p x Hx.
  assert (Hx' : get_p s p = Some x) by (unfold get_p in *; rewrite <- Hk; exact Hx).
  destruct (ktclosed x) eqn:Et; [left; reflexivity|right].
  exists x. split; [|split].
  - unfold get_p in Hx. apply find_some in Hx. tauto.
  - eapply get_p_kp. exact Hx'.
  - specialize (HP p). rewrite Hx' in HP. cbn in HP. destruct HP as [_ HP].
    destruct (kadded x); [rewrite Et in HP; tauto|]. destruct HP as [Hc _]. congruence.
Qed.

Lemma sclosed_close s t : ksclosed (kstep_raw true true s (KCloseSock t)) = true.
Proof.
  rewrite kclose_eq. unfold kclose_body. cbv zeta. cbn [kemit ksclosed].
  rewrite sclosed_fold; [|intros s0 x; destruct (klisted x); [apply sclosed_pipe_close|reflexivity]].
  rewrite sclosed_fold; [|intros s0 x; destruct (kd_closed x); reflexivity].
  rewrite sclosed_fold; [|intros s0 x; destruct (kl_closed x); reflexivity]. reflexivity.
Qed.

(* ---- histories ---- *)
Definition is_close (st : kstim) : bool := match st with KCloseSock _ => true | _ => false end.
Definition has_close (h : list kstim) : bool := existsb is_close h.

Lemma nodup_find (l : list kpipe) x : NoDup (map kp l) -> In x l -> find (fun y => kp y =? kp x) l = Some x.
Proof.
  induction l as [|z l IH]; intros Hn Hin; [contradiction|]. cbn [map] in Hn. inversion Hn as [|a b Hz Hn']; subst.
  cbn [find]. destruct Hin as [->|Hin]; [rewrite N.eqb_refl; reflexivity|].
  destruct (N.eqb_spec (kp z) (kp x)) as [E|E]; [|apply IH; assumption].
  exfalso. apply Hz. rewrite E. apply in_map. exact Hin.
Qed.

Lemma filter_none {A} (f : A -> bool) l : (forall x, In x l -> f x = false) -> filter f l = [].
Proof.
  induction l as [|x l IH]; intro H; [reflexivity|]. cbn [filter]. rewrite (H x (or_introl eq_refl)). apply IH.
  intros y Hy. apply H. right. exact Hy.
Qed.

Lemma released s e : ND s -> TC s -> (forall p, ok_pipe p (get_p s p) (e p)) -> count_ids s = 0 /\ count_listed s = 0.
Proof.
  intros Hn HT HP.
  assert (H : forall x, In x (kpipes s) -> kid x = false /\ klisted x = false).
  { intros x Hin. pose proof (nodup_find (kpipes s) x Hn Hin) as Hg. fold (get_p s (kp x)) in Hg.
    pose proof (HT _ _ Hg) as Ht. specialize (HP (kp x)). rewrite Hg in HP. cbn in HP. destruct HP as [_ HP].
    destruct (kadded x); [rewrite Ht in HP; tauto|tauto]. }
  unfold count_ids, count_listed.
  assert (F1 : filter kid (kpipes s) = []) by (apply filter_none; intros x Hx; apply H, Hx).
  assert (F2 : filter klisted (kpipes s) = []) by (apply filter_none; intros x Hx; apply H, Hx).
  rewrite F1, F2. split; reflexivity.
Qed.

Lemma run_released : forall h s ep cl, fresh_hist s h -> PInv ep s -> ND s -> (cl = true -> ksclosed s = true /\ TC s) ->
  ND (kfinal s h) /\ (cl || has_close h = true -> ksclosed (kfinal s h) = true /\ TC (kfinal s h)) /\ exists ep', PInv ep' (kfinal s h).
Proof.
  induction h as [|st r IH]; intros s ep cl Hf HP Hn Hc.
  - cbn. rewrite Bool.orb_false_r. split; [exact Hn|]. split; [exact Hc|]. exists ep. exact HP.
  - destruct Hf as [Hf1 Hf2]. cbn [kfinal has_close existsb].
    pose proof (PInv_step ep s st Hf1 HP) as HP1.
    assert (Hs : fst (kstep true true s st) = kstep_raw true true (kclear s) st) by reflexivity.
    assert (Hf' : fresh_stim (kclear s) st) by (destruct st; try exact I; exact Hf1).
    assert (Hn1 : ND (fst (kstep true true s st))) by (rewrite Hs; apply ND_step_raw; [exact Hf'|exact Hn]).
    assert (Hc1 : cl || is_close st = true -> ksclosed (fst (kstep true true s st)) = true /\ TC (fst (kstep true true s st))).
    { rewrite Hs. intro Hor. destruct cl.
      - destruct (Hc eq_refl) as [A B]. split; [apply sclosed_step_raw; exact A|apply TC_step_raw; [exact A|exact Hf'|exact B]].
      - cbn [orb] in Hor. destruct st; try discriminate. split; [apply sclosed_close|apply (close_TC (kclear s) t ep); exact HP]. }
    destruct (IH (fst (kstep true true s st)) _ (cl || is_close st) Hf2 HP1 Hn1 Hc1) as (A & B & C).
    split; [exact A|]. split; [|exact C]. intro Hor. apply B. rewrite <- Bool.orb_assoc. exact Hor.
Qed.

(* EVERY history with fresh pipe names that contains a Close: in its final state no pipe id is in use and no pipe is listed.
   Every prefix of a fresh history is a fresh history, so this is every quiescent point from the Close on. *)
Theorem released_after_close_all_histories h : fresh_hist kinit h -> has_close h = true ->
  count_ids (kfinal kinit h) = 0 /\ count_listed (kfinal kinit h) = 0.
Proof.
  intros Hf Hc.
  assert (Hn0 : ND kinit) by constructor.
  destruct (run_released h kinit (fun _ => []) false Hf PInv_init Hn0 (fun H => ltac:(discriminate H))) as (A & B & ep' & C).
  destruct (B Hc) as [_ HT]. exact (released _ ep' A HT C).
Qed.

Lemma fresh_hist_prefix : forall h1 h2 s, fresh_hist s (h1 ++ h2) -> fresh_hist s h1.
Proof. induction h1 as [|st r IH]; intros h2 s H; [exact I|]. destruct H as [H1 H2]. split; [exact H1|eapply IH; exact H2]. Qed.

Theorem released_at_every_point_after_close h1 h2 : fresh_hist kinit (h1 ++ h2) -> has_close h1 = true ->
  count_ids (kfinal kinit h1) = 0 /\ count_listed (kfinal kinit h1) = 0.
Proof. intros Hf Hc. apply released_after_close_all_histories; [eapply fresh_hist_prefix; exact Hf|exact Hc]. Qed.
