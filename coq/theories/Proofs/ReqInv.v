(* An invariant of the REQ model that holds in every state reachable by ANY history of stimuli (repaired
   RecvMsg), and its consequence: every reply ever handed out by Recv carried the id the call was waiting for,
   which was the id of the context's most recent accepted Send, and its payload came from a delivery that was
   matched under that id. *)
From MV Require Import Lib.Proto Model.Req Proofs.ReqProofs.
From Coq Require Import Lia ZifyBool ZifyN ZifyNat.
Open Scope N_scope.

(* what the invariant talks about *)
Record view := { v_ctxs : list (N * rctx); v_byid : list (N * N); v_threads : list thread;
                 v_glog : list (N * N * N * N * N * bytes); v_dlog : list (N * bytes) }.
Definition view_of (s : rstate) : view :=
  {| v_ctxs := ctxs s; v_byid := ctxByID s; v_threads := threads s; v_glog := glog s; v_dlog := dlog s |}.

Definition gl_ok (dl : list (N * bytes)) (e : N * N * N * N * N * bytes) : Prop :=
  let '(t, c, i, id, lst, b) := e in i = id /\ id = lst /\ id <> 0 /\ In (i, b) dl.

Record InvV (v : view) : Prop := {
  i_rep : forall c x i b, aget c (v_ctxs v) = Some x -> c_repMsg x = Some (i, b) ->
          c_reqID x = i /\ c_sendMsg x = None /\ In (i, b) (v_dlog v);
  (* key 0 stands for "no request": no wire id ever looks it up in the repaired code, so it is unconstrained *)
  i_reg : forall id c, aget id (v_byid v) = Some c -> id <> 0 ->
          exists x, aget c (v_ctxs v) = Some x /\ c_reqID x = id /\ c_repMsg x = None /\ c_sendMsg x = None;
  i_last : forall c x, aget c (v_ctxs v) = Some x -> c_reqID x = 0 \/ c_reqID x = c_last x;
  i_nodup : keys_nodup (v_byid v);
  i_thr : forall t c id e, In (TRecv t c id e) (v_threads v) -> id <> 0;
  i_gl : Forall (gl_ok (v_dlog v)) (v_glog v);
}.
Definition Inv (s : rstate) : Prop := InvV (view_of s).

Lemma inv_view s s' : view_of s' = view_of s -> Inv s -> Inv s'.
Proof. unfold Inv. intros ->. auto. Qed.

(* ---- association-list facts ---- *)
Lemma aget_adel_other {V} k k' (l : list (N * V)) : k <> k' -> aget k (adel k' l) = aget k l.
Proof.
  intro H. induction l as [|[k2 v2] l IH]; cbn [adel aget]; [reflexivity|].
  destruct (N.eqb_spec k' k2); cbn [aget].
  - subst. destruct (N.eqb_spec k k2); [contradiction|reflexivity].
  - destruct (N.eqb_spec k k2); [reflexivity|exact IH].
Qed.

Lemma aget_none_aset {V} k k' (v : V) l : aget k (aset k' v l) = None -> aget k l = None.
Proof.
  destruct (N.eq_dec k k') as [->|Hne]; [rewrite aget_aset_same; discriminate|].
  rewrite aget_aset_other by exact Hne. auto.
Qed.

Lemma keys_nodup_aset {V} k (v : V) l : keys_nodup l -> keys_nodup (aset k v l).
Proof.
  induction l as [|[k2 v2] l IH]; intro H; cbn [aset keys_nodup].
  - split; [reflexivity|exact I].
  - destruct H as [H1 H2]. destruct (N.eqb_spec k k2) as [->|Hne]; cbn [keys_nodup].
    + split; assumption.
    + split; [|apply IH; exact H2].
      rewrite aget_aset_other by congruence. exact H1.
Qed.

Lemma aget_adel_none {V} k k' (l : list (N * V)) : aget k l = None -> aget k (adel k' l) = None.
Proof.
  induction l as [|[k2 v2] l IH]; cbn [adel aget]; [reflexivity|].
  destruct (N.eqb_spec k k2); [discriminate|]. intro H.
  destruct (N.eqb_spec k' k2); cbn [aget]; [exact H|].
  destruct (N.eqb_spec k k2); [contradiction|apply IH, H].
Qed.

Lemma keys_nodup_adel {V} k (l : list (N * V)) : keys_nodup l -> keys_nodup (adel k l).
Proof.
  induction l as [|[k2 v2] l IH]; intro H; cbn [adel keys_nodup]; [exact I|].
  destruct H as [H1 H2]. destruct (N.eqb_spec k k2); [exact H2|].
  cbn [keys_nodup]. split; [apply aget_adel_none; exact H1|apply IH; exact H2].
Qed.

(* the four ghost-relevant components of a context record *)
Definition ckey (x : rctx) := (c_reqID x, c_repMsg x, c_sendMsg x, c_last x).

(* replacing a context by one with the same key keeps the invariant *)
Lemma inv_set_ctx_same s c x x' : aget c (ctxs s) = Some x -> ckey x' = ckey x -> Inv s -> Inv (set_ctx s c x').
Proof.
  intros Hx Hk [H1 H2 H3 H4 H5 H6]. unfold ckey in Hk. inversion Hk as [[K1 K2 K3 K4]].
  constructor; cbn [view_of set_ctx upd_ctxs v_ctxs v_byid v_threads v_glog v_dlog ctxs ctxByID threads glog dlog] in *.
  - intros c0 y i b Hy Hr. destruct (N.eq_dec c0 c) as [->|Hne].
    + rewrite aget_aset_same in Hy. inversion Hy; subst y. rewrite K1, K3. apply (H1 c x i b Hx). congruence.
    + rewrite aget_aset_other in Hy by exact Hne. eapply H1; eauto.
  - intros id c0 Hid Hnz. destruct (H2 id c0 Hid Hnz) as (y & Hy & A & B & C).
    destruct (N.eq_dec c0 c) as [->|Hne].
    + exists x'. rewrite aget_aset_same. rewrite Hx in Hy. inversion Hy; subst y. repeat split; congruence.
    + exists y. rewrite aget_aset_other by exact Hne. auto.
  - intros c0 y Hy. destruct (N.eq_dec c0 c) as [->|Hne].
    + rewrite aget_aset_same in Hy. inversion Hy; subst y. rewrite K1, K4. eapply H3; eauto.
    + rewrite aget_aset_other in Hy by exact Hne. eapply H3; eauto.
  - exact H4.
  - exact H5.
  - exact H6.
Qed.

(* ---- primitives ---- *)
Lemma cancel_send_view s c : exists cs', view_of (cancel_send s c) =
  {| v_ctxs := cs'; v_byid := ctxByID s; v_threads := threads s; v_glog := glog s; v_dlog := dlog s |} /\
  (cs' = ctxs s \/ exists x, aget c (ctxs s) = Some x /\
     cs' = aset c (with_ctx x (c_reqID x) (c_reqMsg x) (c_repMsg x) (c_sendMsg x) (c_lastPipe x) false) (ctxs s)).
Proof.
  unfold cancel_send. destruct (aget c (ctxs s)) as [x|] eqn:Ex; [|eexists; split; [reflexivity|left; reflexivity]].
  destruct (c_queued x); [|eexists; split; [reflexivity|left; reflexivity]].
  eexists; split; [reflexivity|right; eauto].
Qed.

Lemma inv_cancel_send s c : Inv s -> Inv (cancel_send s c).
Proof.
  intro HI. unfold cancel_send. destruct (aget c (ctxs s)) as [x|] eqn:Ex; [|exact HI].
  destruct (c_queued x); [|exact HI].
  eapply inv_view with (s := set_ctx s c _); [reflexivity|].
  eapply inv_set_ctx_same; [exact Ex|reflexivity|exact HI].
Qed.

Lemma cancel_send_ctx s c c0 : aget c0 (ctxs (cancel_send s c)) = None <-> aget c0 (ctxs s) = None.
Proof.
  unfold cancel_send. destruct (aget c (ctxs s)) as [x|] eqn:Ex; [|tauto].
  destruct (c_queued x); [|tauto]. cbn.
  destruct (N.eq_dec c0 c) as [->|Hne].
  - rewrite aget_aset_same. rewrite Ex. split; discriminate.
  - rewrite aget_aset_other by exact Hne. tauto.
Qed.

Lemma cancel_send_key s c x : aget c (ctxs s) = Some x ->
  exists y, aget c (ctxs (cancel_send s c)) = Some y /\ ckey y = ckey x.
Proof.
  intro Hx. unfold cancel_send. rewrite Hx. destruct (c_queued x); [|eauto].
  cbn. rewrite aget_aset_same. eauto.
Qed.

Lemma stop_timer_view s o : view_of (stop_timer s o) = view_of s.
Proof. destruct o; reflexivity. Qed.

(* generic re-establishment: the state s' differs from s (which satisfies Inv) in that context c now holds x'
   (old value x), the id table is m', threads / logs are unchanged or extended as described by the hypotheses *)
Lemma inv_update s s' c x x' :
  Inv s -> aget c (ctxs s) = Some x ->
  ctxs s' = aset c x' (ctxs s) -> threads s' = threads s -> glog s' = glog s ->
  (forall e, In e (dlog s) -> In e (dlog s')) ->
  keys_nodup (ctxByID s') ->
  (* the new record is fine by itself *)
  (forall i b, c_repMsg x' = Some (i, b) -> c_reqID x' = i /\ c_sendMsg x' = None /\ In (i, b) (dlog s')) ->
  (c_reqID x' = 0 \/ c_reqID x' = c_last x') ->
  (* registrations: every entry of the new table either points elsewhere and was there before, or points to c
     and agrees with x' *)
  (forall id c0, aget id (ctxByID s') = Some c0 -> id <> 0 ->
     (c0 <> c /\ aget id (ctxByID s) = Some c0) \/
     (c0 = c /\ c_reqID x' = id /\ c_repMsg x' = None /\ c_sendMsg x' = None)) ->
  Inv s'.
Proof.
  intros [H1 H2 H3 H4 H5 H6] Hx Ec Et Eg Ed Hnd Hrep Hlast Hreg.
  constructor; cbn [view_of v_ctxs v_byid v_threads v_glog v_dlog] in *.
  - intros c0 y i b Hy Hr. rewrite Ec in Hy. destruct (N.eq_dec c0 c) as [->|Hne].
    + rewrite aget_aset_same in Hy. inversion Hy; subst y. apply Hrep. exact Hr.
    + rewrite aget_aset_other in Hy by exact Hne. destruct (H1 c0 y i b Hy Hr) as (A & B & C). auto.
  - intros id c0 Hid Hnz. destruct (Hreg id c0 Hid Hnz) as [(Hne & Hold)|(-> & A & B & C)].
    + destruct (H2 id c0 Hold Hnz) as (y & Hy & A & B & C). exists y. rewrite Ec, aget_aset_other by exact Hne. auto.
    + exists x'. rewrite Ec, aget_aset_same. auto.
  - intros c0 y Hy. rewrite Ec in Hy. destruct (N.eq_dec c0 c) as [->|Hne].
    + rewrite aget_aset_same in Hy. inversion Hy; subst y. exact Hlast.
    + rewrite aget_aset_other in Hy by exact Hne. eapply H3; eauto.
  - exact Hnd.
  - rewrite Et. exact H5.
  - rewrite Eg. eapply Forall_impl; [|exact H6]. intros [[[[[t c1] i] id] lst] b] (A & B & C & D). cbn. auto.
Qed.

(* cancel: unregister the context's id (if not 0), clear reqID / repMsg / reqMsg *)
Lemma inv_cancel s c : Inv s -> Inv (cancel s c).
Proof.
  intro HI. unfold cancel.
  pose proof (inv_cancel_send s c HI) as HI1. set (s1 := cancel_send s c) in *.
  destruct (aget c (ctxs s1)) as [x|] eqn:Ex; [|exact HI1].
  set (s2 := if negb (c_reqID x =? 0) then upd_byid s1 (adel (c_reqID x) (ctxByID s1)) else s1).
  set (s3 := stop_timer (stop_timer (stop_timer s2 (c_resendTimer x)) (c_sendTimer x)) (c_recvTimer x)).
  set (x' := with_timers (with_ctx x 0 None None (c_sendMsg x) (c_lastPipe x) (c_queued x)) None None None).
  assert (V3 : view_of s3 = view_of s2) by (unfold s3; rewrite !stop_timer_view; reflexivity).
  assert (V2 : ctxs s2 = ctxs s1 /\ threads s2 = threads s1 /\ glog s2 = glog s1 /\ dlog s2 = dlog s1 /\
               ctxByID s2 = (if negb (c_reqID x =? 0) then adel (c_reqID x) (ctxByID s1) else ctxByID s1)).
  { unfold s2. destruct (negb (c_reqID x =? 0)); cbn; auto. }
  destruct V2 as (Cc & Ct & Cg & Cd & Cb).
  apply (f_equal v_ctxs) in V3 as A3. apply (f_equal v_threads) in V3 as B3. apply (f_equal v_glog) in V3 as G3.
  apply (f_equal v_dlog) in V3 as D3. apply (f_equal v_byid) in V3 as M3. cbn in A3, B3, G3, D3, M3.
  pose proof HI1 as [H1 H2 H3 H4 H5 H6]. cbn [view_of v_ctxs v_byid v_threads v_glog v_dlog] in *.
  apply (inv_update s1 (wake (set_ctx s3 c x') c) c x x' HI1 Ex).
  - cbn. rewrite A3, Cc. reflexivity.
  - cbn. rewrite B3, Ct. reflexivity.
  - cbn. rewrite G3, Cg. reflexivity.
  - cbn. rewrite D3, Cd. auto.
  - cbn. rewrite M3, Cb. destruct (negb (c_reqID x =? 0)); [apply keys_nodup_adel|]; exact H4.
  - cbn. discriminate.
  - cbn. left. reflexivity.
  - cbn. rewrite M3, Cb. intros id c0 Hid Hnz.
    destruct (N.eqb_spec (c_reqID x) 0) as [E0|E0]; cbn [negb] in Hid.
    + destruct (N.eq_dec c0 c) as [->|Hne]; [|left; auto].
      exfalso. destruct (H2 id c Hid Hnz) as (y & Hy & A & B & C0). rewrite Ex in Hy. inversion Hy; subst y. congruence.
    + destruct (N.eq_dec id (c_reqID x)) as [->|Hid2].
      * rewrite aget_adel_same in Hid by exact H4. discriminate.
      * rewrite aget_adel_other in Hid by exact Hid2.
        destruct (N.eq_dec c0 c) as [->|Hne]; [|left; auto].
        destruct (H2 id c Hid Hnz) as (y & Hy & A & B & C0). rewrite Ex in Hy. inversion Hy; subst y. congruence.
Qed.

(* ---- s.send() ---- *)
Lemma arm_view s c k ms : view_of (fst (arm s c k ms)) = view_of s.
Proof. reflexivity. Qed.

Lemma sched_ctx_key x p :
  c_reqID (sched_ctx x p) = c_reqID x /\ c_repMsg (sched_ctx x p) = c_repMsg x /\
  c_sendMsg (sched_ctx x p) = None /\ c_last (sched_ctx x p) = c_last x.
Proof. unfold sched_ctx. destruct (c_sendMsg x) as [[t m]|]; cbn; auto. Qed.

Lemma inv_send_one s c p x pp sq rq : Inv s -> aget c (ctxs s) = Some x -> Inv (send_one s c p x pp sq rq).
Proof.
  intros HI Hx. pose proof HI as [H1 H2 H3 H4 H5 H6]. cbn [view_of v_ctxs v_byid v_threads v_glog v_dlog] in *.
  destruct (sched_ctx_key x p) as (K1 & K2 & K3 & K4).
  unfold send_one.
  set (s0 := upd_readyQ (upd_sendQ s sq) rq).
  set (s1 := match c_sendMsg x with Some _ => wake (upd_byid s0 (aset (c_reqID x) c (ctxByID s0))) c | None => s0 end).
  set (x1 := sched_ctx x p) in *.
  destruct (match c_reqMsg x1 with Some m => m | None => (0, []) end) as [mid body].
  set (sx := if 0 <? c_resend x1 then let '(s2, i) := arm s1 c (TkResend (c_reqID x1)) (c_resend x1) in
                                      (s2, with_timers x1 (Some i) (c_sendTimer x1) (c_recvTimer x1)) else (s1, x1)).
  assert (Esx : view_of (fst sx) = view_of s1 /\ ckey (snd sx) = ckey x1).
  { unfold sx. destruct (0 <? c_resend x1); [|auto]. cbn. auto. }
  destruct sx as [s2 x2]. cbn [fst snd] in Esx. destruct Esx as [V2 Kx2].
  unfold ckey in Kx2. inversion Kx2 as [[Q1 Q2 Q3 Q4]].
  assert (R1 : c_reqID x2 = c_reqID x) by (rewrite Q1; exact K1).
  assert (R2 : c_repMsg x2 = c_repMsg x) by (rewrite Q2; exact K2).
  assert (R3 : c_sendMsg x2 = None) by (rewrite Q3; exact K3).
  assert (R4 : c_last x2 = c_last x) by (rewrite Q4; exact K4).
  clear Q1 Q2 Q3 Q4 Kx2.
  assert (V1 : ctxs s1 = ctxs s /\ threads s1 = threads s /\ glog s1 = glog s /\ dlog s1 = dlog s /\
               ctxByID s1 = match c_sendMsg x with Some _ => aset (c_reqID x) c (ctxByID s) | None => ctxByID s end).
  { unfold s1, s0. destruct (c_sendMsg x); cbn; auto. }
  destruct V1 as (Cc & Ct & Cg & Cd & Cb).
  apply (f_equal v_ctxs) in V2 as A2. apply (f_equal v_threads) in V2 as B2. apply (f_equal v_glog) in V2 as G2.
  apply (f_equal v_dlog) in V2 as D2. apply (f_equal v_byid) in V2 as M2. cbn in A2, B2, G2, D2, M2.
  set (sf := emit (set_ctx s2 c x2) (OTx p (req_hdr mid) body)).
  assert (Hsf : Inv sf).
  { apply (inv_update s sf c x x2 HI Hx).
    - cbn. rewrite A2, Cc. reflexivity.
    - cbn. rewrite B2, Ct. reflexivity.
    - cbn. rewrite G2, Cg. reflexivity.
    - cbn. rewrite D2, Cd. auto.
    - cbn. rewrite M2, Cb. destruct (c_sendMsg x); [apply keys_nodup_aset|]; exact H4.
    - intros i b Hr. rewrite R2 in Hr. destruct (H1 c x i b Hx Hr) as (A & B & C).
      rewrite R1, R3. cbn. rewrite D2, Cd. auto.
    - rewrite R1, R4. eapply H3; eauto.
    - cbn. rewrite M2, Cb. intros id c0 Hid Hnz.
      destruct (c_sendMsg x) as [[t m]|] eqn:Es.
      + destruct (N.eq_dec id (c_reqID x)) as [->|Hne].
        * rewrite aget_aset_same in Hid. inversion Hid; subst c0. right.
          rewrite R1, R2, R3. repeat split; auto.
          destruct (c_repMsg x) as [[i b]|] eqn:Er; [|reflexivity].
          destruct (H1 c x i b Hx Er) as (_ & B & _). congruence.
        * rewrite aget_aset_other in Hid by exact Hne.
          destruct (N.eq_dec c0 c) as [->|Hc]; [|left; auto].
          destruct (H2 id c Hid Hnz) as (y & Hy & A & B & C). rewrite Hx in Hy. inversion Hy; subst y. congruence.
      + destruct (N.eq_dec c0 c) as [->|Hc]; [|left; auto].
        right. destruct (H2 id c Hid Hnz) as (y & Hy & A & B & C). rewrite Hx in Hy. inversion Hy; subst y.
        rewrite R1, R2, R3. auto. }
  destruct (pp_hold pp); (eapply inv_view; [|exact Hsf]); reflexivity.
Qed.

Lemma inv_do_send : forall fuel s, Inv s -> Inv (do_send fuel s).
Proof.
  induction fuel as [|f IH]; intros s HI; [exact HI|].
  cbn [do_send]. destruct (sendQ s) as [|c sq]; [exact HI|]. destruct (readyQ s) as [|p rq]; [exact HI|].
  destruct (aget c (ctxs s)) as [x|] eqn:Ex; [|exact HI]. destruct (get_pipe s p) as [pp|]; [|exact HI].
  apply IH. apply inv_send_one; assumption.
Qed.

Lemma inv_send_all s : Inv s -> Inv (send_all s).
Proof. apply inv_do_send. Qed.

Lemma inv_resend_message s c id : Inv s -> Inv (resend_message s c id).
Proof.
  intro HI. unfold resend_message. destruct (aget c (ctxs s)) as [x|] eqn:Ex; [|exact HI].
  destruct (_ && _); [|exact HI].
  apply inv_send_all. eapply inv_view with (s := set_ctx s c _); [reflexivity|].
  eapply inv_set_ctx_same; [exact Ex|reflexivity|exact HI].
Qed.

(* ---- the code after the wait loops ---- *)
Lemma inv_emit s o : Inv s -> Inv (emit s o).
Proof. apply inv_view. reflexivity. Qed.

Lemma inv_threads s ths : Inv s -> (forall t c id e, In (TRecv t c id e) ths -> id <> 0) -> Inv (upd_threads s ths).
Proof.
  intros [H1 H2 H3 H4 H5 H6] Ht. constructor; cbn [view_of upd_threads v_ctxs v_byid v_threads v_glog v_dlog] in *; auto.
Qed.

Lemma inv_send_finish s t c e : Inv s -> Inv (send_finish s t c e).
Proof.
  intro HI. unfold send_finish. destruct (aget c (ctxs s)) as [x|] eqn:Ex; [|exact HI].
  destruct (match c_sendMsg x with Some (t', _) => t' =? t | None => false end) eqn:Em; [|apply inv_emit, HI].
  pose proof (inv_cancel_send s c HI) as HI1.
  destruct (cancel_send_key s c x Ex) as (y & Hy & Ky). rewrite Hy.
  apply inv_emit.
  unfold ckey in Ky. inversion Ky as [[Q1 Q2 Q3 Q4]].
  assert (Hsm : exists tm, c_sendMsg y = Some tm).
  { rewrite Q3. destruct (c_sendMsg x) as [tm|]; [eauto|discriminate Em]. }
  destruct Hsm as (tm & Hsm).
  pose proof HI1 as [H1 H2 H3 H4 H5 H6]. cbn [view_of v_ctxs v_byid v_threads v_glog v_dlog] in *.
  set (y' := with_ctx y 0 (c_reqMsg y) (c_repMsg y) None (c_lastPipe y) (c_queued y)).
  apply (inv_update (cancel_send s c) (set_ctx (cancel_send s c) c y') c y y' HI1 Hy).
  - reflexivity.
  - reflexivity.
  - reflexivity.
  - auto.
  - exact H4.
  - intros i b Hr. cbn in Hr. destruct (H1 c y i b Hy Hr) as (A & B & C). congruence.
  - cbn. left. reflexivity.
  - intros id c0 Hid Hnz. cbn in Hid. destruct (N.eq_dec c0 c) as [->|Hne]; [|left; auto].
    destruct (H2 id c Hid Hnz) as (z & Hz & A & B & C). rewrite Hy in Hz. inversion Hz; subst z. congruence.
Qed.

Lemma inv_log_reply s e : Inv s -> gl_ok (dlog s) e -> Inv (log_reply s e).
Proof.
  intros [H1 H2 H3 H4 H5 H6] He. constructor; cbn [view_of log_reply v_ctxs v_byid v_threads v_glog v_dlog ctxs ctxByID threads glog dlog] in *; auto.
Qed.

Lemma inv_wake s c : Inv s -> Inv (wake s c).
Proof. apply inv_view. reflexivity. Qed.

Lemma inv_recv_finish s t c id e : Inv s -> id <> 0 -> recv_waits s c id = false -> Inv (recv_finish true s t c id e).
Proof.
  intros HI Hid Hw. unfold recv_finish. unfold recv_waits in Hw.
  destruct (aget c (ctxs s)) as [x|] eqn:Ex; [|exact HI].
  pose proof HI as [H1 H2 H3 H4 H5 H6]. cbn [view_of v_ctxs v_byid v_threads v_glog v_dlog] in *.
  cbn [andb]. destruct (N.eqb_spec (c_reqID x) id) as [Heq|Hne]; cbn [negb andb] in *.
  - (* still the request this call waited for: the reply is there; consume it, retire the request *)
    destruct (c_repMsg x) as [[i b]|] eqn:Er; [|discriminate Hw].
    destruct (H1 c x i b Ex Er) as (A & B & C).
    set (x' := with_flags (with_ctx x 0 (c_reqMsg x) None (c_sendMsg x) (c_lastPipe x) (c_queued x)) (c_closed x) false).
    assert (HI' : Inv (wake (set_ctx s c x') c)).
    { apply inv_wake. apply (inv_update s (set_ctx s c x') c x x' HI Ex).
      - reflexivity.
      - reflexivity.
      - reflexivity.
      - auto.
      - exact H4.
      - cbn. discriminate.
      - cbn. left. reflexivity.
      - intros id0 c0 Hreg Hnz. cbn in Hreg. destruct (N.eq_dec c0 c) as [->|Hc]; [|left; auto].
        destruct (H2 id0 c Hreg Hnz) as (z & Hz & A' & B' & C'). rewrite Ex in Hz. inversion Hz; subst z. congruence. }
    apply inv_emit. apply inv_log_reply; [exact HI'|].
    cbn. repeat split; try congruence.
    destruct (H3 c x Ex) as [E0|E0]; congruence.
  - (* a newer Send replaced the request: nothing of the context is touched except the receiveWait flag *)
    apply inv_emit. apply inv_wake. eapply inv_view with (s := set_ctx s c _); [reflexivity|].
    eapply inv_set_ctx_same; [exact Ex|reflexivity|exact HI].
Qed.

(* ---- settle: blocked calls whose wait condition became false run their epilogue ---- *)
Lemma pick_thread_spec s : forall post pre th rest, pick_thread s pre post = Some (th, rest) ->
  thread_waits s th = false /\ In th post /\ (forall th', In th' rest -> In th' (pre ++ post)).
Proof.
  induction post as [|x r IH]; intros pre th rest H; cbn [pick_thread] in H; [discriminate|].
  destruct (thread_waits s x) eqn:Ew.
  - destruct (IH _ _ _ H) as (A & B & C). split; [exact A|]. split; [right; exact B|].
    intros th' Hin. specialize (C th' Hin). rewrite <- app_assoc in C. exact C.
  - inversion H; subst. split; [exact Ew|]. split; [left; reflexivity|].
    intros th' Hin. apply in_app_or in Hin as [Hin|Hin]; apply in_or_app; [left; exact Hin|right; right; exact Hin].
Qed.

Lemma inv_settle : forall fuel s, Inv s -> Inv (settle true fuel s).
Proof.
  induction fuel as [|f IH]; intros s HI; [exact HI|].
  cbn [settle]. destruct (pick_thread s [] (threads s)) as [[th rest]|] eqn:Ep; [|exact HI].
  destruct (pick_thread_spec s _ _ _ _ Ep) as (Hw & Hin & Hrest). cbn [app] in Hrest.
  assert (HI' : Inv (upd_threads s rest)).
  { apply inv_threads; [exact HI|]. intros t c id e H. destruct HI as [_ _ _ _ H5 _]. eapply H5. apply Hrest. exact H. }
  destruct th as [t c e|t c id e].
  - apply IH. apply inv_send_finish. exact HI'.
  - apply IH. apply inv_recv_finish; [exact HI'| |].
    + destruct HI as [_ _ _ _ H5 _]. eapply H5. exact Hin.
    + cbn [thread_waits] in Hw. apply orb_false_iff in Hw as [_ Hw]. exact Hw.
Qed.

Lemma inv_mark_expired s t : Inv s -> Inv (mark_expired s t).
Proof.
  intro HI. unfold mark_expired. apply inv_threads; [exact HI|].
  intros t0 c id e Hin. apply in_map_iff in Hin as (th & Eth & Hth).
  destruct HI as [_ _ _ _ H5 _]. cbn in H5.
  destruct th as [t' c' e'|t' c' id' e'].
  - destruct (t' =? t); discriminate.
  - destruct (t' =? t); inversion Eth; subst; eapply H5; exact Hth.
Qed.

(* ---- timers ---- *)
Lemma inv_fire s tm : Inv s -> Inv (fire s tm).
Proof.
  intro HI. unfold fire. destruct (tm_kind tm) as [id|t|t id].
  - apply inv_resend_message, HI.
  - destruct (aget (tm_ctx tm) (ctxs s)) as [x|]; [|exact HI].
    destruct (match c_sendMsg x with Some (t', _) => t' =? t | None => false end); [|exact HI].
    apply inv_cancel, inv_mark_expired, HI.
  - destruct (aget (tm_ctx tm) (ctxs s)) as [x|]; [|exact HI].
    destruct (c_reqID x =? id); [|exact HI]. apply inv_cancel, inv_mark_expired, HI.
Qed.

Lemma inv_set_misc_same s cl nw amb : Inv s -> Inv (set_misc s cl (nsend s) nw amb).
Proof. apply inv_view. reflexivity. Qed.
Lemma inv_set_misc s cl ns nw amb : Inv s -> Inv (set_misc s cl ns nw amb).
Proof. apply inv_view. reflexivity. Qed.
Lemma inv_upd_timers s ts n : Inv s -> Inv (upd_timers s ts n).
Proof. apply inv_view. reflexivity. Qed.

Lemma inv_fire_due : forall fuel s, Inv s -> Inv (fire_due true fuel s).
Proof.
  induction fuel as [|f IH]; intros s HI; [exact HI|].
  cbn [fire_due]. destruct (earliest _ None) as [tm|]; [|exact HI].
  apply IH. apply inv_set_misc. apply inv_settle. apply inv_fire. apply inv_set_misc. apply inv_upd_timers. exact HI.
Qed.

(* ---- a reply arrives ---- *)
Lemma inv_pipe_recv s p body : Inv s -> Inv (pipe_recv true s p body).
Proof.
  intro HI. unfold pipe_recv.
  destruct body as [|a [|b [|c' [|d payload]]]]; try exact HI.
  set (s0 := if existsb (N.eqb p) (readyQ s) then _ else s).
  assert (HI0 : Inv s0).
  { unfold s0. destruct (existsb (N.eqb p) (readyQ s)); [|exact HI]. eapply inv_view; [|exact HI]. reflexivity. }
  clearbody s0. clear HI s.
  destruct (wire_key true (be_dec [a; b; c'; d])) as [id|] eqn:Ewk; [|exact HI0].
  assert (Hid0 : id <> 0).
  { unfold wire_key in Ewk. destruct (N.ltb_spec (2 ^ 31) (be_dec [a; b; c'; d])); [inversion Ewk; lia|].
    rewrite andb_false_r in Ewk. discriminate. }
  destruct (aget id (ctxByID s0)) as [c|] eqn:Eid; [|exact HI0].
  pose proof (inv_cancel_send s0 c HI0) as HI1.
  assert (Eid1 : aget id (ctxByID (cancel_send s0 c)) = Some c) by (rewrite cancel_send_byid; exact Eid).
  set (s1 := cancel_send s0 c) in *.
  destruct (aget c (ctxs s1)) as [x|] eqn:Ex; [|exact HI1].
  pose proof HI1 as [H1 H2 H3 H4 H5 H6]. cbn [view_of v_ctxs v_byid v_threads v_glog v_dlog] in *.
  destruct (H2 id c Eid1 Hid0) as (y & Hy & A & B & C). rewrite Ex in Hy. inversion Hy; subst y.
  set (x' := with_timers (with_ctx x (c_reqID x) None (Some (id, payload)) (c_sendMsg x) (c_lastPipe x) (c_queued x))
                         None (c_sendTimer x) None).
  set (s2 := upd_byid s1 (adel id (ctxByID s1))).
  set (s3 := stop_timer (stop_timer s2 (c_resendTimer x)) (c_recvTimer x)).
  assert (V3 : view_of s3 = view_of s2) by (unfold s3; rewrite !stop_timer_view; reflexivity).
  apply (f_equal v_ctxs) in V3 as A3. apply (f_equal v_threads) in V3 as B3. apply (f_equal v_glog) in V3 as G3.
  apply (f_equal v_dlog) in V3 as D3. apply (f_equal v_byid) in V3 as M3. cbn in A3, B3, G3, D3, M3.
  apply inv_wake.
  apply (inv_update s1 (set_ctx (log_match s3 (id, payload)) c x') c x x' HI1 Ex).
  - cbn. rewrite A3. reflexivity.
  - cbn. rewrite B3. reflexivity.
  - cbn. rewrite G3. reflexivity.
  - cbn. rewrite D3. intros e He. right. exact He.
  - cbn. rewrite M3. apply keys_nodup_adel. exact H4.
  - cbn. intros i b0 Hr. inversion Hr; subst i b0. rewrite D3. repeat split; auto.
  - cbn. eapply H3; eauto.
  - cbn. rewrite M3. intros id0 c0 Hreg Hnz.
    destruct (N.eq_dec id0 id) as [->|Hne].
    + rewrite aget_adel_same in Hreg by exact H4. discriminate.
    + rewrite aget_adel_other in Hreg by exact Hne.
      destruct (N.eq_dec c0 c) as [->|Hc]; [|left; auto].
      destruct (H2 id0 c Hreg Hnz) as (z & Hz & A' & B' & C'). rewrite Ex in Hz. inversion Hz; subst z. congruence.
Qed.

(* ---- RemovePipe ---- *)
Lemma fold_left_inv {A} (f : rstate -> A -> rstate) :
  (forall s a, Inv s -> Inv (f s a)) -> forall l s, Inv s -> Inv (fold_left f l s).
Proof. intros Hf l. induction l as [|a l IH]; intros s HI; cbn [fold_left]; [exact HI|]. apply IH, Hf, HI. Qed.

Lemma inv_set_pipe s x : Inv s -> Inv (set_pipe s x).
Proof. apply inv_view. reflexivity. Qed.
Lemma inv_upd_readyQ s q : Inv s -> Inv (upd_readyQ s q).
Proof. apply inv_view. reflexivity. Qed.
Lemma inv_upd_sendQ s q : Inv s -> Inv (upd_sendQ s q).
Proof. apply inv_view. reflexivity. Qed.
Lemma inv_upd_pipes s q : Inv s -> Inv (upd_pipes s q).
Proof. apply inv_view. reflexivity. Qed.

Lemma inv_remove_pipe s p : Inv s -> Inv (remove_pipe s p).
Proof.
  intro HI. unfold remove_pipe. destruct (get_pipe s p) as [pp|]; [|exact HI].
  destruct (pp_closed pp); [exact HI|].
  apply fold_left_inv.
  - clear. intros s cx HI. cbn zeta. destruct (aget (fst cx) (ctxs s)) as [x|] eqn:Ex; [|exact HI].
    destruct (c_fnp x && no_pipes s); [apply inv_cancel, HI|].
    destruct (c_lastPipe x) as [q|]; [|exact HI]. destruct (c_reqMsg x); [|exact HI].
    destruct (q =? p); [|exact HI].
    assert (HI' : forall rm, Inv (set_ctx s (fst cx) (with_ctx x (c_reqID x) rm (c_repMsg x) (c_sendMsg x) None (c_queued x)))).
    { intro rm. eapply inv_set_ctx_same; [exact Ex|reflexivity|exact HI]. }
    destruct (c_resend x =? 0); [apply inv_cancel, HI'|apply inv_resend_message, inv_cancel_send, HI'].
  - apply inv_set_misc. apply inv_upd_readyQ. apply inv_set_pipe. exact HI.
Qed.

(* ---- API calls ---- *)
Lemma inv_add_thread s th : Inv s -> (forall t c id e, th = TRecv t c id e -> id <> 0) -> Inv (upd_threads s (threads s ++ [th])).
Proof.
  intros HI Hth. apply inv_threads; [exact HI|]. intros t c id e Hin.
  apply in_app_or in Hin as [Hin|[Heq|[]]].
  - destruct HI as [_ _ _ _ H5 _]. eapply H5; exact Hin.
  - eapply Hth. exact Heq.
Qed.

(* a context record that takes part in nothing yet *)
Lemma inv_new_ctx s c x' : Inv s -> aget c (ctxs s) = None ->
  c_reqID x' = 0 -> c_repMsg x' = None -> c_sendMsg x' = None -> Inv (set_ctx s c x').
Proof.
  intros [H1 H2 H3 H4 H5 H6] Hn K1 K2 K3.
  constructor; cbn [view_of set_ctx upd_ctxs v_ctxs v_byid v_threads v_glog v_dlog ctxs ctxByID threads glog dlog] in *; auto.
  - intros c0 y i b Hy Hr. destruct (N.eq_dec c0 c) as [->|Hne].
    + rewrite aget_aset_same in Hy. inversion Hy; subst y. congruence.
    + rewrite aget_aset_other in Hy by exact Hne. eapply H1; eauto.
  - intros id c0 Hid Hnz. destruct (H2 id c0 Hid Hnz) as (y & Hy & A & B & C).
    exists y. rewrite aget_aset_other; [auto|]. intros ->. congruence.
  - intros c0 y Hy. destruct (N.eq_dec c0 c) as [->|Hne].
    + rewrite aget_aset_same in Hy. inversion Hy; subst y. left. exact K1.
    + rewrite aget_aset_other in Hy by exact Hne. eapply H3; eauto.
Qed.

Lemma cancel_ctx s c x : aget c (ctxs s) = Some x ->
  exists y, aget c (ctxs (cancel s c)) = Some y /\ c_reqID y = 0 /\ c_repMsg y = None /\
            c_sendMsg y = c_sendMsg x /\ c_last y = c_last x.
Proof.
  intro Hx. unfold cancel. destruct (cancel_send_key s c x Hx) as (y0 & Hy0 & Ky0). rewrite Hy0.
  unfold ckey in Ky0. inversion Ky0 as [[Q1 Q2 Q3 Q4]].
  eexists. split.
  - cbn [wake set_ctx upd_ctxs ctxs]. apply aget_aset_same.
  - cbn. auto.
Qed.

Lemma inv_do_call s t k : Inv s -> Inv (do_call s t k).
Proof.
  intro HI. destruct k as [c hdr body|c|c o v arg|c|c|]; cbn [do_call].
  - (* Send *)
    set (s0 := set_misc s (sclosed s) (nsend s + 1) (now s) (ambig s)).
    assert (HI0 : Inv s0) by (apply inv_set_misc, HI).
    destruct (aget c (ctxs s0)) as [x|] eqn:Ex; [|apply inv_emit, HI0].
    destruct (sclosed s0 || c_closed x); [apply inv_emit, HI0|].
    destruct (c_fnp x && no_pipes s0); [apply inv_emit, HI0|].
    pose proof (inv_cancel s0 c HI0) as HIc.
    destruct (cancel_ctx s0 c x Ex) as (y0 & Hy0 & Y1 & Y2 & Y3 & Y4).
    pose proof (inv_cancel_send _ c HIc) as HI1.
    destruct (cancel_send_key _ c y0 Hy0) as (y & Hy & Ky).
    unfold ckey in Ky. inversion Ky as [[Q1 Q2 Q3 Q4]].
    set (s1 := cancel_send (cancel s0 c) c) in *. rewrite Hy.
    set (id := nsend s0).
    set (y' := with_last (with_ctx y id (c_reqMsg y) (c_repMsg y) (Some (t, (id, body))) (c_lastPipe y) true) id).
    pose proof HI1 as [H1 H2 H3 H4 H5 H6]. cbn [view_of v_ctxs v_byid v_threads v_glog v_dlog] in *.
    assert (HI2 : Inv (upd_sendQ (set_ctx s1 c y') (sendQ (set_ctx s1 c y') ++ [c]))).
    { apply inv_upd_sendQ. apply (inv_update s1 (set_ctx s1 c y') c y y' HI1 Hy).
      - reflexivity.
      - reflexivity.
      - reflexivity.
      - auto.
      - exact H4.
      - cbn. intros i b Hr. congruence.
      - cbn. right. reflexivity.
      - intros id0 c0 Hreg Hnz. cbn in Hreg. destruct (N.eq_dec c0 c) as [->|Hc]; [|left; auto].
        destruct (H2 id0 c Hreg Hnz) as (z & Hz & A & B & C). rewrite Hy in Hz. inversion Hz; subst z. congruence. }
    destruct (c_best y).
    + apply inv_emit, inv_send_all, HI2.
    + set (s2 := if 0 <? c_sendExp y then _ else _).
      assert (HIs2 : Inv s2).
      { unfold s2. destruct (0 <? c_sendExp y); [|exact HI2].
        destruct (arm _ c (TkSend t) (c_sendExp y)) as [s3 i] eqn:Ea.
        assert (HI3 : Inv s3).
        { replace s3 with (fst (arm (upd_sendQ (set_ctx s1 c y') (sendQ (set_ctx s1 c y') ++ [c])) c (TkSend t) (c_sendExp y))) by (rewrite Ea; reflexivity).
          eapply inv_view; [apply arm_view|exact HI2]. }
        destruct (aget c (ctxs s3)) as [z|] eqn:Ez; [|exact HI3].
        eapply inv_set_ctx_same; [exact Ez|reflexivity|exact HI3]. }
      apply inv_wake. apply inv_add_thread; [apply inv_send_all, HIs2|]. intros; discriminate.
  - (* Recv *)
    destruct (aget c (ctxs s)) as [x|] eqn:Ex; [|apply inv_emit, HI].
    destruct (sclosed s || c_closed x); [apply inv_emit, HI|].
    destruct (c_fnp x && no_pipes s); [apply inv_emit, HI|].
    destruct (c_recvWait x || (c_reqID x =? 0)) eqn:Eg; [apply inv_emit, HI|].
    apply orb_false_iff in Eg as [_ Eg]. apply N.eqb_neq in Eg.
    set (s1 := set_ctx s c (with_flags x (c_closed x) true)).
    assert (HI1 : Inv s1) by (eapply inv_set_ctx_same; [exact Ex|reflexivity|exact HI]).
    set (s2 := if 0 <? c_recvExp x then _ else s1).
    assert (HIs2 : Inv s2).
    { unfold s2. destruct (0 <? c_recvExp x); [|exact HI1].
      destruct (arm s1 c (TkRecv t (c_reqID x)) (c_recvExp x)) as [s3 i] eqn:Ea.
      assert (HI3 : Inv s3).
      { replace s3 with (fst (arm s1 c (TkRecv t (c_reqID x)) (c_recvExp x))) by (rewrite Ea; reflexivity).
        eapply inv_view; [apply arm_view|exact HI1]. }
      destruct (aget c (ctxs s3)) as [z|] eqn:Ez; [|exact HI3].
      eapply inv_set_ctx_same; [exact Ez|reflexivity|exact HI3]. }
    apply inv_wake. apply inv_add_thread; [exact HIs2|]. intros t0 c0 id0 e0 Heq. inversion Heq; subst. exact Eg.
  - (* SetOption *)
    destruct (aget c (ctxs s)) as [x|] eqn:Ex; [|apply inv_emit, HI].
    destruct o; try (apply inv_emit, HI); apply inv_emit; (eapply inv_set_ctx_same; [exact Ex|reflexivity|exact HI]).
  - (* OpenContext *)
    destruct (sclosed s); [apply inv_emit, HI|].
    destruct (aget c (ctxs s)) as [x0|] eqn:Ec; [apply inv_set_misc, HI|].
    destruct (aget 0 (ctxs s)) as [d|]; [|exact HI].
    apply inv_emit. apply inv_new_ctx; [exact HI|exact Ec|reflexivity|reflexivity|reflexivity].
  - (* context Close *)
    destruct (aget c (ctxs s)) as [x|] eqn:Ex; [|apply inv_emit, HI].
    destruct (c_closed x); [apply inv_emit, HI|].
    apply inv_emit, inv_cancel. eapply inv_set_ctx_same; [exact Ex|reflexivity|exact HI].
  - (* socket Close *)
    destruct (sclosed s); [apply inv_emit, HI|].
    apply inv_emit. apply fold_left_inv; [|apply inv_set_misc, HI].
    clear. intros s cx HI. destruct (aget (fst cx) (ctxs s)) as [x|] eqn:Ex; [|exact HI].
    destruct (c_closed x); [exact HI|].
    apply inv_cancel. eapply inv_set_ctx_same; [exact Ex|reflexivity|exact HI].
Qed.

(* ---- one step, every step ---- *)
Lemma inv_step_raw s st : Inv s -> Inv (step_raw true s st).
Proof.
  intro HI. destruct st as [t k|p|p|p body|p h|p ok|until|tm]; cbn [step_raw].
  - apply inv_do_call, HI.
  - destruct (sclosed s); [exact HI|]. apply inv_send_all, inv_upd_readyQ, inv_upd_pipes, HI.
  - apply inv_remove_pipe, HI.
  - destruct (get_pipe s p) as [pp|]; [|apply inv_emit, HI].
    destruct (pp_closed pp); [apply inv_emit, HI|apply inv_pipe_recv, HI].
  - destruct (get_pipe s p) as [pp|]; [apply inv_set_pipe, HI|exact HI].
  - destruct (get_pipe s p) as [pp|]; [|exact HI]. destruct (pp_inflight pp); [|exact HI].
    destruct ok.
    + destruct (sclosed _ || pp_closed pp); [apply inv_set_pipe, HI|apply inv_send_all, inv_upd_readyQ, inv_set_pipe, HI].
    + apply inv_remove_pipe, inv_set_pipe, HI.
  - apply inv_set_misc. apply inv_fire_due. apply inv_set_misc, HI.
  - apply inv_set_misc, HI.
Qed.

Lemma inv_clear_out s : Inv s -> Inv (clear_out s).
Proof. apply inv_view. reflexivity. Qed.

Lemma inv_step s st : Inv s -> Inv (fst (step true s st)).
Proof. intro HI. unfold step. cbn [fst]. apply inv_settle, inv_step_raw, inv_clear_out, HI. Qed.

Lemma inv_init : Inv init.
Proof.
  constructor; cbn.
  - intros c x i b H. destruct (c =? 0); inversion H; subst; cbn; discriminate.
  - intros id c H. discriminate.
  - intros c x H. destruct (c =? 0); inversion H; subst; cbn; auto.
  - exact I.
  - intros t c id e [].
  - constructor.
Qed.

Lemma inv_run : forall h s, Inv s -> Inv (fst (run_model (req_model true) s h)).
Proof.
  induction h as [|st h IH]; intros s HI; [exact HI|].
  cbn [run_model]. cbn [m_step req_model].
  destruct (step true s st) as [s' o] eqn:Es.
  specialize (IH s' ltac:(replace s' with (fst (step true s st)) by (rewrite Es; reflexivity); apply inv_step, HI)).
  destruct (run_model (req_model true) s' h) as [s'' os]. exact IH.
Qed.

(* For EVERY history of stimuli (any number of contexts, pipes, calls; replies with arbitrary bytes on arbitrary
   pipes in arbitrary order, duplicated, stale, foreign; pipe losses; timers; closes): every reply the repaired REQ
   ever handed out to a Recv call
     - had been matched under exactly the id that call was waiting for (i = id),
     - which was the id of the context's most recent accepted Send at that moment (id = lst), not "no request",
     - and its payload is that of a delivery matched under that id. *)
Theorem req_reply_current_all_histories : forall h,
  let s := fst (run_model (req_model true) init h) in
  Forall (fun e => let '(t, c, i, id, lst, b) := e in i = id /\ id = lst /\ id <> 0 /\ In (i, b) (dlog s)) (glog s).
Proof.
  intros h s. pose proof (inv_run h init inv_init) as [_ _ _ _ _ H6]. exact H6.
Qed.

(* the log entry and the observation are produced together: a Recv call returns a message iff it is logged *)
Lemma recv_finish_logs s t c id e b :
  In (ORet t (RMsg [] b)) (out (recv_finish true s t c id e)) -> ~ In (ORet t (RMsg [] b)) (out s) ->
  exists i lst, glog (recv_finish true s t c id e) = (t, c, i, id, lst, b) :: glog s.
Proof.
  unfold recv_finish. destruct (aget c (ctxs s)) as [x|] eqn:Ex; [|intros H Hn; contradiction].
  destruct (N.eqb_spec (c_reqID x) id) as [Heq|Hne]; cbn [andb negb].
  - destruct (c_repMsg x) as [[i m]|] eqn:Er; cbn; intros [H|H] Hn; try contradiction; try discriminate.
    inversion H; subst. eauto.
  - cbn. intros [H|H] Hn; [discriminate|contradiction].
Qed.
