(* Lemmas about the REP / RESPONDENT / XREP / XRESPONDENT model (Model/Rep.v) for property C05. *)
From MV Require Import Lib.Proto Model.Hops Model.Rep Model.RepOracle.
From Coq Require Import ZifyBool ZifyN ZifyNat.
Open Scope N_scope.

(* ---- association lists ---- *)
Lemma aget_aset_same {V} k (v : V) l : aget k (aset k v l) = Some v.
Proof.
  induction l as [|[k' v'] l IH]; cbn [aset aget].
  - rewrite N.eqb_refl. reflexivity.
  - destruct (N.eqb_spec k k'); cbn [aget].
    + rewrite N.eqb_refl. reflexivity.
    + destruct (N.eqb_spec k k'); [contradiction|exact IH].
Qed.

Lemma aget_aset_other {V} k k' (v : V) l : k <> k' -> aget k (aset k' v l) = aget k l.
Proof.
  intro H. induction l as [|[k2 v2] l IH]; cbn [aset aget].
  - destruct (N.eqb_spec k k'); [contradiction|reflexivity].
  - destruct (N.eqb_spec k' k2); cbn [aget].
    + subst. destruct (N.eqb_spec k k2); [contradiction|reflexivity].
    + destruct (N.eqb_spec k k2); [reflexivity|exact IH].
Qed.

Lemma aget_aset {V} k k' (v : V) l : aget k (aset k' v l) = if k =? k' then Some v else aget k l.
Proof.
  destruct (N.eqb_spec k k').
  - subst. apply aget_aset_same.
  - apply aget_aset_other. assumption.
Qed.

(* ---- pick ---- *)
Lemma pick_spec f l x r : pick f l = Some (x, r) ->
  f x = true /\ In x l /\ (forall y, In y r -> In y l) /\ (forall y, In y l -> y = x \/ In y r).
Proof.
  revert x r. induction l as [|th l IH]; intros x r H; cbn [pick] in H; [discriminate|].
  destruct (f th) eqn:E.
  - inversion H; subst. repeat split; cbn; auto. intros y [->|Hy]; auto.
  - destruct (pick f l) as [[x' r']|] eqn:P; [|discriminate]. inversion H; subst.
    destruct (IH _ _ eq_refl) as (H1 & H2 & H3 & H4). repeat split; auto.
    + right. exact H2.
    + intros y [->|Hy]; cbn; auto.
    + intros y [->|Hy]; [right; left; reflexivity|]. destruct (H4 y Hy); auto. right. right. assumption.
Qed.

(* ---- the messages on their way out through pipe p: its queue and the sends blocked on it ---- *)
Definition queued (s : rstate) (p : N) (m : msg) : Prop :=
  (exists pp, aget p (pipes s) = Some pp /\ In m (pp_q pp)) \/
  (exists t c, In (TSend t c p (fst m) (snd m)) (threads s)).

Definition pipe_closed (s : rstate) (p : N) : Prop := exists pp, aget p (pipes s) = Some pp /\ pp_closed pp = true.
Definition pipe_open (s : rstate) (p : N) : Prop := exists pp, aget p (pipes s) = Some pp /\ pp_closed pp = false.

(* what a function of the model may add to the observations: only ... *)
Definition new_obs (s s' : rstate) (o : obs) : Prop := In o (out s') /\ ~ In o (out s).

Ltac triv :=
  cbn; repeat split; auto; try congruence;
  try (let pp0 := fresh in let H := fresh in intros pp0 H; inversion H; subst; eauto; fail).

(* ---- admit_one ---- *)
Lemma admit_one_spec s p :
  let s' := admit_one s p in
  ctxs s' = ctxs s /\ recvQ s' = recvQ s /\ pend s' = pend s /\
  (forall q, q <> p -> aget q (pipes s') = aget q (pipes s)) /\
  (forall pp, aget p (pipes s) = Some pp -> exists pp', aget p (pipes s') = Some pp' /\ pp_closed pp' = pp_closed pp) /\
  (aget p (pipes s) = None -> aget p (pipes s') = None) /\
  (forall m, queued s' p m -> queued s p m) /\
  (forall th, In th (threads s') -> In th (threads s)) /\
  (forall o, In o (out s') -> In o (out s) \/ exists t, o = ORet t ROk).
Proof.
  unfold admit_one. destruct (aget p (pipes s)) as [pp|] eqn:Ep.
  2:{ triv. }
  destruct (can_accept pp).
  2:{ triv. }
  destruct (pick (send_on p) (threads s)) as [[th rest]|] eqn:Pk.
  2:{ triv. }
  destruct (pick_spec _ _ _ _ Pk) as (F & Hin & Hsub & Hall).
  destruct th as [t c|t c p0 h b].
  { triv. }
  cbn [send_on] in F. apply N.eqb_eq in F. subst p0.
  cbn -[aget aset]. repeat split; auto.
  - intros q Hq. apply aget_aset_other. exact Hq.
  - intros pp0 H. inversion H; subst. rewrite aget_aset_same. eexists. split; [reflexivity|reflexivity].
  - intro H. discriminate.
  - intros m [(pp' & H1 & H2)|(t' & c' & H2)].
    + cbn -[aget aset] in H1. rewrite aget_aset_same in H1. inversion H1; subst. cbn in H2. apply in_app_or in H2. destruct H2 as [H2|[H2|[]]].
      * left. eauto.
      * right. subst m. cbn. eauto.
    + right. exists t', c'. apply Hsub. exact H2.
  - intros o [<-|H]; eauto.
Qed.

(* ---- pump: everything it writes goes to pipe p, comes from p's queue or the sends blocked on p, and p is open ---- *)
Lemma pump_spec fuel : forall s p,
  let s' := pump fuel s p in
  ctxs s' = ctxs s /\ recvQ s' = recvQ s /\ pend s' = pend s /\
  (forall q, q <> p -> aget q (pipes s') = aget q (pipes s)) /\
  (forall pp, aget p (pipes s) = Some pp -> exists pp', aget p (pipes s') = Some pp' /\ pp_closed pp' = pp_closed pp) /\
  (aget p (pipes s) = None -> aget p (pipes s') = None) /\
  (forall m, queued s' p m -> queued s p m) /\
  (forall th, In th (threads s') -> In th (threads s)) /\
  (forall o, In o (out s') -> In o (out s) \/ (exists t, o = ORet t ROk) \/
                              (exists h b, o = OTx p h b /\ queued s p (h, b) /\ pipe_open s p)).
Proof.
  induction fuel as [|f IH]; intros s p; cbn [pump].
  { triv. }
  destruct (aget p (pipes s)) as [pp|] eqn:Ep.
  2:{ triv. }
  destruct (pp_closed pp) eqn:Ec.
  { triv. }
  pose proof (admit_one_spec s p) as A. cbn zeta in A.
  set (s1 := admit_one s p) in *.
  destruct A as (A1 & A2 & A3 & A4 & A5 & A6 & A7 & A8 & A9).
  destruct (A5 _ Ep) as (pp1 & Ep1 & Ec1). rewrite Ep1.
  assert (Base : ctxs s1 = ctxs s /\ recvQ s1 = recvQ s /\ pend s1 = pend s /\
    (forall q, q <> p -> aget q (pipes s1) = aget q (pipes s)) /\
    (forall pp0, aget p (pipes s) = Some pp0 -> exists pp', aget p (pipes s1) = Some pp' /\ pp_closed pp' = pp_closed pp0) /\
    (aget p (pipes s) = None -> aget p (pipes s1) = None) /\
    (forall m, queued s1 p m -> queued s p m) /\
    (forall th, In th (threads s1) -> In th (threads s)) /\
    (forall o, In o (out s1) -> In o (out s) \/ (exists t, o = ORet t ROk) \/
                                (exists h b, o = OTx p h b /\ queued s p (h, b) /\ pipe_open s p))).
  { repeat split; auto. intros o Ho. destruct (A9 o Ho); auto. }
  destruct (pp_busy pp1); [rewrite Ep in Base; exact Base|].
  destruct (pp_q pp1) as [|[h b] q'] eqn:Eq; [rewrite Ep in Base; exact Base|].
  set (s2 := emit (set_pipe s1 p (pipe_with pp1 false (pp_hold pp1) (pp_hold pp1) q')) (OTx p h b)).
  specialize (IH s2 p). cbn zeta in IH.
  destruct IH as (I1 & I2 & I3 & I4 & I5 & I6 & I7 & I8 & I9).
  assert (Ep2 : aget p (pipes s2) = Some (pipe_with pp1 false (pp_hold pp1) (pp_hold pp1) q')).
  { subst s2. cbn -[aget aset]. apply aget_aset_same. }
  assert (Q21 : forall m, queued s2 p m -> queued s1 p m).
  { intros m [(pp' & H1 & H2)|(t' & c' & H2)].
    - rewrite Ep2 in H1. inversion H1; subst. cbn in H2. left. exists pp1. split; [exact Ep1|]. rewrite Eq. right. exact H2.
    - right. exists t', c'. exact H2. }
  assert (Open : pipe_open s p). { exists pp. auto. }
  repeat split.
  - rewrite I1. exact A1.
  - rewrite I2. exact A2.
  - rewrite I3. exact A3.
  - intros q Hq. rewrite (I4 q Hq). subst s2. cbn -[aget aset]. rewrite aget_aset_other by exact Hq. apply A4. exact Hq.
  - intros pp0 H0. inversion H0; subst pp0. destruct (I5 _ Ep2) as (pp' & H1 & H2).
    exists pp'. split; [exact H1|]. rewrite H2. cbn. symmetry. exact Ec.
  - intro H. congruence.
  - intros m Hm. apply A7, Q21, I7. exact Hm.
  - intros th Hth. apply A8. apply I8 in Hth. exact Hth.
  - intros o Ho. destruct (I9 o Ho) as [H|[H|(h' & b' & -> & Hq & _)]].
    + subst s2. cbn in H. destruct H as [<-|H].
      * right. right. exists h, b. split; [reflexivity|]. split; [|exact Open].
        apply A7. left. exists pp1. split; [exact Ep1|]. rewrite Eq. left. reflexivity.
      * destruct (A9 o H); auto.
    + auto.
    + right. right. exists h', b'. split; [reflexivity|]. split; [|exact Open]. apply A7, Q21. exact Hq.
Qed.

(* ---- what a state carries: (pipe, header) pairs held by contexts, waiting to be received, on their way out, written ---- *)
Definition Hs (s : rstate) (p : N) (h : bytes) : Prop :=
  exists c x, aget c (ctxs s) = Some x /\ c_recvPipe x = Some p /\ c_bt x = Some h.
Definition Is (s : rstate) (p : N) (h : bytes) : Prop := exists b, In (p, (h, b)) (recvQ s) \/ In (p, (h, b)) (pend s).
Definition Qs (s : rstate) (p : N) (h : bytes) : Prop := exists b, queued s p (h, b).
Definition Ts (s : rstate) (p : N) (h : bytes) : Prop := exists b, In (OTx p h b) (out s).

Definition not_tx (o : obs) : Prop := match o with OTx _ _ _ => False | _ => True end.

(* s' arises from s by internal moves only: nothing new is carried, messages are written only from what was on
   its way out and only to open pipes, closed pipes stay closed, no pipe appears *)
Record inner (s s' : rstate) : Prop := {
  in_H : forall p h, Hs s' p h -> Hs s p h;
  in_I : forall p h, Is s' p h -> Is s p h;
  in_Q : forall p h, Qs s' p h -> Qs s p h;
  in_T : forall p h, Ts s' p h -> Ts s p h \/ Qs s p h;
  in_C : forall q, pipe_closed s q -> pipe_closed s' q;
  in_N : forall q, aget q (pipes s) = None -> aget q (pipes s') = None;
  in_O : forall q h b, In (OTx q h b) (out s') -> In (OTx q h b) (out s) \/ pipe_open s q;
}.

Lemma inner_refl s : inner s s.
Proof. constructor; auto. Qed.

Lemma open_back s s' q : inner s s' -> pipe_open s' q -> pipe_open s q.
Proof.
  intros I (pp' & E' & C'). destruct (aget q (pipes s)) as [pp|] eqn:E.
  - destruct (pp_closed pp) eqn:C.
    + destruct (in_C _ _ I q) as (pp2 & E2 & C2); [exists pp; auto|]. congruence.
    + exists pp. auto.
  - rewrite (in_N _ _ I q E) in E'. discriminate.
Qed.

Lemma inner_trans s1 s2 s3 : inner s1 s2 -> inner s2 s3 -> inner s1 s3.
Proof.
  intros A B. constructor.
  - intros p h H. apply (in_H _ _ A), (in_H _ _ B), H.
  - intros p h H. apply (in_I _ _ A), (in_I _ _ B), H.
  - intros p h H. apply (in_Q _ _ A), (in_Q _ _ B), H.
  - intros p h H. destruct (in_T _ _ B p h H) as [H1|H1].
    + apply (in_T _ _ A), H1.
    + right. apply (in_Q _ _ A), H1.
  - intros q H. apply (in_C _ _ B), (in_C _ _ A), H.
  - intros q H. apply (in_N _ _ B), (in_N _ _ A), H.
  - intros q h b H. destruct (in_O _ _ B q h b H) as [H1|H1].
    + apply (in_O _ _ A), H1.
    + right. eapply open_back; eauto.
Qed.

(* same contexts, queues and pipes; threads only disappear; only returns and the like are observed *)
Lemma inner_eq s s' :
  ctxs s' = ctxs s -> recvQ s' = recvQ s -> pend s' = pend s -> pipes s' = pipes s ->
  (forall t c p h b, In (TSend t c p h b) (threads s') -> In (TSend t c p h b) (threads s)) ->
  (forall o, In o (out s') -> In o (out s) \/ not_tx o) ->
  inner s s'.
Proof.
  intros E1 E2 E3 E4 Ht Ho. constructor.
  - intros p h (c & x & H). exists c, x. rewrite <- E1. exact H.
  - intros p h (b & H). exists b. rewrite <- E2, <- E3. exact H.
  - intros p h (b & [(pp & H1 & H2)|(t & c & H)]); exists b.
    + left. exists pp. rewrite <- E4. auto.
    + right. exists t, c. apply Ht. exact H.
  - intros p h (b & H). destruct (Ho _ H) as [H1|[]]. left. exists b. exact H1.
  - intros q (pp & H1 & H2). exists pp. rewrite E4. auto.
  - intros q H. rewrite E4. exact H.
  - intros q h b H. destruct (Ho _ H) as [H1|[]]. left. exact H1.
Qed.

Lemma inner_emit s o : not_tx o -> inner s (emit s o).
Proof. intro H. apply inner_eq; auto. intros o' [<-|H']; auto. Qed.
Lemma inner_amb s b : inner s (amb s b).
Proof. apply inner_eq; auto. Qed.
Lemma inner_sclosed s b : inner s (upd_sclosed s b).
Proof. apply inner_eq; auto. Qed.
Lemma inner_opts s a b c : inner s (upd_opts s a b c).
Proof. apply inner_eq; auto. Qed.
Lemma inner_threads s l : (forall t c p h b, In (TSend t c p h b) l -> In (TSend t c p h b) (threads s)) -> inner s (upd_threads s l).
Proof. intro H. apply inner_eq; auto. Qed.

(* folds that only report returns *)
Lemma fold_emit_ret (f : thread -> bool) (r : thread -> ret) l : forall s,
  let s' := fold_left (fun s th => if f th then emit s (ORet (th_id th) (r th)) else s) l s in
  ctxs s' = ctxs s /\ recvQ s' = recvQ s /\ pend s' = pend s /\ pipes s' = pipes s /\ threads s' = threads s /\
  (forall o, In o (out s') -> In o (out s) \/ not_tx o).
Proof.
  induction l as [|th l IH]; intro s; cbn [fold_left].
  - cbn. repeat split; auto.
  - specialize (IH (if f th then emit s (ORet (th_id th) (r th)) else s)). cbn zeta in IH.
    destruct IH as (A & B & C & D & E & F). destruct (f th); cbn in *; repeat split; auto.
    intros o Ho. destruct (F o Ho) as [[<-|H]|H]; cbn; auto.
Qed.

Lemma filter_tsend (f : thread -> bool) l th : In th (filter f l) -> In th l.
Proof. intro H. apply filter_In in H. tauto. Qed.

Lemma inner_finish_closed_sends k s p : inner s (finish_closed_sends k s p).
Proof.
  unfold finish_closed_sends.
  pose proof (fold_emit_ret (send_on p) (fun _ => closed_ret k) (threads s)
                (upd_threads s (filter (fun th => negb (send_on p th)) (threads s)))) as H.
  cbn zeta in H. destruct H as (A & B & C & D & E & F).
  apply inner_eq; auto.
  intros t c q h b H. rewrite E in H. cbn in H. eapply filter_tsend; eauto.
Qed.

Lemma inner_finish_ctx_threads s c : inner s (finish_ctx_threads s c).
Proof.
  unfold finish_ctx_threads.
  pose proof (fold_emit_ret (fun th => th_ctx th =? c) (fun _ => RErr EClosed) (threads s)
                (upd_threads s (filter (fun th => negb (th_ctx th =? c)) (threads s)))) as H.
  cbn zeta in H. destruct H as (A & B & C & D & E & F).
  apply inner_eq; auto.
  intros t c' q h b H. rewrite E in H. cbn in H. eapply filter_tsend; eauto.
Qed.

Lemma inner_set_pipe s p pp pp' :
  aget p (pipes s) = Some pp -> (forall m, In m (pp_q pp') -> In m (pp_q pp)) ->
  (pp_closed pp = true -> pp_closed pp' = true) -> inner s (set_pipe s p pp').
Proof.
  intros E Hq Hc. constructor; cbn -[aget aset]; auto.
  - intros q h (b & [(pq & H1 & H2)|(t & c & H)]); exists b.
    + cbn -[aget aset] in H1. rewrite aget_aset in H1. destruct (N.eqb_spec q p).
      * subst q. inversion H1; subst pq. left. exists pp. auto.
      * left. exists pq. auto.
    + right. exists t, c. exact H.
  - intros q (pq & H1 & H2). unfold pipe_closed. cbn -[aget aset]. rewrite aget_aset. destruct (N.eqb_spec q p).
    + subst q. rewrite E in H1. inversion H1; subst pq. exists pp'. auto.
    + exists pq. auto.
  - intros q H. rewrite aget_aset. destruct (N.eqb_spec q p); [subst q; congruence|exact H].
Qed.

Lemma inner_set_ctx s c x' :
  (forall p h, c_recvPipe x' = Some p -> c_bt x' = Some h -> Hs s p h) -> inner s (set_ctx s c x').
Proof.
  intro Hx. constructor; cbn -[aget aset]; auto.
  - intros p h (c' & y & H1 & H2 & H3). cbn -[aget aset] in H1. rewrite aget_aset in H1. destruct (N.eqb_spec c' c).
    + inversion H1; subst y. apply Hx; assumption.
    + exists c', y. auto.
Qed.

Lemma inner_queues s rq pq :
  (forall e, In e rq -> In e (recvQ s) \/ In e (pend s)) -> (forall e, In e pq -> In e (recvQ s) \/ In e (pend s)) ->
  inner s (upd_pend (upd_recvQ s rq) pq).
Proof.
  intros Hr Hp. constructor; cbn; auto.
  - intros p h (b & [H|H]); cbn in H; exists b; [apply Hr in H|apply Hp in H]; tauto.
Qed.

Lemma upd_pend_recvQ_id s : upd_pend (upd_recvQ s (recvQ s)) (pend s) = s.
Proof. destruct s; reflexivity. Qed.

Lemma inner_upd_recvQ s rq : (forall e, In e rq -> In e (recvQ s) \/ In e (pend s)) -> inner s (upd_recvQ s rq).
Proof.
  intro H. replace (upd_recvQ s rq) with (upd_pend (upd_recvQ s rq) (pend s)) by (destruct s; reflexivity).
  apply inner_queues; auto.
Qed.
Lemma inner_upd_pend s pq : (forall e, In e pq -> In e (recvQ s) \/ In e (pend s)) -> inner s (upd_pend s pq).
Proof.
  intro H. replace (upd_pend s pq) with (upd_pend (upd_recvQ s (recvQ s)) pq) by (destruct s; reflexivity).
  apply inner_queues; auto.
Qed.

Lemma inner_pump fuel s p : inner s (pump fuel s p).
Proof.
  pose proof (pump_spec fuel s p) as H. cbn zeta in H. destruct H as (A1 & A2 & A3 & A4 & A5 & A6 & A7 & A8 & A9).
  constructor.
  - intros q h (c & x & H). exists c, x. rewrite <- A1. exact H.
  - intros q h (b & H). exists b. rewrite <- A2, <- A3. exact H.
  - intros q h (b & H). exists b. destruct (N.eq_dec q p) as [->|Hn]; [apply A7; exact H|].
    destruct H as [(pp & H1 & H2)|(t & c & H)].
    + left. exists pp. rewrite <- (A4 q Hn). auto.
    + right. exists t, c. apply A8. exact H.
  - intros q h (b & H). destruct (A9 _ H) as [H1|[(t & H1)|(h' & b' & H1 & H2 & _)]].
    + left. exists b. exact H1.
    + discriminate.
    + inversion H1; subst. right. exists b'. exact H2.
  - intros q (pp & H1 & H2). destruct (N.eq_dec q p) as [->|Hn].
    + destruct (A5 _ H1) as (pp' & H3 & H4). exists pp'. split; [exact H3|congruence].
    + exists pp. rewrite (A4 q Hn). auto.
  - intros q H. destruct (N.eq_dec q p) as [->|Hn]; [apply A6; exact H|]. rewrite (A4 q Hn). exact H.
  - intros q h b H. destruct (A9 _ H) as [H1|[(t & H1)|(h' & b' & H1 & _ & H3)]].
    + left. exact H1.
    + discriminate.
    + inversion H1; subst. right. exact H3.
Qed.

Lemma inner_pump_all s p : inner s (pump_all s p).
Proof. apply inner_pump. Qed.

Lemma adrop_in {V} k (l : list (N * V)) e : In e (adrop k l) -> In e l.
Proof. unfold adrop. intro H. apply filter_In in H. tauto. Qed.

Lemma inner_remove_pipe k s p : inner s (remove_pipe k s p).
Proof.
  unfold remove_pipe. destruct (aget p (pipes s)) as [pp|] eqn:E; [|apply inner_refl].
  destruct (pp_closed pp) eqn:C; [apply inner_refl|].
  eapply inner_trans; [|apply inner_finish_closed_sends].
  apply inner_trans with (s2 := set_pipe s p (pipe_with pp true (pp_hold pp) false [])).
  - apply (inner_set_pipe s p pp); [exact E| |]; cbn; auto. intros m [].
  - destruct (is_respondent k); [apply inner_refl|]. apply inner_upd_pend.
    intros e H. right. cbn in H. eapply adrop_in; eauto.
Qed.

Lemma inner_close_by_proto k s p : inner s (close_by_proto k s p).
Proof.
  unfold close_by_proto. destruct (aget p (pipes s)) as [pp|]; [|apply inner_refl].
  destruct (pp_closed pp); [apply inner_refl|].
  eapply inner_trans; [apply (inner_emit s (OPipeClose p)); exact I|apply inner_remove_pipe].
Qed.

Lemma inner_close_ctx s c : inner s (close_ctx s c).
Proof.
  unfold close_ctx. destruct (aget c (ctxs s)) as [x|] eqn:E; [|apply inner_refl].
  destruct (c_closed x); [apply inner_refl|].
  eapply inner_trans; [|apply inner_finish_ctx_threads].
  apply inner_set_ctx. cbn. intros p h H1 H2. exists c, x. auto.
Qed.

Lemma inner_fold {A} (f : rstate -> A -> rstate) (l : list A) :
  (forall s a, inner s (f s a)) -> forall s, inner s (fold_left f l s).
Proof.
  intro Hf. induction l as [|a l IH]; intro s; cbn [fold_left]; [apply inner_refl|].
  eapply inner_trans; [apply Hf|apply IH].
Qed.

Lemma inner_close_sock k s t : inner s (close_sock k s t).
Proof.
  unfold close_sock. destruct (sclosed s); [apply inner_emit; exact I|].
  eapply inner_trans; [|apply inner_emit; exact I].
  eapply inner_trans; [apply (inner_sclosed s true)|].
  destruct (is_raw k).
  - pose proof (fold_emit_ret is_recv (fun _ => RErr EClosed) (threads (upd_sclosed s true))
                  (upd_threads (upd_sclosed s true) (filter (fun th => negb (is_recv th)) (threads (upd_sclosed s true))))) as H.
    cbn zeta in H. destruct H as (A & B & C & D & E & F).
    apply inner_eq; auto.
    intros t' c q h b H. rewrite E in H. cbn in H. eapply filter_tsend; eauto.
  - eapply inner_trans; [apply (inner_fold (fun s (cx : N * rctx) => close_ctx s (fst cx))); intros; apply inner_close_ctx|].
    destruct (is_respondent k); [|apply inner_refl].
    eapply inner_trans; [apply (inner_fold (fun s (e : N * msg) => close_by_proto k s (fst e))); intros; apply inner_close_by_proto|].
    apply inner_upd_pend. intros e [].
Qed.

Lemma firstn_in {A} n (l : list A) x : In x (firstn n l) -> In x l.
Proof. revert l; induction n; intros [|y l] H; cbn in *; try tauto. destruct H; auto. Qed.
Lemma skipn_in {A} n (l : list A) x : In x (skipn n l) -> In x l.
Proof. revert l; induction n; intros [|y l] H; cbn in *; try tauto. auto. Qed.

Lemma inner_set_opt k s t c o v : inner s (set_opt k s t c o v).
Proof.
  unfold set_opt. destruct (aget c (ctxs s)) as [x|] eqn:E; [|apply inner_emit; exact I].
  assert (K : forall b se re, inner s (emit (set_ctx s c (with_opts x b se re)) (ORet t ROk))).
  { intros. eapply inner_trans; [|apply inner_emit; exact I]. apply inner_set_ctx. cbn. intros p h H1 H2. exists c, x. auto. }
  assert (B : forall e, inner s (emit s (ORet t (RErr e)))) by (intro; apply inner_emit; exact I).
  assert (O : forall a b d, inner s (emit (upd_opts s a b d) (ORet t ROk))).
  { intros. eapply inner_trans; [apply inner_opts|apply inner_emit; exact I]. }
  destruct o; auto.
  - destruct (is_raw k || (0 <? v)%Z); auto.
  - destruct (is_raw k || (0 <? v)%Z); auto.
  - destruct (negb (c =? 0) || is_rep k); auto. destruct (0 <=? v)%Z; auto.
    set (s1 := upd_recvQ (upd_opts s (z2n v) (wqlen s) (ttl s)) []).
    assert (I1 : inner s s1).
    { eapply inner_trans; [apply inner_opts|]. apply inner_upd_recvQ. intros e []. }
    destruct (is_raw k).
    + eapply inner_trans; [exact I1|]. eapply inner_trans; [|apply inner_emit; exact I]. apply inner_upd_pend. intros e [].
    + eapply inner_trans; [exact I1|]. eapply inner_trans; [|apply inner_emit; exact I].
      set (g := fun (s : rstate) (th : thread) => match th with
                                          | TRecv _ c' => match aget c' (ctxs s) with
                                                          | Some y => set_ctx s c' (with_req y (c_recvWait y) None None)
                                                          | None => s end
                                          | _ => s end).
      assert (F : forall l s0, inner s0 (fold_left g l s0) /\ pend (fold_left g l s0) = pend s0 /\ recvQ (fold_left g l s0) = recvQ s0).
      { induction l as [|th l IH]; intro s0; cbn [fold_left]; [split; [apply inner_refl|auto]|].
        specialize (IH (g s0 th)).
        assert (J : inner s0 (g s0 th) /\ pend (g s0 th) = pend s0 /\ recvQ (g s0 th) = recvQ s0).
        { unfold g. destruct th; [|split; [apply inner_refl|auto]]. destruct (aget c0 (ctxs s0)); [|split; [apply inner_refl|auto]].
          split; [|auto]. apply inner_set_ctx. cbn. discriminate. }
        destruct IH as (A1 & A2 & A3), J as (J1 & J2 & J3).
        split; [eapply inner_trans; eauto|]. split; congruence. }
      destruct (F (threads s1) s1) as (F1 & F2 & F3).
      set (s2' := fold_left g (threads s1) s1) in *.
      assert (I2 : inner s1 (amb s2' match pend s2' with _ :: _ :: _ => true | _ => false end)).
      { eapply inner_trans; [exact F1|apply inner_amb]. }
      eapply inner_trans; [exact I2|]. apply inner_queues.
      * intros e H. right. eapply firstn_in; eauto.
      * intros e H. right. eapply skipn_in; eauto.
  - destruct (negb (c =? 0)); auto. destruct (0 <=? v)%Z; auto.
  - destruct (negb (c =? 0)); auto. destruct (ttl_accepts v); auto.
Qed.

(* ---- steps that bring something in from outside: X = the (pipe, header) pairs the stimulus justifies ---- *)
Definition carried (s : rstate) (p : N) (h : bytes) : Prop := Hs s p h \/ Is s p h \/ Qs s p h \/ Ts s p h.
Definition outgoing (s : rstate) (p : N) (h : bytes) : Prop := Qs s p h \/ Ts s p h.

Record moved (X : N -> bytes -> Prop) (raw : bool) (s s' : rstate) : Prop := {
  mv_car : raw = false -> forall p h, carried s' p h -> carried s p h \/ X p h;
  mv_out : raw = true -> forall p h, outgoing s' p h -> outgoing s p h \/ X p h;
  mv_C : forall q, pipe_closed s q -> pipe_closed s' q;
  mv_N : forall q, aget q (pipes s) = None -> aget q (pipes s') = None;
  mv_O : forall q h b, In (OTx q h b) (out s') -> In (OTx q h b) (out s) \/ pipe_open s q;
}.

Lemma inner_moved X raw s s' : inner s s' -> moved X raw s s'.
Proof.
  intro I. constructor.
  - intros _ p h [H|[H|[H|H]]]; left.
    + left. apply (in_H _ _ I), H.
    + right. left. apply (in_I _ _ I), H.
    + right. right. left. apply (in_Q _ _ I), H.
    + destruct (in_T _ _ I p h H); [right; right; right|right; right; left]; assumption.
  - intros _ p h [H|H]; left.
    + left. apply (in_Q _ _ I), H.
    + destruct (in_T _ _ I p h H); [right|left]; assumption.
  - apply (in_C _ _ I).
  - apply (in_N _ _ I).
  - apply (in_O _ _ I).
Qed.

Lemma moved_open_back X raw s s' q : moved X raw s s' -> pipe_open s' q -> pipe_open s q.
Proof.
  intros I (pp' & E' & C'). destruct (aget q (pipes s)) as [pp|] eqn:E.
  - destruct (pp_closed pp) eqn:C.
    + destruct (mv_C _ _ _ _ I q) as (pp2 & E2 & C2); [exists pp; auto|]. congruence.
    + exists pp. auto.
  - rewrite (mv_N _ _ _ _ I q E) in E'. discriminate.
Qed.

Lemma moved_trans X raw s1 s2 s3 : moved X raw s1 s2 -> moved X raw s2 s3 -> moved X raw s1 s3.
Proof.
  intros A B. constructor.
  - intros R p h H. destruct (mv_car _ _ _ _ B R p h H) as [H1|H1]; [|auto]. apply (mv_car _ _ _ _ A R), H1.
  - intros R p h H. destruct (mv_out _ _ _ _ B R p h H) as [H1|H1]; [|auto]. apply (mv_out _ _ _ _ A R), H1.
  - intros q H. apply (mv_C _ _ _ _ B), (mv_C _ _ _ _ A), H.
  - intros q H. apply (mv_N _ _ _ _ B), (mv_N _ _ _ _ A), H.
  - intros q h b H. destruct (mv_O _ _ _ _ B q h b H) as [H1|H1].
    + apply (mv_O _ _ _ _ A), H1.
    + right. eapply moved_open_back; eauto.
Qed.

Lemma moved_inner_l X raw s1 s2 s3 : inner s1 s2 -> moved X raw s2 s3 -> moved X raw s1 s3.
Proof. intros A B. eapply moved_trans; [apply inner_moved; exact A|exact B]. Qed.
Lemma moved_inner_r X raw s1 s2 s3 : moved X raw s1 s2 -> inner s2 s3 -> moved X raw s1 s3.
Proof. intros A B. eapply moved_trans; [exact A|apply inner_moved; exact B]. Qed.

(* taking the next request: the entry was waiting, the rest only shrinks *)
Lemma take_entry_spec s e s' : take_entry s = Some (e, s') ->
  inner s s' /\ (In e (recvQ s) \/ In e (pend s)).
Proof.
  unfold take_entry. destruct (recvQ s) as [|e0 q] eqn:Eq; destruct (pend s) as [|e1 pr] eqn:Ep; intro H; inversion H; subst; clear H.
  - split; [|right; left; reflexivity].
    eapply inner_trans; [|apply inner_amb]. apply inner_upd_pend. intros e9 H. right. rewrite Ep. right. exact H.
  - split; [|left; left; reflexivity]. apply inner_upd_recvQ. intros e9 H. left. rewrite Eq. right. exact H.
  - split; [|left; left; reflexivity].
    eapply inner_trans; [|apply inner_amb].
    apply inner_queues.
    + intros e9 H. apply in_app_or in H. destruct H as [H|[<-|[]]]; [left; rewrite Eq; right; exact H|right; rewrite Ep; left; reflexivity].
    + intros e9 H. right. rewrite Ep. right. exact H.
Qed.

(* a Recv gets entry (p, (h, b)): the context now holds (p, h) *)
Lemma moved_recv_finish (X : N -> bytes -> Prop) k s t c p h b :
  (is_raw k = false -> carried s p h \/ X p h) -> moved X (is_raw k) s (recv_finish k s t c (p, (h, b))).
Proof.
  intro Hc. unfold recv_finish. destruct (is_raw k) eqn:R; [apply inner_moved, inner_emit; exact I|].
  destruct (aget c (ctxs s)) as [x|] eqn:E; [|apply inner_moved, inner_refl].
  eapply moved_inner_r; [|apply inner_emit; exact I].
  constructor; cbn -[aget aset]; auto; try discriminate.
  intros _ q g [H|[H|[H|H]]]; [|left; right; left; exact H|left; right; right; left; exact H|left; right; right; right; exact H].
  destruct H as (c' & y & H1 & H2 & H3). cbn -[aget aset] in H1. rewrite aget_aset in H1. destruct (N.eqb_spec c' c).
  - inversion H1; subst y. cbn in H2, H3. inversion H2; inversion H3; subst. apply Hc. reflexivity.
  - left. left. exists c', y. auto.
Qed.

Lemma pick_recv_spec l th r : pick is_recv l = Some (th, r) ->
  (exists t c, th = TRecv t c) /\ (forall t c p h b, In (TSend t c p h b) r -> In (TSend t c p h b) l).
Proof.
  intro H. destruct (pick_spec _ _ _ _ H) as (F & _ & S & _). split.
  - destruct th; [eauto|discriminate].
  - intros. apply S. assumption.
Qed.

(* the receiver goroutine hands over a request (h, b) that arrived on p *)
Lemma moved_place (X : N -> bytes -> Prop) k s p h b : (is_raw k = false -> X p h) -> moved X (is_raw k) s (place k s p h b).
Proof.
  intro Hx. unfold place. destruct (pick is_recv (threads s)) as [[th rest]|] eqn:Pk.
  - destruct (pick_recv_spec _ _ _ Pk) as ((t & c & ->) & S).
    eapply moved_inner_l; [|apply moved_recv_finish; auto].
    eapply inner_trans; [apply inner_threads; exact S|apply inner_amb].
  - assert (K : moved X (is_raw k) s
                  (if is_respondent k && sclosed s then close_by_proto k (amb s (nlen (recvQ s) <? rqlen s)) p
                   else if nlen (recvQ s) <? rqlen s then upd_recvQ s (recvQ s ++ [(p, (h, b))])
                        else upd_pend s (pend s ++ [(p, (h, b))]))).
    { destruct (is_respondent k && sclosed s).
      - apply inner_moved. eapply inner_trans; [apply inner_amb|apply inner_close_by_proto].
      - destruct (nlen (recvQ s) <? rqlen s).
        + constructor; cbn; auto; try (intros _ q g H; left; exact H).
          intros R q g [H|[H|[H|H]]]; [left; left; exact H| |left; right; right; left; exact H|left; right; right; right; exact H].
          destruct H as (b' & [H|H]); cbn in H.
          * apply in_app_or in H. destruct H as [H|[H|[]]]; [left; right; left; exists b'; left; exact H|].
            inversion H; subst. right. apply Hx, R.
          * left. right. left. exists b'. right. exact H.
        + constructor; cbn; auto; try (intros _ q g H; left; exact H).
          intros R q g [H|[H|[H|H]]]; [left; left; exact H| |left; right; right; left; exact H|left; right; right; right; exact H].
          destruct H as (b' & [H|H]); cbn in H.
          * left. right. left. exists b'. left. exact H.
          * apply in_app_or in H. destruct H as [H|[H|[]]]; [left; right; left; exists b'; right; exact H|].
            inversion H; subst. right. apply Hx, R. }
    exact K.
Qed.

Lemma moved_absorb (X Y : N -> bytes -> Prop) raw s0 s s' :
  moved X raw s0 s -> moved Y raw s s' ->
  (raw = false -> forall q g, Y q g -> carried s0 q g \/ X q g) ->
  (raw = true -> forall q g, Y q g -> outgoing s0 q g \/ X q g) ->
  moved X raw s0 s'.
Proof.
  intros A B H1 H2. constructor.
  - intros R p h H. destruct (mv_car _ _ _ _ B R p h H) as [H3|H3]; [apply (mv_car _ _ _ _ A R), H3|apply (H1 R), H3].
  - intros R p h H. destruct (mv_out _ _ _ _ B R p h H) as [H3|H3]; [apply (mv_out _ _ _ _ A R), H3|apply (H2 R), H3].
  - intros q H. apply (mv_C _ _ _ _ B), (mv_C _ _ _ _ A), H.
  - intros q H. apply (mv_N _ _ _ _ B), (mv_N _ _ _ _ A), H.
  - intros q h b H. destruct (mv_O _ _ _ _ B q h b H) as [H3|H3].
    + apply (mv_O _ _ _ _ A), H3.
    + right. eapply moved_open_back; eauto.
Qed.

Lemma moved_deliver (X : N -> bytes -> Prop) k s p body :
  (forall h b, rx_model (rx_of k) (ttl s) (pipe_id p) body = Some (Deliver h b) -> is_raw k = false -> X p h) ->
  moved X (is_raw k) s (do_deliver k s p body).
Proof.
  intro Hx. unfold do_deliver. destruct (aget p (pipes s)) as [pp|]; [|apply inner_moved, inner_emit; exact I].
  destruct (pp_closed pp || has_pend s p); [apply inner_moved, inner_emit; exact I|].
  destruct (rx_model (rx_of k) (ttl s) (pipe_id p) body) as [[h b|]|] eqn:E; try (apply inner_moved, inner_refl).
  apply moved_place. intro R. eapply Hx; eauto.
Qed.

(* the select of SendMsg: the only new thing on its way out is (p, hdr) *)
Lemma moved_pipe_send raw k s t c p hdr body best :
  moved (fun q g => q = p /\ g = hdr) raw s (pipe_send k s t c p hdr body best).
Proof.
  unfold pipe_send. destruct (aget p (pipes s)) as [pp|] eqn:E; [|apply inner_moved, inner_amb].
  destruct (pp_closed pp); [apply inner_moved, inner_emit; exact I|].
  destruct best; [apply inner_moved; eapply inner_trans; [apply inner_amb|apply inner_emit; exact I]|].
  eapply moved_inner_r; [|apply inner_pump_all].
  assert (Q : forall q g, Qs (upd_threads s (threads s ++ [TSend t c p hdr body])) q g -> Qs s q g \/ (q = p /\ g = hdr)).
  { intros q g (b & [(pq & H1 & H2)|(t' & c' & H)]).
    - left. exists b. left. exists pq. auto.
    - cbn in H. apply in_app_or in H. destruct H as [H|[H|[]]].
      + left. exists b. right. exists t', c'. exact H.
      + inversion H; subst. right. auto. }
  constructor; cbn; auto.
  - intros _ q g [H|[H|[H|H]]]; [left; left; exact H|left; right; left; exact H| |left; right; right; right; exact H].
    destruct (Q q g H); [left; right; right; left|right]; assumption.
  - intros _ q g [H|H]; [|left; right; exact H]. destruct (Q q g H); [left; left|right]; assumption.
Qed.

Lemma raw_lookup_spec s hdr p rest : raw_lookup s hdr = Some (p, rest) ->
  exists w, hdr = w ++ rest /\ length w = 4%nat /\ be_dec w = pipe_id p /\ pipe_open s p.
Proof.
  unfold raw_lookup. destruct hdr as [|a [|b [|c [|d r]]]]; try discriminate.
  destruct (N.ltb_spec (be_dec [a; b; c; d]) 1000); [discriminate|].
  destruct (aget (be_dec [a; b; c; d] - 1000) (pipes s)) as [pp|] eqn:E; [|discriminate].
  destruct (pp_closed pp) eqn:C; [discriminate|]. intro H0. inversion H0; subst.
  exists [a; b; c; d]. repeat split; auto.
  - unfold pipe_id. lia.
  - exists pp. auto.
Qed.

Lemma moved_do_send (X : N -> bytes -> Prop) k s t c hdr body :
  (forall p rest, is_raw k = true -> raw_lookup s hdr = Some (p, rest) -> X p rest) ->
  moved X (is_raw k) s (do_send k s t c hdr body).
Proof.
  intro Hx. unfold do_send. destruct (aget c (ctxs s)) as [x|] eqn:E; [|apply inner_moved, inner_emit; exact I].
  destruct (is_raw k) eqn:R.
  - destruct (sclosed s); [apply inner_moved, inner_emit; exact I|].
    destruct (raw_lookup s hdr) as [[p rest]|] eqn:L; [|apply inner_moved, inner_emit; exact I].
    eapply moved_absorb; [apply inner_moved, inner_refl|apply moved_pipe_send|discriminate|].
    intros _ q g (-> & ->). right. apply Hx; auto.
  - destruct (sclosed s || c_closed x); [apply inner_moved, inner_emit; exact I|].
    destruct (c_bt x) as [bt|] eqn:B; [|apply inner_moved, inner_emit; exact I].
    destruct (c_recvPipe x) as [p|] eqn:P.
    + eapply moved_absorb. 2: apply moved_pipe_send.
      * apply inner_moved, inner_set_ctx; cbn; discriminate.
      * intros _ q g (-> & ->). left. left. exists c, x. auto.
      * discriminate.
    + apply inner_moved. eapply inner_trans; [|apply inner_amb]. apply inner_set_ctx; cbn; discriminate.
Qed.

Lemma inner_add_recv s t c : inner s (upd_threads s (threads s ++ [TRecv t c])).
Proof.
  apply inner_threads. intros t' c' p h b H. apply in_app_or in H. destruct H as [H|[H|[]]]; [exact H|discriminate].
Qed.

Lemma moved_do_recv (X : N -> bytes -> Prop) k s t c : moved X (is_raw k) s (do_recv k s t c).
Proof.
  unfold do_recv. destruct (aget c (ctxs s)) as [x|] eqn:E; [|apply inner_moved, inner_emit; exact I].
  destruct (is_raw k) eqn:R.
  - apply inner_moved. destruct (sclosed s).
    + eapply inner_trans; [apply inner_amb|apply inner_emit; exact I].
    + destruct (take_entry s) as [[[p [h b]] s']|] eqn:T.
      * destruct (take_entry_spec _ _ _ T) as (I1 & _). eapply inner_trans; [exact I1|].
        unfold recv_finish. rewrite R. apply inner_emit. exact I.
      * apply inner_add_recv.
  - destruct (c_closed x); [apply inner_moved, inner_emit; exact I|].
    destruct (is_rep k && c_recvWait x); [apply inner_moved, inner_emit; exact I|].
    set (x' := if is_rep k then with_req x true (c_recvPipe x) (c_bt x) else with_req x false None None).
    assert (I0 : inner s (set_ctx s c x')).
    { apply inner_set_ctx. subst x'. destruct (is_rep k); cbn; [|discriminate]. intros p h H1 H2. exists c, x. auto. }
    destruct (take_entry (set_ctx s c x')) as [[[p [h b]] s']|] eqn:T.
    + destruct (take_entry_spec _ _ _ T) as (I1 & Hin).
      eapply moved_absorb with (Y := fun q g => q = p /\ g = h);
        [apply inner_moved; eapply inner_trans; [exact I0|exact I1]| | |discriminate].
      * rewrite <- R. apply moved_recv_finish. intros _. right. auto.
      * intros _ q g (-> & ->). left. right. left. apply (in_I _ _ I0). exists b. exact Hin.
    + apply inner_moved. eapply inner_trans; [exact I0|apply inner_add_recv].
Qed.

Lemma moved_do_call (X : N -> bytes -> Prop) k s t cl :
  (forall c hdr body p rest, cl = CSend c hdr body -> is_raw k = true -> raw_lookup s hdr = Some (p, rest) -> X p rest) ->
  moved X (is_raw k) s (do_call k s t cl).
Proof.
  intro Hx. destruct cl; cbn [do_call].
  - apply moved_do_send. intros. eapply Hx; eauto.
  - apply moved_do_recv.
  - apply inner_moved, inner_set_opt.
  - apply inner_moved. destruct (is_raw k); [apply inner_emit; exact I|].
    destruct (sclosed s); [apply inner_emit; exact I|].
    destruct (aget 0 (ctxs s)) as [d|]; [|apply inner_refl].
    eapply inner_trans; [|apply inner_emit; exact I]. apply inner_set_ctx.
    destruct (is_respondent k); cbn; discriminate.
  - apply inner_moved. destruct (c =? 0); [apply inner_close_sock|].
    destruct (aget c (ctxs s)) as [x|]; [|apply inner_emit; exact I].
    destruct (c_closed x); [apply inner_emit; exact I|].
    eapply inner_trans; [apply inner_close_ctx|apply inner_emit; exact I].
  - apply inner_moved, inner_close_sock.
Qed.

(* what a stimulus justifies: cooked -- the request a pipe's receiver accepts; raw -- the header the application supplies *)
Definition justified (k : kind) (s : rstate) (st : stim) (p : N) (h : bytes) : Prop :=
  match st with
  | SDeliver q body => is_raw k = false /\ q = p /\ exists b, rx_model (rx_of k) (ttl s) (pipe_id q) body = Some (Deliver h b)
  | SCall t (CSend c hdr body) => is_raw k = true /\ raw_lookup s hdr = Some (p, h)
  | _ => False
  end.

Lemma moved_step_raw k s st : (forall p, st <> SAddPipe p) -> moved (justified k s st) (is_raw k) s (step_raw k s st).
Proof.
  intro Hadd. destruct st; cbn [step_raw].
  - apply moved_do_call. intros c hdr body p rest -> R L. cbn. auto.
  - exfalso. eapply Hadd; reflexivity.
  - apply inner_moved, inner_remove_pipe.
  - apply moved_deliver. intros h b E R. cbn. eauto.
  - apply inner_moved. destruct (aget p (pipes s)) as [pp|] eqn:E; [|apply inner_refl].
    apply (inner_set_pipe s p pp); auto.
  - apply inner_moved. destruct (aget p (pipes s)) as [pp|] eqn:E; [|apply inner_refl].
    destruct (pp_closed pp) eqn:C; [apply inner_refl|]. cbn [orb]. destruct (negb (pp_busy pp)); [apply inner_refl|].
    apply inner_trans with (s2 := set_pipe s p (pipe_with pp false (pp_hold pp) false (pp_q pp))).
    + apply (inner_set_pipe s p pp); [exact E|auto|congruence].
    + destruct ok; [apply inner_pump_all|apply inner_remove_pipe].
  - apply inner_moved, inner_refl.
  - apply inner_moved, inner_refl.
Qed.

(* ================= per-step statements ================= *)

Lemma admit_one_sclosed s p : sclosed (admit_one s p) = sclosed s.
Proof.
  unfold admit_one. destruct (aget p (pipes s)); [|reflexivity]. destruct (can_accept r); [|reflexivity].
  destruct (pick (send_on p) (threads s)) as [[[|] rest]|]; reflexivity.
Qed.
Lemma pump_sclosed fuel : forall s p, sclosed (pump fuel s p) = sclosed s.
Proof.
  induction fuel as [|f IH]; intros s p; cbn [pump]; [reflexivity|].
  destruct (aget p (pipes s)); [|reflexivity]. destruct (pp_closed r); [reflexivity|].
  destruct (aget p (pipes (admit_one s p))); [|apply admit_one_sclosed].
  destruct (pp_busy r0); [apply admit_one_sclosed|]. destruct (pp_q r0) as [|[h b] q']; [apply admit_one_sclosed|].
  rewrite IH. cbn. apply admit_one_sclosed.
Qed.

(* the select of SendMsg writes only to pipe p, only while p is open, and only (hdr, body) or what was already
   waiting for p; it touches no context *)
Lemma pipe_send_spec k s t c p hdr body best :
  let s' := pipe_send k s t c p hdr body best in
  ctxs s' = ctxs s /\ sclosed s' = sclosed s /\
  forall o, In o (out s') -> In o (out s) \/ (exists t' r, o = ORet t' r) \/
    (exists h b, o = OTx p h b /\ pipe_open s p /\ ((h = hdr /\ b = body) \/ queued s p (h, b))).
Proof.
  unfold pipe_send. destruct (aget p (pipes s)) as [pp|] eqn:E; [|cbn; auto].
  destruct (pp_closed pp) eqn:C.
  { cbn. repeat split; auto. intros o [<-|H]; eauto. }
  destruct best.
  { cbn. repeat split; auto. intros o [<-|H]; eauto. }
  set (s1 := upd_threads s (threads s ++ [TSend t c p hdr body])).
  unfold pump_all. set (fuel := (4 + _ + _)%nat).
  pose proof (pump_spec fuel s1 p) as H. cbn zeta in H. destruct H as (A1 & _ & _ & _ & _ & _ & _ & _ & A9).
  repeat split.
  - rewrite A1. reflexivity.
  - rewrite pump_sclosed. reflexivity.
  - intros o Ho. destruct (A9 o Ho) as [H|[(t' & ->)|(h & b & -> & Q & O)]]; eauto.
    right. right. exists h, b. split; [reflexivity|]. split; [exact O|].
    destruct Q as [(pq & H1 & H2)|(t' & c' & H)].
    + right. left. exists pq. auto.
    + cbn in H. apply in_app_or in H. destruct H as [H|[H|[]]].
      * right. right. exists t', c'. exact H.
      * inversion H; subst. left. auto.
Qed.

(* (a) cooked: the reply goes to the context's recvPipe with exactly the stored backtrace, and the context forgets both *)
Lemma cooked_reply_routed k s t c x p bt hdr body :
  is_raw k = false -> aget c (ctxs s) = Some x -> sclosed s = false -> c_closed x = false ->
  c_bt x = Some bt -> c_recvPipe x = Some p ->
  let s' := do_call k s t (CSend c hdr body) in
  (exists x', aget c (ctxs s') = Some x' /\ c_bt x' = None /\ c_recvPipe x' = None /\ c_closed x' = false) /\
  sclosed s' = false /\
  (forall o, In o (out s') -> In o (out s) \/ (exists t' r, o = ORet t' r) \/
     (exists h b, o = OTx p h b /\ pipe_open s p /\ ((h = bt /\ b = body) \/ queued s p (h, b)))).
Proof.
  intros R E S C B P. cbn [do_call]. unfold do_send. rewrite E, R, S, C, B, P. cbn [orb].
  set (s1 := set_ctx s c (with_req x (c_recvWait x) None None)).
  pose proof (pipe_send_spec k s1 t c p bt body (c_best x)) as H. cbn zeta in H. destruct H as (A1 & A2 & A3).
  split; [|split].
  - rewrite A1. subst s1. cbn -[aget aset]. rewrite aget_aset_same. eexists. repeat split; cbn; auto.
  - rewrite A2. exact S.
  - intros o Ho. destruct (A3 o Ho) as [H|[H|H]]; auto.
Qed.

(* ... so a second Send on the context is a protocol-state error that writes nothing *)
Lemma cooked_second_send k s t c x hdr body :
  is_raw k = false -> aget c (ctxs s) = Some x -> sclosed s = false -> c_closed x = false -> c_bt x = None ->
  do_call k s t (CSend c hdr body) = emit s (ORet t (RErr EProtoState)).
Proof. intros R E S C B. cbn [do_call]. unfold do_send. rewrite E, R, S, C, B. reflexivity. Qed.

(* (c) cooked: the requesting pipe has gone: the reply is discarded -- nothing is written to any pipe *)
Lemma cooked_reply_pipe_gone k s t c x p bt hdr body :
  is_raw k = false -> aget c (ctxs s) = Some x -> sclosed s = false -> c_closed x = false ->
  c_bt x = Some bt -> c_recvPipe x = Some p -> pipe_closed s p ->
  do_call k s t (CSend c hdr body) = emit (set_ctx s c (with_req x (c_recvWait x) None None)) (ORet t ROk).
Proof.
  intros R E S C B P (pp & E1 & C1). cbn [do_call]. unfold do_send. rewrite E, R, S, C, B, P. cbn [orb].
  unfold pipe_send. cbn [pipes set_ctx upd_ctxs]. rewrite E1, C1. destruct k; try discriminate; reflexivity.
Qed.

(* (b) raw: the first header word names the pipe and is stripped; anything else vanishes *)
Lemma raw_lookup_short s hdr : (length hdr < 4)%nat -> raw_lookup s hdr = None.
Proof. destruct hdr as [|a [|b [|c [|d r]]]]; cbn [length raw_lookup]; intro H; try reflexivity. lia. Qed.

Lemma raw_lookup_unknown s w rest : length w = 4%nat -> (forall p, be_dec w = pipe_id p -> ~ pipe_open s p) ->
  raw_lookup s (w ++ rest) = None.
Proof.
  intros L H. destruct w as [|a [|b [|c [|d [|e r]]]]]; try discriminate L. cbn [app raw_lookup].
  destruct (N.ltb_spec (be_dec [a; b; c; d]) 1000); [reflexivity|].
  destruct (aget (be_dec [a; b; c; d] - 1000) (pipes s)) as [pp|] eqn:E; [|reflexivity].
  destruct (pp_closed pp) eqn:C; [reflexivity|]. exfalso.
  apply (H (be_dec [a; b; c; d] - 1000)); [unfold pipe_id; lia|]. exists pp. auto.
Qed.

Lemma raw_send_dropped k s t c x hdr body :
  is_raw k = true -> aget c (ctxs s) = Some x -> sclosed s = false -> raw_lookup s hdr = None ->
  do_call k s t (CSend c hdr body) = emit s (ORet t ROk).
Proof. intros R E S L. cbn [do_call]. unfold do_send. rewrite E, R, S, L. reflexivity. Qed.

Lemma raw_send_routed k s t c x hdr body p rest :
  is_raw k = true -> aget c (ctxs s) = Some x -> sclosed s = false -> raw_lookup s hdr = Some (p, rest) ->
  let s' := do_call k s t (CSend c hdr body) in
  (exists w, hdr = w ++ rest /\ length w = 4%nat /\ be_dec w = pipe_id p) /\
  (forall o, In o (out s') -> In o (out s) \/ (exists t' r, o = ORet t' r) \/
     (exists h b, o = OTx p h b /\ pipe_open s p /\ ((h = rest /\ b = body) \/ queued s p (h, b)))).
Proof.
  intros R E S L. cbn [do_call]. unfold do_send. rewrite E, R, S, L. split.
  - destruct (raw_lookup_spec _ _ _ _ L) as (w & H1 & H2 & H3 & _). eauto.
  - pose proof (pipe_send_spec k s t c p rest body (c_best x)) as H. cbn zeta in H. destruct H as (_ & _ & A3). exact A3.
Qed.

(* ================= invariants over all histories ================= *)

Lemma classic_add st : (exists q, st = SAddPipe q) \/ (forall q, st <> SAddPipe q).
Proof. destruct st; try (right; intros q H; discriminate). left. eauto. Qed.

(* ---- nothing is ever written to a pipe that has gone ---- *)
Lemma step_closed k s st p : pipe_closed s p -> st <> SAddPipe p ->
  pipe_closed (fst (step k s st)) p /\ forall h b, ~ In (OTx p h b) (snd (step k s st)).
Proof.
  intros Hc Hn. unfold step. cbn [fst snd].
  assert (Hc0 : pipe_closed (clear_out s) p) by exact Hc.
  destruct (classic_add st) as [(q & ->)|Hst].
  - cbn [step_raw]. assert (q <> p) by congruence.
    destruct (sclosed (clear_out s)); cbn -[aget aset].
    + split; [exact Hc|]. intros h b [].
    + split; [|intros h b []]. destruct Hc as (pp & H1 & H2). exists pp. unfold pipe_closed. cbn -[aget aset].
      rewrite aget_aset_other by congruence. auto.
  - pose proof (moved_step_raw k (clear_out s) st Hst) as M. split.
    + apply (mv_C _ _ _ _ M), Hc0.
    + intros h b H. apply in_rev in H. destruct (mv_O _ _ _ _ M p h b H) as [[]|(pp & H1 & H2)].
      destruct Hc0 as (pp' & H3 & H4). congruence.
Qed.

Lemma run_model_cons k s st r :
  run_model (rr_model k) s (st :: r) =
  (fst (run_model (rr_model k) (fst (step k s st)) r), snd (step k s st) :: snd (run_model (rr_model k) (fst (step k s st)) r)).
Proof.
  cbn [run_model m_step rr_model]. destruct (step k s st) as [s' o]. cbn [fst snd].
  destruct (run_model (rr_model k) s' r) as [s'' os]. reflexivity.
Qed.

Lemma closed_never_written k h : forall s p, pipe_closed s p -> (forall st, In st h -> st <> SAddPipe p) ->
  forall os, In os (snd (run_model (rr_model k) s h)) -> forall hd b, ~ In (OTx p hd b) os.
Proof.
  induction h as [|st r IH]; intros s p Hc Hn os Hos hd b.
  - cbn in Hos. destruct Hos.
  - rewrite run_model_cons in Hos. cbn [snd] in Hos.
    destruct (step_closed k s st p Hc (Hn st (or_introl eq_refl))) as (Hc' & Hno).
    destruct Hos as [<-|Hos]; [apply Hno|].
    eapply IH; eauto. intros st' H'. apply Hn. right. exact H'.
Qed.

Lemma drop_closes k s p pp : aget p (pipes s) = Some pp -> pipe_closed (fst (step k s (SDropPipe p))) p.
Proof.
  intro E. unfold step. cbn [fst step_raw]. unfold remove_pipe. cbn [pipes clear_out]. rewrite E.
  destruct (pp_closed pp) eqn:C; [exists pp; auto|].
  match goal with |- pipe_closed (finish_closed_sends k ?s1 p) p => pose proof (inner_finish_closed_sends k s1 p) as I1; apply (in_C _ _ I1) end.
  destruct (is_respondent k); unfold pipe_closed; cbn -[aget aset]; rewrite aget_aset_same; eexists; split; reflexivity.
Qed.

(* from the moment the peer goes (SDropPipe p), through the rest of any history that does not reuse the pipe
   number, no step writes anything to p *)
Lemma nothing_after_drop k s p pp h :
  aget p (pipes s) = Some pp -> (forall st, In st h -> st <> SAddPipe p) ->
  forall os, In os (snd (run_model (rr_model k) s (SDropPipe p :: h))) -> forall hd b, ~ In (OTx p hd b) os.
Proof.
  intros E Hn os Hos hd b. rewrite run_model_cons in Hos. cbn [snd] in Hos. destruct Hos as [<-|Hos].
  - unfold step. cbn [snd step_raw]. intro H. apply in_rev in H.
    pose proof (inner_remove_pipe k (clear_out s) p) as I1. destruct (in_O _ _ I1 p hd b H) as [[]|(pq & H1 & H2)].
    (* the drop step itself only reports returns *)
    unfold remove_pipe in H. cbn [pipes clear_out] in H, H1. rewrite E in H. rewrite E in H1. inversion H1; subst pq. rewrite H2 in H.
    match type of H with In _ (out (finish_closed_sends k ?s1 p)) => pose proof (inner_finish_closed_sends k s1 p) as I2 end.
    destruct (in_O _ _ I2 p hd b H) as [H3|(pq & H3 & H4)].
    + destruct (is_respondent k); cbn in H3; exact H3.
    + destruct (is_respondent k); cbn -[aget aset] in H3; rewrite aget_aset_same in H3; inversion H3; subst pq; discriminate.
  - eapply closed_never_written; eauto. eapply drop_closes; eauto.
Qed.

(* ---- every message written is explained ---- *)
Lemma bt_loop_split c tl : forall fuel hops hdr body h b,
  bt_loop fuel c tl hops hdr body = Some (Deliver h b) -> split_bt fuel hdr body = Some (h, b).
Proof.
  induction fuel as [|f IH]; intros hops hdr body h b H; cbn [bt_loop] in H; [discriminate|].
  destruct (cmp_test c hops tl); [discriminate|].
  destruct body as [|x [|y [|z [|w rest]]]]; try discriminate.
  cbn [split_bt]. destruct (high x).
  - inversion H; subst. reflexivity.
  - eapply IH; eauto.
Qed.

Lemma rx_cooked_split k tl pid body h b :
  is_raw k = false -> rx_model (rx_of k) tl pid body = Some (Deliver h b) -> split_req body = Some (h, b).
Proof.
  intros R H. unfold split_req. destruct k; try discriminate R; cbn [rx_of rx_model] in H; unfold bt in H; cbn [fst snd rep_params respondent_params] in H;
    eapply bt_loop_split; eauto.
Qed.

(* cooked: a request with exactly this routing header arrived on exactly this pipe earlier in the history;
   raw: the application sent a message whose first header word names this pipe, followed by exactly this header *)
Definition origin (k : kind) (pre : list stim) (p : N) (hd : bytes) : Prop :=
  if is_raw k
  then exists t c hdr body w, In (SCall t (CSend c hdr body)) pre /\ hdr = w ++ hd /\ length w = 4%nat /\ be_dec w = pipe_id p
  else exists body payload, In (SDeliver p body) pre /\ split_req body = Some (hd, payload).

Lemma origin_mono k pre st p hd : origin k pre p hd -> origin k (pre ++ [st]) p hd.
Proof.
  unfold origin. destruct (is_raw k).
  - intros (t & c & hdr & body & w & H1 & H2). exists t, c, hdr, body, w. split; [apply in_or_app; left; exact H1|exact H2].
  - intros (body & payload & H1 & H2). exists body, payload. split; [apply in_or_app; left; exact H1|exact H2].
Qed.

Lemma justified_origin k s pre st p hd : justified k s st p hd -> origin k (pre ++ [st]) p hd.
Proof.
  unfold justified, origin. destruct st as [t cl| | |q body| | | |]; try tauto.
  - destruct cl as [c hdr body| | | | |]; try tauto. intros (R & L). rewrite R.
    destruct (raw_lookup_spec _ _ _ _ L) as (w & H1 & H2 & H3 & _).
    exists t, c, hdr, body, w. split; [apply in_or_app; right; left; reflexivity|auto].
  - intros (R & -> & b & H). rewrite R. exists body, b. split; [apply in_or_app; right; left; reflexivity|].
    eapply rx_cooked_split; eauto.
Qed.

Definition explained (k : kind) (pre : list stim) (s : rstate) : Prop :=
  forall p hd, (if is_raw k then outgoing s p hd else carried s p hd) -> origin k pre p hd.

Lemma explained_init k : explained k [] (init k).
Proof.
  intros p hd H. exfalso. destruct (is_raw k).
  - destruct H as [(b & [(pp & H1 & _)|(t & c & [])])|(b & [])]. discriminate.
  - destruct H as [(c & x & H1 & H2 & H3)|[(b & [[]|[]])|[(b & [(pp & H1 & _)|(t & c & [])])|(b & [])]]].
    + cbn in H1. destruct (c =? 0); [|discriminate]. inversion H1; subst. discriminate.
    + discriminate.
Qed.

Lemma Qs_add_pipe s q cap p hd : Qs (set_pipe s q (new_pipe cap)) p hd -> Qs s p hd.
Proof.
  intros (b & [(pp & H1 & H2)|(t & c & H)]); exists b.
  - cbn -[aget aset] in H1. rewrite aget_aset in H1. destruct (q =? p) eqn:E; destruct (p =? q) eqn:E'; try (apply N.eqb_eq in E; apply N.eqb_neq in E'; congruence);
      try (apply N.eqb_eq in E'; apply N.eqb_neq in E; congruence).
    + inversion H1; subst. destruct H2.
    + left. exists pp. auto.
  - right. exists t, c. exact H.
Qed.

Lemma explained_step k pre s st : explained k pre s ->
  explained k (pre ++ [st]) (fst (step k s st)) /\
  forall p hd b, In (OTx p hd b) (snd (step k s st)) -> origin k (pre ++ [st]) p hd.
Proof.
  intro Ex.
  assert (Ex0 : explained k pre (clear_out s)).
  { intros p hd H. apply Ex. destruct (is_raw k).
    - destruct H as [H|(b & [])]. left. exact H.
    - destruct H as [H|[H|[H|(b & [])]]]; [left|right; left|right; right; left]; exact H. }
  assert (Main : explained k (pre ++ [st]) (fst (step k s st))).
  { unfold step. cbn [fst]. destruct (classic_add st) as [(q & ->)|Hst].
    - cbn [step_raw]. intros p hd H. apply origin_mono. apply Ex0.
      destruct (sclosed (clear_out s)); [exact H|].
      destruct (is_raw k).
      + destruct H as [H|H]; [left; eapply Qs_add_pipe; eauto|right; exact H].
      + destruct H as [H|[H|[H|H]]]; [left; exact H|right; left; exact H|right; right; left; eapply Qs_add_pipe; eauto|right; right; right; exact H].
    - pose proof (moved_step_raw k (clear_out s) st Hst) as M. intros p hd H.
      destruct (is_raw k) eqn:R.
      + destruct (mv_out _ _ _ _ M eq_refl p hd H) as [H1|H1].
        * apply origin_mono, Ex0. rewrite R. exact H1.
        * eapply justified_origin; eauto.
      + destruct (mv_car _ _ _ _ M eq_refl p hd H) as [H1|H1].
        * apply origin_mono, Ex0. rewrite R. exact H1.
        * eapply justified_origin; eauto. }
  split; [exact Main|].
  intros p hd b H. apply Main. unfold step in *. cbn [fst snd] in *. apply in_rev in H.
  destruct (is_raw k); [right|right; right; right]; exists b; exact H.
Qed.

Fixpoint explained_trace (k : kind) (pre h : list stim) (oss : list (list obs)) : Prop :=
  match h, oss with
  | st :: r, os :: oss' =>
    (forall p hd b, In (OTx p hd b) os -> origin k (pre ++ [st]) p hd) /\ explained_trace k (pre ++ [st]) r oss'
  | _, _ => True
  end.

Lemma explained_run k h : forall pre s, explained k pre s -> explained_trace k pre h (snd (run_model (rr_model k) s h)).
Proof.
  induction h as [|st r IH]; intros pre s Ex; [exact I|].
  rewrite run_model_cons. cbn [snd explained_trace].
  destruct (explained_step k pre s st Ex) as (Ex' & Ho). split; [exact Ho|]. apply IH. exact Ex'.
Qed.

Lemma all_writes_explained k h : explained_trace k [] h (snd (run_model (rr_model k) (init k) h)).
Proof. apply explained_run, explained_init. Qed.

(* ---- a received request is recorded in the receiving context only ---- *)
Lemma recv_records_in_own_context k s t c x p h b :
  is_raw k = false -> aget c (ctxs s) = Some x ->
  let s' := recv_finish k s t c (p, (h, b)) in
  aget c (ctxs s') = Some (with_req x false (Some p) (Some h)) /\
  (forall c', c' <> c -> aget c' (ctxs s') = aget c' (ctxs s)) /\
  out s' = ORet t (RMsg [] b) :: out s.
Proof.
  intros R E. unfold recv_finish. rewrite R, E. cbn -[aget aset]. repeat split.
  - apply aget_aset_same.
  - intros c' H. apply aget_aset_other. exact H.
Qed.

(* ---- the oracle on the model's own traces: directed histories (the harness runs the same ones) ---- *)
Definition rq (words : list N) (tag : N) : bytes := flat_map (be_enc 4) words ++ be_enc 2 tag ++ [x07].
Definition rp (tag : N) : bytes := be_enc 2 tag ++ [x09].
Definition hi (n : N) : N := 2 ^ 31 + n.

Definition script_two_ctx : list stim :=
  [ SAddPipe 1; SAddPipe 2; SCall 1 (COpenCtx 1);
    SCall 2 (CRecv 0); SDeliver 1 (rq [5; hi 77] 1);
    SCall 3 (CRecv 1); SDeliver 2 (rq [6; 7; 8; hi 78] 2);
    SCall 4 (CSend 1 [] (rp 1)); SCall 5 (CSend 0 [] (rp 2)); SCall 6 (CSend 1 [] (rp 3)) ].

Definition script_drop : list stim :=
  [ SAddPipe 1; SHold 1 true; SDeliver 1 (rq [hi 1] 1); SCall 1 (CRecv 0); SCall 2 (CSend 0 [] (rp 1));
    SDeliver 1 (rq [9; hi 2] 2); SCall 3 (CRecv 0); SCall 4 (CSend 0 [] (rp 2)); SDropPipe 1; SCall 5 (CSend 0 [] (rp 3));
    SAddPipe 2; SDeliver 2 (rq [hi 3] 3); SCall 6 (CRecv 0); SDropPipe 2; SCall 7 (CSend 0 [] (rp 4)) ].

Definition script_raw : list stim :=
  [ SAddPipe 1; SAddPipe 2; SDeliver 1 (rq [hi 1] 1); SDeliver 2 (rq [3; hi 2] 2); SCall 1 (CRecv 0); SCall 2 (CRecv 0);
    SCall 3 (CSend 0 (be_enc 4 1002 ++ flat_map (be_enc 4) [3; hi 2]) (rp 1));
    SCall 4 (CSend 0 (be_enc 4 1001 ++ flat_map (be_enc 4) [hi 1]) (rp 2));
    SCall 5 (CSend 0 [x00; x01] (rp 3)); SCall 6 (CSend 0 (be_enc 4 1007 ++ be_enc 4 (hi 9)) (rp 4));
    SDropPipe 1; SCall 7 (CSend 0 (be_enc 4 1001 ++ flat_map (be_enc 4) [hi 1]) (rp 5)) ].

Lemma oracle_accepts_model_scripts :
  c05_oracle_k KRep (model_trace KRep (init KRep) script_two_ctx) = None /\
  c05_oracle_k KRespondent (model_trace KRespondent (init KRespondent) script_two_ctx) = None /\
  c05_oracle_k KRep (model_trace KRep (init KRep) script_drop) = None /\
  c05_oracle_k KRespondent (model_trace KRespondent (init KRespondent) script_drop) = None /\
  c05_oracle_k KXRep (model_trace KXRep (init KXRep) script_raw) = None /\
  c05_oracle_k KXRespondent (model_trace KXRespondent (init KXRespondent) script_raw) = None.
Proof. vm_compute. repeat split. Qed.

(* the replies of script_two_ctx as the model writes them: each to the pipe and with the header of its own request *)
Lemma script_two_ctx_writes :
  flat_map (fun os => filter (fun o => match o with OTx _ _ _ => true | _ => false end) os)
           (snd (run_model rep_model (init KRep) script_two_ctx)) =
  [ OTx 2 (flat_map (be_enc 4) [6; 7; 8; hi 78]) (rp 1); OTx 1 (flat_map (be_enc 4) [5; hi 77]) (rp 2) ].
Proof. vm_compute. reflexivity. Qed.

(* the oracle is not vacuous: the same trace with the two replies' pipes swapped, with one header shortened, with a
   reply repeated, or with a reply written after its pipe went, is rejected at that step *)
Definition swap_pipes (o : obs) : obs := match o with OTx p h b => OTx (3 - p) h b | _ => o end.
Definition cut_header (o : obs) : obs := match o with OTx p (a :: b :: c :: d :: h) body => OTx p h body | _ => o end.
Definition tamper (f : list obs -> list obs) (i : nat) (tr : list step_rec) : list step_rec :=
  firstn i tr ++ match skipn i tr with (st, os, bl) :: r => (st, f os, bl) :: r | [] => [] end.

Lemma oracle_rejects_misrouting :
  let tr := model_trace KRep (init KRep) script_two_ctx in
  c05_oracle_k KRep (tamper (map swap_pipes) 7 tr) = Some 7 /\
  c05_oracle_k KRep (tamper (map cut_header) 7 tr) = Some 7 /\
  c05_oracle_k KRep (tamper (fun os => os ++ os) 8 tr) = Some 8 /\
  c05_oracle_k KRep (tamper (fun os => OTx 1 (flat_map (be_enc 4) [5; hi 77]) (rp 3) :: os) 9 tr) = Some 9 /\
  let tr2 := model_trace KRep (init KRep) script_drop in
  c05_oracle_k KRep (tamper (fun os => OTx 2 (flat_map (be_enc 4) [hi 3]) (rp 4) :: os) 14 tr2) = Some 14.
Proof. vm_compute. repeat split. Qed.
