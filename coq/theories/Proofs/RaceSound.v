(* Soundness of the must-hold lock analysis of Model/RaceCfg.v: whatever the checker says is certainly held
   at a field access IS held in every concrete execution -- along every path of every function, through every
   chain of calls and goroutine starts.  Hence two accesses to a field that passes `field_ok` always hold a
   common mutex class. *)
From MV Require Import Model.RaceCfg.
From Coq Require Import Lia Arith.
Open Scope N_scope.

(* ---- concrete lock state of a goroutine: a multiset of classes ---- *)
Fixpoint remove_one (c : N) (h : list N) : list N :=
  match h with [] => [] | x :: r => if x =? c then r else x :: remove_one c r end.

Definition ctransfer (h : list N) (i : rinstr) : list N :=
  match i with
  | RLock c => c :: h
  | RUnlock c => remove_one c h
  | _ => h
  end.

Definition sub_ms (a : cset) (h : list N) : Prop := forall c, cmem c a = true -> In c h.

Lemma cmem_true_iff c h : cmem c h = true <-> In c h.
Proof.
  induction h as [|x r IH]; cbn; [split; [discriminate|tauto]|].
  rewrite orb_true_iff, IH, N.eqb_eq. tauto.
Qed.

Lemma cmem_cadd c d h : cmem c (cadd d h) = true -> c = d \/ cmem c h = true.
Proof.
  unfold cadd. destruct (cmem d h) eqn:E; [auto|].
  cbn. rewrite orb_true_iff, N.eqb_eq. intros [->|H]; auto.
Qed.

Lemma cmem_cdel c d h : cmem c (cdel d h) = true -> c <> d /\ cmem c h = true.
Proof.
  induction h as [|x r IH]; cbn; [discriminate|].
  destruct (N.eqb_spec x d) as [->|Hne].
  - intro H. destruct (IH H) as [A B]. split; [exact A|]. rewrite B. apply orb_true_r.
  - cbn. rewrite !orb_true_iff, N.eqb_eq. intros [->|H].
    + split; [congruence|auto].
    + destruct (IH H) as [A B]. auto.
Qed.

Lemma in_remove_one c d h : c <> d -> In c h -> In c (remove_one d h).
Proof.
  intros Hne. induction h as [|x r IH]; cbn; [tauto|].
  destruct (N.eqb_spec x d) as [->|Hx]; cbn; intros [->|H]; auto; congruence.
Qed.

Lemma transfer_sound a h i : sub_ms a h -> sub_ms (rtransfer a i) (ctransfer h i).
Proof.
  intros Hs c Hc. destruct i; cbn in *; auto.
  - apply cmem_cadd in Hc as [->|Hc]; [left; reflexivity|right; auto].
  - apply cmem_cdel in Hc as [Hne Hc]. apply in_remove_one; auto.
Qed.

Lemma csub_sub a b h : csub a b = true -> sub_ms b h -> sub_ms a h.
Proof.
  unfold csub. rewrite forallb_forall. intros H Hb c Hc.
  apply Hb. apply H. apply cmem_true_iff. exact Hc.
Qed.

(* ---- concrete accesses of a body / a path ---- *)
Inductive event := EAccess (w : bool) (f : N) (held : list N) | ECall (g : N) (held : list N) | EGo (g : N).

Fixpoint body_events (h : list N) (b : list rinstr) : list event * list N :=
  match b with
  | [] => ([], h)
  | i :: r =>
    let e := match i with
             | RAccess w f => [EAccess w f h]
             | RCall g => [ECall g h]
             | RGo g => [EGo g]
             | _ => [] end in
    let '(es, h') := body_events (ctransfer h i) r in (e ++ es, h')
  end.

(* abstract sites and concrete events of the same body correspond one to one, abstract held below concrete *)
Definition matches (fn : N) (s : site) (e : event) : Prop :=
  match s, e with
  | SAccess fn' w f a, EAccess w' f' h => fn' = fn /\ w = w' /\ f = f' /\ sub_ms a h
  | SCallSite fn' g a, ECall g' h => fn' = fn /\ g = g' /\ sub_ms a h
  | SGoSite fn' g, EGo g' => fn' = fn /\ g = g'
  | _, _ => False
  end.

Lemma body_sound fn : forall b a h, sub_ms a h ->
  Forall2 (matches fn) (body_sites fn a b) (fst (body_events h b)) /\
  sub_ms (rtransfer_body a b) (snd (body_events h b)).
Proof.
  induction b as [|i r IH]; intros a h Hs; cbn [body_sites body_events rtransfer_body fold_left].
  - split; [constructor|exact Hs].
  - pose proof (transfer_sound a h i Hs) as Hs'.
    destruct (IH (rtransfer a i) (ctransfer h i) Hs') as [F S].
    destruct (body_events (ctransfer h i) r) as [es h'] eqn:E. cbn [fst snd] in *.
    split; [|exact S].
    destruct i; cbn [app]; try exact F; constructor; cbn; auto.
Qed.

Lemma Forall2_in_r {X Y} (R : X -> Y -> Prop) l l' (F : Forall2 R l l') y : In y l' -> exists x, In x l /\ R x y.
Proof.
  induction F as [|x0 y0 l l' HR F IH]; intros Hin; [contradiction|].
  destruct Hin as [<-|Hin]; [exists x0; split; [left; reflexivity|exact HR]|].
  destruct (IH Hin) as (x & Hx & Hr). exists x. split; [right; exact Hx|exact Hr].
Qed.

(* ---- paths through one function ---- *)
Fixpoint rvalid (f : rfunc) (cur : nat) (p : list nat) : bool :=
  match p with
  | [] => true
  | n :: r => existsb (Nat.eqb n) (match nth_error (rblocks f) cur with Some b => rsuccs b | None => [] end) && rvalid f n r
  end.

Fixpoint path_events (f : rfunc) (cur : nat) (h : list N) (p : list nat) : list event :=
  match nth_error (rblocks f) cur with
  | None => []
  | Some b =>
    let '(es, h') := body_events h (rbody b) in
    es ++ match p with [] => [] | n :: r => path_events f n h' r end
  end.

Lemma existsb_nat_in n l : existsb (Nat.eqb n) l = true -> In n l.
Proof. intro H. apply existsb_exists in H as (x & Hx & E). apply Nat.eqb_eq in E. subst. exact Hx. Qed.

Section OneFunction.
  Variables (fn : N) (f : rfunc) (entry : cset) (A : rassign).
  Hypothesis HC : rcert_ok f entry A = true.

  Lemma rc_len : length A = length (rblocks f).
  Proof.
    pose proof HC as HC'. unfold rcert_ok in HC'. apply andb_true_iff in HC' as [H _]. apply andb_true_iff in H as [H _].
    apply Nat.eqb_eq in H. exact H.
  Qed.
  Lemma rc_block i : (i < length (rblocks f))%nat -> rblock_ok f A i = true.
  Proof.
    intro Hi. pose proof HC as HC'. unfold rcert_ok in HC'. apply andb_true_iff in HC' as [_ H].
    rewrite forallb_forall in H. apply H. apply in_seq. lia.
  Qed.

  (* every concrete event along any valid path is matched by a site of the function's analysis *)
  Lemma path_sound : forall p cur a h,
    nth_error A cur = Some (Some a) -> sub_ms a h -> rvalid f cur p = true ->
    forall e, In e (path_events f cur h p) -> exists s, In s (func_sites fn f A) /\ matches fn s e.
  Proof.
    induction p as [|n r IH]; intros cur a h HA Hs Hv e He; cbn [path_events] in He;
      destruct (nth_error (rblocks f) cur) as [b|] eqn:Eb; try contradiction.
    - assert (Hi : (cur < length (rblocks f))%nat) by (apply nth_error_Some; congruence).
      destruct (body_sound fn (rbody b) a h Hs) as [F _].
      destruct (body_events h (rbody b)) as [es h'] eqn:E. cbn [fst] in F.
      rewrite app_nil_r in He.
      destruct (Forall2_in_r _ _ _ F e He) as (s & Hin & Hm).
      exists s. split; [|exact Hm].
      unfold func_sites. apply in_flat_map. exists cur. split; [apply in_seq; lia|]. rewrite HA, Eb. exact Hin.
    - assert (Hi : (cur < length (rblocks f))%nat) by (apply nth_error_Some; congruence).
      destruct (body_sound fn (rbody b) a h Hs) as [F S].
      destruct (body_events h (rbody b)) as [es h'] eqn:E. cbn [fst snd] in F, S.
      apply in_app_or in He as [He|He].
      + destruct (Forall2_in_r _ _ _ F e He) as (s & Hin & Hm).
        exists s. split; [|exact Hm].
        unfold func_sites. apply in_flat_map. exists cur. split; [apply in_seq; lia|]. rewrite HA, Eb. exact Hin.
      + cbn [rvalid] in Hv. rewrite Eb in Hv. apply andb_true_iff in Hv as [Hin Hv].
        apply existsb_nat_in in Hin.
        pose proof (rc_block cur Hi) as Hb. unfold rblock_ok in Hb. rewrite HA, Eb in Hb.
        rewrite forallb_forall in Hb. specialize (Hb n Hin).
        destruct (nth_error A n) as [[t|]|] eqn:En; try discriminate.
        eapply IH; [exact En| |exact Hv|exact He].
        eapply csub_sub; [exact Hb|exact S].
  Qed.

  (* from the function's entry, with at least the assumed entry classes held *)
  Lemma func_sound h0 : sub_ms entry h0 ->
    forall p, rvalid f 0 p = true -> forall e, In e (path_events f 0 h0 p) ->
    exists s, In s (func_sites fn f A) /\ matches fn s e.
  Proof.
    intros Hs p Hv e He.
    destruct (nth_error (rblocks f) 0) as [b|] eqn:Eb.
    - pose proof HC as HC'. unfold rcert_ok in HC'. apply andb_true_iff in HC' as [H0 _]. apply andb_true_iff in H0 as [_ H0].
      destruct (nth_error A 0) as [[a|]|] eqn:EA.
      + eapply path_sound; [exact EA| |exact Hv|exact He]. eapply csub_sub; [exact H0|exact Hs].
      + destruct (rblocks f); [discriminate Eb|discriminate H0].
      + destruct (rblocks f); [discriminate Eb|discriminate H0].
    - destruct p; cbn [path_events] in He; rewrite Eb in He; contradiction.
  Qed.
End OneFunction.

(* ---- whole program: activations reachable through calls and goroutine starts ---- *)
Section Program.
  Variables (top : cset) (prog : list rfunc) (E : entries).
  Hypothesis HP : program_ok top prog E = true.

  Definition fun_of (g : N) : option rfunc := nth_error prog (N.to_nat g).

  (* `active g h`: function g can be running with the concrete multiset h of classes held at its entry *)
  Inductive active : N -> list N -> Prop :=
  | act_root g f h : fun_of g = Some f -> entry_of top E g = [] -> active g h
  | act_call g' f' h' p g h :
      active g' h' -> fun_of g' = Some f' -> rvalid f' 0 p = true ->
      In (ECall g h) (path_events f' 0 h' p) -> active g h
  | act_go g' f' h' p g :
      active g' h' -> fun_of g' = Some f' -> rvalid f' 0 p = true ->
      In (EGo g) (path_events f' 0 h' p) -> active g [].

  Lemma prog_cert g f : fun_of g = Some f ->
    rcert_ok f (entry_of top E g) (rcompute f (entry_of top E g)) = true.
  Proof.
    intro Hf. pose proof HP as HP'. unfold program_ok in HP'. apply andb_true_iff in HP' as [H _]. apply andb_true_iff in H as [_ H].
    rewrite forallb_forall in H.
    unfold fun_of in Hf.
    assert (Hin : In (N.to_nat g, f) (combine (seq 0 (length prog)) prog)).
    { clear -Hf. revert Hf. generalize (N.to_nat g) as n. intro n.
      assert (G : forall k l, nth_error l n = Some f -> In ((k + n)%nat, f) (combine (seq k (length l)) l)).
      { clear. induction n as [|n IH]; intros k l Hn; destruct l as [|x l]; try discriminate; cbn in *.
        - inversion Hn; subst. left. f_equal. lia.
        - right. replace (k + S n)%nat with (S k + n)%nat by lia. apply IH. exact Hn. }
      intro Hn. apply (G 0%nat prog Hn). }
    specialize (H _ Hin). cbn in H. rewrite Nnat.N2Nat.id in H.
    apply andb_true_iff in H as [_ H]. exact H.
  Qed.

  Lemma prog_sites_in g f s : fun_of g = Some f ->
    In s (func_sites g f (rcompute f (entry_of top E g))) -> In s (analyse top prog E).
  Proof.
    intros Hf Hs. unfold analyse. apply in_flat_map. exists (N.to_nat g, f). split.
    - unfold fun_of in Hf. clear -Hf. revert Hf. generalize (N.to_nat g) as n. intro n.
      assert (G : forall k l, nth_error l n = Some f -> In ((k + n)%nat, f) (combine (seq k (length l)) l)).
      { clear. induction n as [|n IH]; intros k l Hn; destruct l as [|x l]; try discriminate; cbn in *.
        - inversion Hn; subst. left. f_equal. lia.
        - right. replace (k + S n)%nat with (S k + n)%nat by lia. apply IH. exact Hn. }
      intro Hn. apply (G 0%nat prog Hn).
    - cbn. rewrite Nnat.N2Nat.id. exact Hs.
  Qed.

  Lemma prog_site_ok s : In s (analyse top prog E) ->
    match s with
    | SCallSite _ g h => csub (entry_of top E g) h = true
    | SGoSite _ g => entry_of top E g = []
    | SAccess _ _ _ _ => True end.
  Proof.
    intro Hs. pose proof HP as HP'. unfold program_ok in HP'. apply andb_true_iff in HP' as [_ H].
    rewrite forallb_forall in H. specialize (H s Hs).
    destruct s; auto. destruct (entry_of top E g); [reflexivity|discriminate].
  Qed.

  (* the entry assumption of every activation holds *)
  Theorem active_entry g h : active g h -> sub_ms (entry_of top E g) h.
  Proof.
    induction 1 as [g f h Hf He | g' f' h' p g h Ha IH Hf Hv Hin | g' f' h' p g Ha IH Hf Hv Hin].
    - rewrite He. intros c Hc. discriminate.
    - destruct (func_sound g' f' _ _ (prog_cert g' f' Hf) h' IH p Hv _ Hin) as (s & Hs & Hm).
      destruct s as [? ? ? ?|fn2 g2 a|? ?]; cbn in Hm; try contradiction.
      destruct Hm as (-> & -> & Hsub).
      pose proof (prog_site_ok _ (prog_sites_in g' f' _ Hf Hs)) as Hok. cbn in Hok.
      eapply csub_sub; [exact Hok|exact Hsub].
    - destruct (func_sound g' f' _ _ (prog_cert g' f' Hf) h' IH p Hv _ Hin) as (s & Hs & Hm).
      destruct s as [? ? ? ?|? ? ?|fn2 g2]; cbn in Hm; try contradiction.
      destruct Hm as (-> & ->).
      pose proof (prog_site_ok _ (prog_sites_in g' f' _ Hf Hs)) as Hok. cbn in Hok.
      rewrite Hok. intros c Hc. discriminate.
  Qed.

  (* every concrete field access of every activation is covered by an analysed site whose must-held set is
     really held *)
  Theorem access_covered g f h p w fld hacc :
    active g h -> fun_of g = Some f -> rvalid f 0 p = true ->
    In (EAccess w fld hacc) (path_events f 0 h p) ->
    exists a, In (SAccess g w fld a) (analyse top prog E) /\ sub_ms a hacc.
  Proof.
    intros Ha Hf Hv Hin.
    destruct (func_sound g f _ _ (prog_cert g f Hf) h (active_entry g h Ha) p Hv _ Hin) as (s & Hs & Hm).
    destruct s as [fn2 w2 f2 a|? ? ?|? ?]; cbn in Hm; try contradiction.
    destruct Hm as (-> & -> & -> & Hsub).
    exists a. split; [|exact Hsub]. eapply prog_sites_in; eauto.
  Qed.
End Program.

(* ---- the discipline ---- *)
Lemma fold_inter_sub (acc : list (N * bool * cset)) : forall g0 x,
  In x acc -> forall c, cmem c (fold_left (fun g a => cinter g (snd a)) acc g0) = true -> cmem c (snd x) = true.
Proof.
  induction acc as [|y r IH]; intros g0 x Hin c Hc; [contradiction|].
  cbn [fold_left] in Hc. destruct Hin as [->|Hin].
  - assert (G : forall (l : list (N * bool * cset)) g1, cmem c (fold_left (fun g a => cinter g (snd a)) l g1) = true -> cmem c g1 = true).
    { clear. induction l as [|z l IHl]; intros g1 H; [exact H|]. cbn [fold_left] in H. apply IHl in H.
      unfold cinter in H. apply cmem_true_iff in H. apply filter_In in H as [H _]. apply cmem_true_iff. exact H. }
    apply G in Hc. unfold cinter in Hc. apply cmem_true_iff in Hc. apply filter_In in Hc as [_ Hc]. exact Hc.
  - eapply IH; eauto.
Qed.

(* Two accesses to a field that passes the discipline check (written after construction, not exempt), made by any
   two activations anywhere in the program outside constructors, hold a common mutex class. *)
Theorem guarded_common_lock nclasses nfields prog exempt :
  guarded_ok nclasses nfields prog exempt = true ->
  let top := all_classes nclasses in
  let E := infer_entries top prog in
  forall fld, (N.to_nat fld < N.to_nat nfields)%nat -> existsb (N.eqb fld) exempt = false ->
  forall g1 f1 h1 p1 w1 a1 g2 f2 h2 p2 w2 a2,
    active top prog E g1 h1 -> fun_of prog g1 = Some f1 -> rvalid f1 0 p1 = true ->
    In (EAccess w1 fld a1) (path_events f1 0 h1 p1) -> is_ctor prog g1 = false ->
    active top prog E g2 h2 -> fun_of prog g2 = Some f2 -> rvalid f2 0 p2 = true ->
    In (EAccess w2 fld a2) (path_events f2 0 h2 p2) -> is_ctor prog g2 = false ->
    w1 = true \/ w2 = true ->
    exists c, In c a1 /\ In c a2.
Proof.
  intros HG top E fld Hfld Hex g1 f1 h1 p1 w1 a1 g2 f2 h2 p2 w2 a2 A1 F1 V1 I1 C1 A2 F2 V2 I2 C2 Hw.
  unfold guarded_ok in HG. fold top in HG. fold E in HG.
  apply andb_true_iff in HG as [HP HF].
  rewrite forallb_forall in HF.
  assert (Hin : In fld (map N.of_nat (seq 0 (N.to_nat nfields)))).
  { apply in_map_iff. exists (N.to_nat fld). split; [apply Nnat.N2Nat.id|apply in_seq; lia]. }
  specialize (HF fld Hin). unfold field_ok in HF. rewrite Hex in HF. cbn [orb] in HF.
  destruct (access_covered top prog E HP g1 f1 h1 p1 w1 fld a1 A1 F1 V1 I1) as (s1 & S1 & Sub1).
  destruct (access_covered top prog E HP g2 f2 h2 p2 w2 fld a2 A2 F2 V2 I2) as (s2 & S2 & Sub2).
  set (acc := field_accesses prog (analyse top prog E) fld) in *.
  assert (M1 : In (g1, w1, s1) acc).
  { unfold acc, field_accesses. apply in_flat_map. exists (SAccess g1 w1 fld s1). split; [exact S1|].
    rewrite N.eqb_refl, C1. cbn. auto. }
  assert (M2 : In (g2, w2, s2) acc).
  { unfold acc, field_accesses. apply in_flat_map. exists (SAccess g2 w2 fld s2). split; [exact S2|].
    rewrite N.eqb_refl, C2. cbn. auto. }
  assert (Hwr : existsb (fun a => snd (fst a)) acc = true).
  { apply existsb_exists. destruct Hw as [->| ->]; [exists (g1, true, s1)|exists (g2, true, s2)]; split; auto. }
  rewrite Hwr in HF. cbn [negb orb] in HF.
  unfold field_guard in HF.
  destruct (fold_left (fun g a => cinter g (snd a)) acc top) as [|c rest] eqn:EG; [discriminate|].
  exists c.
  assert (Hc : cmem c (fold_left (fun g a => cinter g (snd a)) acc top) = true).
  { rewrite EG. cbn. rewrite N.eqb_refl. reflexivity. }
  split.
  - apply Sub1. exact (fold_inter_sub acc top (g1, w1, s1) M1 c Hc).
  - apply Sub2. exact (fold_inter_sub acc top (g2, w2, s2) M2 c Hc).
Qed.
