(* C18, fail-no-peers in REQ: lemmas over Model/Req.v's step functions. *)
From MV Require Import Lib.Proto Model.Req Proofs.ReqProofs.
From MV Require Model.ReqOracle.
Open Scope N_scope.

(* with fail-no-peers set and no pipe attached, Send fails in its entry step, nothing else changes *)
Lemma req_send_no_peers_fast : forall s t c h b x,
  aget c (ctxs s) = Some x -> sclosed s = false -> c_closed x = false -> c_fnp x = true -> no_pipes s = true ->
  do_call s t (CSend c h b) = emit (set_misc s (sclosed s) (nsend s + 1) (now s) (ambig s)) (ORet t (RErr ENoPeers)).
Proof.
  intros s t c h b x Hx Hs Hc Hf Hn. unfold do_call. cbn [set_misc ctxs sclosed].
  rewrite Hx, Hs, Hc, Hf. cbn [orb andb].
  change (no_pipes (set_misc s false (nsend s + 1) (now s) (ambig s))) with (no_pipes s). rewrite Hn. reflexivity.
Qed.

Lemma req_recv_no_peers_fast : forall s t c x,
  aget c (ctxs s) = Some x -> sclosed s = false -> c_closed x = false -> c_fnp x = true -> no_pipes s = true ->
  do_call s t (CRecv c) = emit s (ORet t (RErr ENoPeers)).
Proof.
  intros s t c x Hx Hs Hc Hf Hn. unfold do_call. rewrite Hx, Hs, Hc, Hf, Hn. reflexivity.
Qed.

(* the entry step leaves no call parked *)
Lemma req_no_peers_not_parked : forall s t c h b x,
  aget c (ctxs s) = Some x -> sclosed s = false -> c_closed x = false -> c_fnp x = true -> no_pipes s = true ->
  threads (do_call s t (CSend c h b)) = threads s /\ threads (do_call s t (CRecv c)) = threads s.
Proof.
  intros. erewrite req_send_no_peers_fast, req_recv_no_peers_fast by eassumption. split; reflexivity.
Qed.

(* --- the last pipe leaves while calls are parked --- *)

(* the wait condition of a parked Send is false once no pipe is left *)
Lemma send_waits_no_peers : forall s t c e x,
  aget c (ctxs s) = Some x -> c_fnp x = true -> no_pipes s = true -> send_waits s t c e = false.
Proof.
  intros s t c e x Hx Hf Hn. unfold send_waits. rewrite Hx, Hf, Hn. cbn.
  rewrite !Bool.andb_false_r. reflexivity.
Qed.

Lemma no_pipes_cancel_send : forall s c, no_pipes (cancel_send s c) = no_pipes s.
Proof.
  intros s c. unfold cancel_send. destruct (aget c (ctxs s)) as [x|]; [|reflexivity].
  destruct (c_queued x); reflexivity.
Qed.

Lemma cancel_send_ctx : forall s c x, aget c (ctxs s) = Some x ->
  exists x', aget c (ctxs (cancel_send s c)) = Some x' /\ c_sendMsg x' = c_sendMsg x /\ c_closed x' = c_closed x /\ c_fnp x' = c_fnp x.
Proof.
  intros s c x Hx. unfold cancel_send. rewrite Hx. destruct (c_queued x).
  - eexists. split; [cbn [upd_sendQ set_ctx upd_ctxs ctxs]; apply aget_aset_same|]. cbn. auto.
  - exists x. auto.
Qed.

(* ... and the code after its wait loop returns the no-peers error *)
Lemma send_finish_no_peers : forall s t c e x m,
  aget c (ctxs s) = Some x -> c_sendMsg x = Some (t, m) -> c_closed x = false -> c_fnp x = true -> no_pipes s = true ->
  In (ORet t (RErr ENoPeers)) (out (send_finish s t c e)).
Proof.
  intros s t c e x m Hx Hm Hc Hf Hn. unfold send_finish. rewrite Hx, Hm, N.eqb_refl.
  destruct (cancel_send_ctx s c x Hx) as [x' [Hx' [Em [Ec Ef]]]]. rewrite Hx'.
  cbn [emit out]. left.
  rewrite Ec, Hc, Ef, Hf.
  change (no_pipes (set_ctx (cancel_send s c) c _)) with (no_pipes (cancel_send s c)).
  rewrite no_pipes_cancel_send, Hn. reflexivity.
Qed.

(* a parked Recv: its finishing code returns the no-peers error too *)
Lemma recv_finish_no_peers : forall fixed s t c id x,
  aget c (ctxs s) = Some x -> c_repMsg x = None -> c_closed x = false -> c_fnp x = true -> no_pipes s = true ->
  In (ORet t (RErr ENoPeers)) (out (recv_finish fixed s t c id false)).
Proof.
  intros fixed s t c id x Hx Hr Hc Hf Hn. unfold recv_finish. rewrite Hx, Hr.
  cbv zeta.
  destruct (fixed && negb (c_reqID x =? id)); cbn [emit out]; left; rewrite Hc, Hf; cbn [andb];
  match goal with |- context [no_pipes ?z] => change (no_pipes z) with (no_pipes s) end; rewrite Hn; reflexivity.
Qed.

(* --- c.cancel(): what it keeps and what it does --- *)
Lemma stop_timer_frame : forall s o,
  ctxs (stop_timer s o) = ctxs s /\ pipes (stop_timer s o) = pipes s /\ threads (stop_timer s o) = threads s /\
  out (stop_timer s o) = out s /\ woken (stop_timer s o) = woken s.
Proof. intros s [i|]; cbn; auto. Qed.

Lemma cancel_send_frame : forall s c,
  threads (cancel_send s c) = threads s /\ out (cancel_send s c) = out s /\ woken (cancel_send s c) = woken s.
Proof. intros s c. unfold cancel_send. destruct (aget c (ctxs s)) as [x|]; [|auto]. destruct (c_queued x); cbn; auto. Qed.

Lemma cancel_send_other : forall s c c', c' <> c -> aget c' (ctxs (cancel_send s c)) = aget c' (ctxs s).
Proof.
  intros s c c' Hne. unfold cancel_send. destruct (aget c (ctxs s)) as [x|]; [|reflexivity].
  destruct (c_queued x); [|reflexivity]. cbn [upd_sendQ set_ctx upd_ctxs ctxs]. apply aget_aset_other. exact Hne.
Qed.

Definition keeps (x x' : rctx) : Prop :=
  c_fnp x' = c_fnp x /\ c_closed x' = c_closed x /\ c_sendMsg x' = c_sendMsg x /\ (c_repMsg x = None -> c_repMsg x' = None) /\
  (c_reqID x = 0 -> c_reqID x' = 0).
Lemma keeps_refl x : keeps x x. Proof. repeat split; auto. Qed.
Lemma keeps_trans a b c : keeps a b -> keeps b c -> keeps a c.
Proof. intros (A1 & A2 & A3 & A4 & A5) (B1 & B2 & B3 & B4 & B5). repeat split; try congruence; auto. Qed.

Lemma cancel_same : forall s c x, aget c (ctxs s) = Some x ->
  exists x', aget c (ctxs (cancel s c)) = Some x' /\ keeps x x' /\ c_reqID x' = 0 /\ c_repMsg x' = None /\ In c (woken (cancel s c)).
Proof.
  intros s c x Hx. unfold cancel.
  destruct (cancel_send_ctx s c x Hx) as [x1 [H1 [Em [Ec Ef]]]]. rewrite H1.
  set (s1 := if negb (c_reqID x1 =? 0) then upd_byid (cancel_send s c) (adel (c_reqID x1) (ctxByID (cancel_send s c))) else cancel_send s c).
  eexists. split; [|split; [|split; [|split]]].
  - cbn [wake set_ctx upd_ctxs ctxs]. apply aget_aset_same.
  - unfold keeps. cbn. repeat split; try congruence.
  - reflexivity.
  - reflexivity.
  - cbn [wake woken]. left. reflexivity.
Qed.

Lemma cancel_other : forall s c c', c' <> c -> aget c' (ctxs (cancel s c)) = aget c' (ctxs s).
Proof.
  intros s c c' Hne. unfold cancel. destruct (aget c (ctxs (cancel_send s c))) as [x|] eqn:E.
  - cbn [wake set_ctx upd_ctxs ctxs]. rewrite aget_aset_other by exact Hne.
    rewrite !(proj1 (stop_timer_frame _ _)).
    destruct (negb (c_reqID x =? 0)); cbn [upd_byid ctxs]; apply cancel_send_other; exact Hne.
  - apply cancel_send_other. exact Hne.
Qed.

Lemma cancel_frame : forall s c,
  no_pipes (cancel s c) = no_pipes s /\ threads (cancel s c) = threads s /\ out (cancel s c) = out s /\
  (forall w, In w (woken s) -> In w (woken (cancel s c))).
Proof.
  intros s c. unfold cancel. destruct (aget c (ctxs (cancel_send s c))) as [x|] eqn:E.
  - unfold no_pipes, live_pipes. cbn [wake set_ctx upd_ctxs pipes threads out woken].
    rewrite !(proj1 (proj2 (stop_timer_frame _ _))).
    rewrite !(proj1 (proj2 (proj2 (stop_timer_frame _ _)))).
    rewrite !(proj1 (proj2 (proj2 (proj2 (stop_timer_frame _ _))))).
    rewrite !(proj2 (proj2 (proj2 (proj2 (stop_timer_frame _ _))))).
    destruct (cancel_send_frame s c) as (T & O & W).
    pose proof (no_pipes_cancel_send s c) as NP. unfold no_pipes, live_pipes in NP.
    destruct (negb (c_reqID x =? 0)); cbn [upd_byid pipes threads out woken]; rewrite ?T, ?O, ?W; (split; [exact NP|split; [reflexivity|split; [reflexivity|intros w Hw; right; exact Hw]]]).
  - destruct (cancel_send_frame s c) as (T & O & W). rewrite T, O, W. split; [apply no_pipes_cancel_send|auto].
Qed.

Lemma cancel_any : forall s c c' x, aget c' (ctxs s) = Some x -> exists x', aget c' (ctxs (cancel s c)) = Some x' /\ keeps x x'.
Proof.
  intros s c c' x Hx. destruct (N.eq_dec c' c) as [->|Hne].
  - destruct (cancel_same s c x Hx) as [x' [H1 [H2 _]]]. exists x'. auto.
  - exists x. rewrite cancel_other by exact Hne. split; [exact Hx|apply keeps_refl].
Qed.

(* --- RemovePipe of the last pipe: every fail-no-peers context is cancelled (woken) --- *)
Definition rp_body (p : N) (s : rstate) (cx : N * rctx) : rstate :=
  let c := fst cx in
  match aget c (ctxs s) with
  | None => s
  | Some x =>
    if c_fnp x && no_pipes s then cancel s c
    else match c_lastPipe x, c_reqMsg x with
         | Some q, Some _ =>
           if q =? p then
             let s := set_ctx s c (with_ctx x (c_reqID x) (c_reqMsg x) (c_repMsg x) (c_sendMsg x) None (c_queued x)) in
             if c_resend x =? 0 then cancel s c
             else resend_message (cancel_send s c) c (c_reqID x)
           else s
         | _, _ => s
         end
  end.

Lemma fold_fnp : forall p l s,
  no_pipes s = true ->
  (forall c, In c (map fst l) -> exists x, aget c (ctxs s) = Some x /\ c_fnp x = true) ->
  let s' := fold_left (rp_body p) l s in
  no_pipes s' = true /\ threads s' = threads s /\ out s' = out s /\
  (forall w, In w (woken s) -> In w (woken s')) /\
  (forall c x, aget c (ctxs s) = Some x -> exists x', aget c (ctxs s') = Some x' /\ keeps x x') /\
  (forall c, In c (map fst l) -> In c (woken s') /\ exists x', aget c (ctxs s') = Some x' /\ c_reqID x' = 0 /\ c_repMsg x' = None).
Proof.
  intros p l. induction l as [|[c0 y] l IH]; intros s Hn Hl; cbn [fold_left].
  - split; [exact Hn|]. split; [reflexivity|]. split; [reflexivity|]. split; [auto|]. split.
    + intros c1 x1 H1. exists x1. split; [exact H1|apply keeps_refl].
    + intros c1 [].
  - destruct (Hl c0 (or_introl eq_refl)) as [x0 [Hx0 Hf0]].
    assert (E : rp_body p s (c0, y) = cancel s c0) by (unfold rp_body; cbn [fst]; rewrite Hx0, Hf0, Hn; reflexivity).
    rewrite E. destruct (cancel_frame s c0) as (Cn & Ct & Co & Cw).
    destruct (cancel_same s c0 x0 Hx0) as [x1 [Hx1 [K1 [R1 [M1 W1]]]]].
    assert (Hl' : forall c, In c (map fst l) -> exists x, aget c (ctxs (cancel s c0)) = Some x /\ c_fnp x = true).
    { intros c Hc. destruct (Hl c (or_intror Hc)) as [x [Hx Hf]]. destruct (cancel_any s c0 c x Hx) as [x' [Hx' K]].
      exists x'. split; [exact Hx'|]. destruct K as (K & _). congruence. }
    specialize (IH (cancel s c0) (eq_trans Cn Hn) Hl'). cbn zeta in IH. destruct IH as (I1 & I2 & I3 & I4 & I5 & I6).
    split; [exact I1|]. split; [congruence|]. split; [congruence|]. split; [auto|]. split.
    + intros c x Hx. destruct (cancel_any s c0 c x Hx) as [x' [Hx' K]]. destruct (I5 c x' Hx') as [x'' [Hx'' K']].
      exists x''. split; [exact Hx''|eapply keeps_trans; eassumption].
    + intros c [Hc|Hc].
      * cbn in Hc. subst c. split; [apply I4, W1|].
        destruct (I5 c0 x1 Hx1) as [x2 [Hx2 (_ & _ & _ & K4 & K5)]]. exists x2. auto.
      * apply I6, Hc.
Qed.

Lemma live_after_close : forall p z l,
  pp_closed z = true -> (forall q, In q l -> pp_id q = p \/ pp_closed q = true) ->
  filter (fun q => negb (pp_closed q)) (map (fun y => if pp_id y =? p then z else y) l) = [].
Proof.
  intros p z l Hz. induction l as [|q l IH]; intros H; [reflexivity|]. cbn [map filter].
  destruct (H q (or_introl eq_refl)) as [E|E].
  - rewrite E, N.eqb_refl, Hz. cbn. apply IH. intros q' Hq'. apply H. right. exact Hq'.
  - destruct (pp_id q =? p); [rewrite Hz|rewrite E]; cbn; apply IH; intros q' Hq'; apply H; right; exact Hq'.
Qed.

Lemma aget_in : forall {V} c (l : list (N * V)), In c (map fst l) -> exists x, aget c l = Some x /\ In (c, x) l.
Proof.
  intros V c l. induction l as [|[k v] l IH]; intros H; [contradiction|]. cbn [aget].
  destruct (c =? k) eqn:E.
  - apply N.eqb_eq in E. subst k. exists v. split; [reflexivity|left; reflexivity].
  - destruct H as [H|H]; [cbn in H; subst k; rewrite N.eqb_refl in E; discriminate|].
    destruct (IH H) as [x [A B]]. exists x. split; [exact A|right; exact B].
Qed.

(* RemovePipe of the last attached pipe, every context having fail-no-peers set: every context is cancelled and its
   condition variable broadcast, no parked call is touched yet (they return in `settle`, see below) *)
Lemma remove_last_pipe : forall s p pp,
  get_pipe s p = Some pp -> pp_closed pp = false ->
  (forall q, In q (pipes s) -> pp_id q = p \/ pp_closed q = true) ->
  (forall c x, In (c, x) (ctxs s) -> c_fnp x = true) ->
  let s' := remove_pipe s p in
  no_pipes s' = true /\ threads s' = threads s /\ out s' = out s /\
  (forall c x, aget c (ctxs s) = Some x -> exists x', aget c (ctxs s') = Some x' /\ keeps x x') /\
  (forall c, In c (map fst (ctxs s)) -> In c (woken s') /\ exists x', aget c (ctxs s') = Some x' /\ c_reqID x' = 0 /\ c_repMsg x' = None).
Proof.
  intros s p pp Hp Hc Hlast Hfnp. unfold remove_pipe. rewrite Hp, Hc. cbn zeta.
  match goal with |- context [fold_left ?f ?l ?s0] => change f with (rp_body p); set (s3 := s0) end.
  assert (N3 : no_pipes s3 = true).
  { unfold no_pipes, live_pipes, s3. cbn [set_misc upd_readyQ set_pipe upd_pipes pipes pp_id].
    rewrite live_after_close; [reflexivity|reflexivity|exact Hlast]. }
  assert (C3 : ctxs s3 = ctxs s) by reflexivity.
  assert (L3 : forall c, In c (map fst (ctxs s3)) -> exists x, aget c (ctxs s3) = Some x /\ c_fnp x = true).
  { intros c Hin. rewrite C3 in *. destruct (aget_in c (ctxs s) Hin) as [x [A B]]. exists x. split; [exact A|eapply Hfnp; exact B]. }
  destruct (fold_fnp p (ctxs s3) s3 N3 L3) as (I1 & I2 & I3 & I4 & I5 & I6).
  split; [exact I1|]. split; [exact I2|]. split; [exact I3|]. split; [exact I5|exact I6].
Qed.

Lemma aget_some_in : forall {V} c (l : list (N * V)) x, aget c l = Some x -> In (c, x) l /\ In c (map fst l).
Proof.
  intros V c l. induction l as [|[k v] l IH]; intros x H; [discriminate|]. cbn [aget] in H.
  destruct (c =? k) eqn:E.
  - apply N.eqb_eq in E. subst k. inversion H; subst. split; left; reflexivity.
  - destruct (IH x H) as [A B]. split; right; assumption.
Qed.

(* the last pipe leaves during the wait: every parked Send / Recv of a fail-no-peers context has been signalled, its
   wait condition is false and the code after its wait loop returns ErrNoPeers *)
Lemma last_pipe_leaves_parked_calls : forall s p pp,
  get_pipe s p = Some pp -> pp_closed pp = false ->
  (forall q, In q (pipes s) -> pp_id q = p \/ pp_closed q = true) ->
  (forall c x, In (c, x) (ctxs s) -> c_fnp x = true) ->
  let s' := remove_pipe s p in
  threads s' = threads s /\
  (forall c x, aget c (ctxs s) = Some x ->
     In c (woken s') /\
     (forall t e, send_waits s' t c e = false) /\
     (forall t m, c_sendMsg x = Some (t, m) -> c_closed x = false -> forall e, In (ORet t (RErr ENoPeers)) (out (send_finish s' t c e))) /\
     (forall id, id <> 0 -> recv_waits s' c id = false) /\
     (forall fixed t id, c_closed x = false -> In (ORet t (RErr ENoPeers)) (out (recv_finish fixed s' t c id false)))).
Proof.
  intros s p pp Hp Hc Hlast Hfnp. destruct (remove_last_pipe s p pp Hp Hc Hlast Hfnp) as (N' & T' & O' & K' & W').
  cbn zeta. split; [exact T'|]. intros c x Hx.
  destruct (aget_some_in c (ctxs s) x Hx) as [Hin Hkey].
  destruct (W' c Hkey) as [Hw [x' [Hx' [R0 M0]]]].
  destruct (K' c x Hx) as [x'' [Hx'' (K1 & K2 & K3 & K4 & K5)]].
  rewrite Hx' in Hx''. inversion Hx''; subst x''. clear Hx''.
  assert (F' : c_fnp x' = true) by (rewrite K1; eapply Hfnp; exact Hin).
  split; [exact Hw|]. split; [|split; [|split]].
  - intros t e. apply (send_waits_no_peers _ t c e x' Hx' F' N').
  - intros t m Hm Hcl e. apply (send_finish_no_peers _ t c e x' m Hx'); [congruence|congruence|exact F'|exact N'].
  - intros id Hid. unfold recv_waits. rewrite Hx', R0. destruct (0 =? id) eqn:E; [apply N.eqb_eq in E; congruence|reflexivity].
  - intros fixed t id Hcl. apply (recv_finish_no_peers fixed _ t c id x' Hx'); [exact M0|congruence|exact F'|exact N'].
Qed.

(* end to end on the machine: fail-no-peers, one pipe, a request in flight, a parked Recv and (second context) a parked
   Send; the peer leaves: both return ErrNoPeers in that step and nothing stays parked *)
Definition np_witness : list stim :=
  [SCall 1 (CSetOpt 0 OFailNoPeers 1%Z []); SAddPipe 1; SHold 1 true;
   SCall 2 (CSend 0 [] (mkb 3 1)); SCall 3 (COpenCtx 1); SCall 4 (CSend 1 [] (mkb 3 2)); SCall 5 (CRecv 0);
   SDropPipe 1; SCall 6 (CSend 0 [] (mkb 3 3)); SCall 7 (CRecv 1)].
Lemma np_witness_trace :
  map (fun r => (snd (fst r), snd r)) (ReqOracle.model_trace true init np_witness) =
  [([ORet 1 ROk], []); ([], []); ([], []);
   ([OTx 1 (req_hdr 1) (mkb 3 1); ORet 2 ROk], []); ([ORet 3 ROk], []); ([], [4]); ([], [4; 5]);
   ([ORet 4 (RErr ENoPeers); ORet 5 (RErr ENoPeers)], []);
   ([ORet 6 (RErr ENoPeers)], []); ([ORet 7 (RErr ENoPeers)], [])].
Proof. vm_compute. reflexivity. Qed.

(* --- the repaired SendMsg: whatever cancels the request (a Recv deadline, another Send, Close) also ends the wait of a
   Send that was still queued --- *)
Lemma cancel_send_unqueued : forall s c x', aget c (ctxs (cancel_send s c)) = Some x' -> c_queued x' = false.
Proof.
  intros s c x'. unfold cancel_send. destruct (aget c (ctxs s)) as [x|] eqn:Hx; [|congruence].
  destruct (c_queued x) eqn:Q.
  - cbn [upd_sendQ set_ctx upd_ctxs ctxs]. rewrite aget_aset_same. intro H. inversion H. reflexivity.
  - rewrite Hx. intro H. inversion H. subst. exact Q.
Qed.

Lemma cancel_unqueued : forall s c x', aget c (ctxs (cancel s c)) = Some x' -> c_queued x' = false.
Proof.
  intros s c x'. unfold cancel.
  destruct (aget c (ctxs (cancel_send s c))) as [x1|] eqn:H1.
  - pose proof (cancel_send_unqueued s c x1 H1) as Q.
    cbn [wake set_ctx upd_ctxs ctxs]. rewrite aget_aset_same. intro H. inversion H. cbn. exact Q.
  - rewrite H1. discriminate.
Qed.

Theorem send_waits_after_cancel : forall s t c e, send_waits (cancel s c) t c e = false.
Proof.
  intros s t c e. unfold send_waits. destruct (aget c (ctxs (cancel s c))) as [x'|] eqn:H; [|reflexivity].
  rewrite (cancel_unqueued s c x' H). rewrite Bool.andb_false_r. reflexivity.
Qed.

(* ... and its finishing code then reports the cancellation (unless the context was closed / lost its last peer, or the
   Send's own deadline is what fired) *)
Lemma send_finish_canceled : forall s t c x m,
  aget c (ctxs s) = Some x -> c_sendMsg x = Some (t, m) -> c_closed x = false -> c_fnp x = false ->
  In (ORet t (RErr ECanceled)) (out (send_finish s t c false)).
Proof.
  intros s t c x m Hx Hm Hc Hf. unfold send_finish. rewrite Hx, Hm, N.eqb_refl.
  destruct (cancel_send_ctx s c x Hx) as [x' [Hx' [Em [Ec Ef]]]]. rewrite Hx'.
  cbn [emit out]. left. rewrite Ec, Hc, Ef, Hf. reflexivity.
Qed.
