(* C02: lemmas about Model/PairPush.v (PAIR, PUSH).  Statements are collected in Props/C02.v. *)
From MV Require Import Model.PairPush Model.PairPushOracle.
From Coq Require Import ZifyBool ZifyN ZifyNat.
Open Scope N_scope.

(* ---------- order-preserving sublists ---------- *)
Inductive sub {A} : list A -> list A -> Prop :=
| sub_nil : sub [] []
| sub_skip x l1 l2 : sub l1 l2 -> sub l1 (x :: l2)
| sub_keep x l1 l2 : sub l1 l2 -> sub (x :: l1) (x :: l2).

Lemma sub_refl {A} (l : list A) : sub l l.
Proof. induction l; [apply sub_nil|apply sub_keep; assumption]. Qed.
Lemma sub_nil_l {A} (l : list A) : sub [] l.
Proof. induction l; [apply sub_nil|apply sub_skip; assumption]. Qed.
Lemma sub_app {A} (a b c d : list A) : sub a b -> sub c d -> sub (a ++ c) (b ++ d).
Proof. intros H1 H2. induction H1; cbn [app]; [exact H2|apply sub_skip; exact IHsub|apply sub_keep; exact IHsub]. Qed.
Lemma sub_trans {A} (a b c : list A) : sub a b -> sub b c -> sub a c.
Proof.
  intros H1 H2. revert a H1. induction H2; intros a H1.
  - exact H1.
  - apply sub_skip. auto.
  - inversion H1; subst; [apply sub_skip|apply sub_keep]; auto.
Qed.
Lemma sub_filter {A} (f : A -> bool) (l : list A) : sub (filter f l) l.
Proof. induction l as [|x l IH]; cbn [filter]; [apply sub_nil|]. destruct (f x); [apply sub_keep|apply sub_skip]; exact IH. Qed.
Lemma sub_map {A B} (f : A -> B) (a b : list A) : sub a b -> sub (map f a) (map f b).
Proof. induction 1; cbn [map]; [apply sub_nil|apply sub_skip|apply sub_keep]; auto. Qed.
Lemma sub_app_l {A} (a b : list A) : sub a (a ++ b).
Proof. rewrite <- (app_nil_r a) at 1. apply sub_app; [apply sub_refl|apply sub_nil_l]. Qed.
Lemma sub_app_r {A} (a b : list A) : sub b (a ++ b).
Proof. change b with ([] ++ b) at 1. apply sub_app; [apply sub_nil_l|apply sub_refl]. Qed.
Lemma sub_length {A} (a b : list A) : sub a b -> (length a <= length b)%nat.
Proof. induction 1; cbn [length]; lia. Qed.
Lemma sub_In {A} (a b : list A) x : sub a b -> In x a -> In x b.
Proof. induction 1; cbn [In]; intuition. Qed.

(* ---------- observations ---------- *)
Lemma txs_of_app a b : txs_of (a ++ b) = txs_of a ++ txs_of b.
Proof. unfold txs_of. apply flat_map_app. Qed.
Lemma txs_on_app p a b : txs_on p (a ++ b) = txs_on p a ++ txs_on p b.
Proof. unfold txs_on. apply flat_map_app. Qed.
Lemma txs_of_rets e ts : txs_of (rets e ts) = [].
Proof. induction ts; [reflexivity|exact IHts]. Qed.
Lemma txs_of_map_ret {A} (f : A -> N) (r : ret) (l : list A) : txs_of (map (fun b => ORet (f b) r) l) = [].
Proof. induction l; [reflexivity|exact IHl]. Qed.
(* what one pipe gets is a subsequence of everything that is written *)
Lemma txs_on_sub p os : sub (txs_on p os) (txs_of os).
Proof.
  induction os as [|o os IH]; [apply sub_nil|].
  change (o :: os) with ([o] ++ os). rewrite txs_on_app, txs_of_app. apply sub_app; [|exact IH].
  destruct o; cbn; try apply sub_nil. destruct (p0 =? p); [apply sub_refl|apply sub_nil_l].
Qed.

(* ---------- the channel discipline loses and invents nothing ---------- *)
Lemma refill_spec cap : forall bs sq,
  let '(q, r, o) := refill cap sq bs in pending q r = pending sq bs /\ txs_of o = [].
Proof.
  induction bs as [|b bs IH]; intro sq; cbn [refill].
  - split; reflexivity.
  - destruct (qlen sq <? cap).
    + specialize (IH (sq ++ [bs_m b])). destruct (refill cap (sq ++ [bs_m b]) bs) as [[q r] o].
      destruct IH as [IH1 IH2]. split; [|exact IH2].
      rewrite IH1. unfold pending. cbn [map]. rewrite <- app_assoc. reflexivity.
    + split; reflexivity.
Qed.

(* ============================== PAIR ============================== *)
Definition ppend (s : pair) : list msg := pending (pa_sq s) (pa_bs s).

Lemma tx1 p (m : msg) : txs_of [OTx p (fst m) (snd m)] = [m].
Proof. destruct m; reflexivity. Qed.

Lemma pa_pump_conserve : forall fuel p hold cap sq bs,
  let '(q, r, i, o) := pa_pump fuel p hold cap sq bs in txs_of o ++ pending q r = pending sq bs.
Proof.
  induction fuel as [|f IH]; intros p hold cap sq bs; cbn [pa_pump]; [reflexivity|].
  destruct sq as [|m q].
  - destruct bs as [|b r]; [reflexivity|].
    destruct hold.
    + change [ORet (bs_t b) ROk; OTx p (fst (bs_m b)) (snd (bs_m b))] with ([ORet (bs_t b) ROk] ++ [OTx p (fst (bs_m b)) (snd (bs_m b))]).
      rewrite txs_of_app, tx1. reflexivity.
    + specialize (IH p false cap [] r). destruct (pa_pump f p false cap [] r) as [[[q2 bs2] i] o2].
      change (ORet (bs_t b) ROk :: OTx p (fst (bs_m b)) (snd (bs_m b)) :: o2)
        with ([ORet (bs_t b) ROk] ++ [OTx p (fst (bs_m b)) (snd (bs_m b))] ++ o2).
      rewrite !txs_of_app, tx1. cbn [txs_of flat_map app]. rewrite IH. reflexivity.
  - pose proof (refill_spec cap bs q) as Ha. destruct (refill cap q bs) as [[q1 bs1] o1]. destruct Ha as [Ha1 Ha2].
    destruct hold.
    + change (OTx p (fst m) (snd m) :: o1) with ([OTx p (fst m) (snd m)] ++ o1). rewrite txs_of_app, Ha2, app_nil_r.
      cbn [txs_of flat_map app]. rewrite Ha1. destruct m; reflexivity.
    + specialize (IH p false cap q1 bs1). destruct (pa_pump f p false cap q1 bs1) as [[[q2 bs2] i] o2].
      change (OTx p (fst m) (snd m) :: o1 ++ o2) with ([OTx p (fst m) (snd m)] ++ o1 ++ o2).
      rewrite !txs_of_app, Ha2, tx1. cbn [app]. rewrite IH, Ha1. reflexivity.
Qed.

Lemma pa_run_conserve s : let '(s', o) := pa_run s in txs_of o ++ ppend s' = ppend s.
Proof.
  unfold pa_run, ppend.
  pose proof (refill_spec (pa_sqlen s) (pa_bs s) (pa_sq s)) as Ha.
  destruct (refill (pa_sqlen s) (pa_sq s) (pa_bs s)) as [[q r] o1]. destruct Ha as [Ha1 Ha2].
  destruct (pa_peer s) as [p|].
  - destruct (pa_infl s).
    + cbn. rewrite Ha2. exact Ha1.
    + pose proof (pa_pump_conserve (S (length q + length r)) p (pa_hold s) (pa_sqlen s) q r) as Hp.
      destruct (pa_pump (S (length q + length r)) p (pa_hold s) (pa_sqlen s) q r) as [[[q2 r2] i] o2].
      cbn [set_pa_infl set_pa_bs set_pa_sq pa_sq pa_bs]. rewrite txs_of_app, Ha2. cbn [app]. rewrite Hp. exact Ha1.
  - cbn. rewrite Ha2. exact Ha1.
Qed.

(* the other fields pa_run leaves alone *)
Lemma pa_run_peer s : pa_peer (fst (pa_run s)) = pa_peer s /\ pa_closed (fst (pa_run s)) = pa_closed s.
Proof.
  unfold pa_run. destruct (refill (pa_sqlen s) (pa_sq s) (pa_bs s)) as [[q r] o1].
  destruct (pa_peer s) as [p|] eqn:E.
  - destruct (pa_infl s); [cbn; auto|].
    destruct (pa_pump (S (length q + length r)) p (pa_hold s) (pa_sqlen s) q r) as [[[q2 r2] i] o2]. cbn. auto.
  - cbn. auto.
Qed.

(* completing Sends and writing messages is all the send side does on its own: no error is returned *)
Definition benign (o : obs) : Prop := match o with ORet _ (RErr _) => False | _ => True end.
Lemma refill_benign cap : forall bs sq, Forall benign (snd (refill cap sq bs)).
Proof.
  induction bs as [|b bs IH]; intro sq; cbn [refill]; [constructor|].
  destruct (qlen sq <? cap); [|constructor].
  specialize (IH (sq ++ [bs_m b])). destruct (refill cap (sq ++ [bs_m b]) bs) as [[q r] o]. cbn [snd] in *.
  constructor; [exact I|exact IH].
Qed.
Lemma pa_pump_benign : forall fuel p hold cap sq bs, Forall benign (snd (pa_pump fuel p hold cap sq bs)).
Proof.
  induction fuel as [|f IH]; intros p hold cap sq bs; cbn [pa_pump]; [constructor|].
  destruct sq as [|m q].
  - destruct bs as [|b r]; [constructor|]. destruct hold.
    + repeat constructor.
    + specialize (IH p false cap [] r). destruct (pa_pump f p false cap [] r) as [[[q2 bs2] i] o2]. cbn [snd] in *.
      repeat constructor. exact IH.
  - pose proof (refill_benign cap bs q) as Ha. destruct (refill cap q bs) as [[q1 bs1] o1]. cbn [snd] in Ha. destruct hold.
    + cbn [snd]. constructor; [exact I|exact Ha].
    + specialize (IH p false cap q1 bs1). destruct (pa_pump f p false cap q1 bs1) as [[[q2 bs2] i] o2]. cbn [snd] in *.
      constructor; [exact I|]. apply Forall_app; auto.
Qed.
Lemma pa_run_benign s : Forall benign (snd (pa_run s)).
Proof.
  unfold pa_run. pose proof (refill_benign (pa_sqlen s) (pa_bs s) (pa_sq s)) as Ha.
  destruct (refill (pa_sqlen s) (pa_sq s) (pa_bs s)) as [[q r] o1]. cbn [snd] in Ha.
  destruct (pa_peer s) as [p|]; [|exact Ha].
  destruct (pa_infl s); [exact Ha|].
  pose proof (pa_pump_benign (S (length q + length r)) p (pa_hold s) (pa_sqlen s) q r) as Hp.
  destruct (pa_pump (S (length q + length r)) p (pa_hold s) (pa_sqlen s) q r) as [[[q2 r2] i] o2]. cbn [snd] in *.
  apply Forall_app; auto.
Qed.

(* ---- at most one peer ---- *)
Lemma pair_second_peer_refused v1 cooked s q p :
  pa_closed s = false -> pa_peer s = Some q ->
  pa_step v1 cooked s (SAddPipe p) = (s, [ORet (attach_key p) (RErr EProtoState)]).
Proof. intros Hc Hp. cbn [pa_step]. rewrite Hc, Hp. reflexivity. Qed.

Lemma pair_peer_gone v1 cooked s q :
  pa_peer s = Some q -> pa_peer (fst (pa_step v1 cooked s (SDropPipe q))) = None.
Proof. intros Hp. cbn [pa_step]. rewrite Hp, N.eqb_refl. reflexivity. Qed.

Lemma pair_next_peer_accepted v1 cooked s p :
  pa_closed s = false -> pa_peer s = None ->
  pa_peer (fst (pa_step v1 cooked s (SAddPipe p))) = Some p /\
  refusal p (snd (pa_step v1 cooked s (SAddPipe p))) = None.
Proof.
  intros Hc Hp. cbn [pa_step]. rewrite Hc, Hp.
  set (s1 := set_pa_rxw _ _).
  split.
  - rewrite (proj1 (pa_run_peer s1)). reflexivity.
  - (* the attach step only completes Sends and writes messages: no error return at all *)
    assert (G : forall o, In o (snd (pa_run s1)) -> benign o).
    { apply Forall_forall, pa_run_benign. }
    unfold refusal.
    destruct (filter _ (snd (pa_run s1))) as [|o l] eqn:Ef; [reflexivity|].
    assert (Hin : In o (o :: l)) by (left; reflexivity). rewrite <- Ef in Hin. apply filter_In in Hin as [Hin Hb].
    specialize (G o Hin). destruct o as [t r| | |]; try reflexivity. destruct r; try reflexivity. contradiction.
Qed.

(* ---- nothing duplicated, reordered or invented: what is written in a step, followed by what is still queued,
   is an order-preserving subsequence of what was queued before followed by the message of this step's Send ---- *)
Definition pa_incoming (v1 cooked : bool) (st : stim) : list msg :=
  match st with
  | SCall _ (CSend _ h b) => match pa_hdr_in v1 cooked h with Some h' => [(h', b)] | None => [] end
  | _ => []
  end.

Lemma pending_snoc sq bs x : pending sq (bs ++ [x]) = pending sq bs ++ [bs_m x].
Proof. unfold pending. rewrite map_app, app_assoc. reflexivity. Qed.
Lemma pending_filter_sub sq bs f : sub (pending sq (filter f bs)) (pending sq bs).
Proof. unfold pending. apply sub_app; [apply sub_refl|apply sub_map, sub_filter]. Qed.
Lemma pending_nil_sub sq bs : sub (pending sq []) (pending sq bs).
Proof. unfold pending. apply sub_app; [apply sub_refl|apply sub_nil_l]. Qed.

Lemma pa_send_sub v1 cooked s t hdr body :
  let '(s', o) := pa_send v1 cooked s t hdr body in
  sub (txs_of o ++ ppend s') (ppend s ++ pa_incoming v1 cooked (SCall t (CSend 0 hdr body))).
Proof.
  unfold pa_send. cbn [pa_incoming]. destruct (pa_hdr_in v1 cooked hdr) as [h|].
  2:{ cbn [txs_of flat_map app]. rewrite app_nil_r. apply sub_refl. }
  destruct (pa_closed s).
  { cbn [txs_of flat_map app]. apply sub_app_l. }
  set (x := {| bs_t := t; bs_m := (h, body); bs_due := _ |}).
  set (s0 := set_pa_bs s (pa_bs s ++ [x])).
  assert (E0 : ppend s0 = ppend s ++ [(h, body)]) by (unfold ppend, s0; cbn [set_pa_bs pa_sq pa_bs]; apply pending_snoc).
  pose proof (pa_run_conserve s0) as Hc. destruct (pa_run s0) as [s1 o]. rewrite <- E0, <- Hc.
  destruct (pa_best s).
  - destruct (existsb (fun b => bs_t b =? t) (pa_bs s1)).
    + rewrite txs_of_app. cbn [txs_of flat_map app]. rewrite app_nil_r.
      apply sub_app; [apply sub_refl|]. unfold ppend. cbn [set_pa_bs pa_sq pa_bs]. apply pending_filter_sub.
    + apply sub_refl.
  - apply sub_refl.
Qed.

Lemma pa_step_sub v1 cooked s st :
  let '(s', o) := pa_step v1 cooked s st in sub (txs_of o ++ ppend s') (ppend s ++ pa_incoming v1 cooked st).
Proof.
  destruct st as [t k|p|p|p body|p h|p ok|until|at_].
  - destruct k as [c hdr body|c|c o v arg|c|c|].
    + exact (pa_send_sub v1 cooked s t hdr body).
    + cbn [pa_step pa_incoming]. rewrite app_nil_r.
      destruct (up_take (pa_rq s) (pa_rxw s)) as [[[m q] w]|]; destruct (pa_closed s); cbn; apply sub_refl.
    + cbn [pa_step pa_incoming]. rewrite app_nil_r.
      destruct o; try (cbn; apply sub_refl).
      * destruct (v <? 0)%Z; [cbn; apply sub_refl|]. unfold pa_resize, ppend.
        cbn [set_pa_amb set_pa_br set_pa_rxw set_pa_bs set_pa_rqlen set_pa_rq set_pa_sqlen set_pa_sq pa_sq pa_bs fst snd].
        rewrite txs_of_app, txs_of_map_ret. cbn [txs_of flat_map app]. apply pending_nil_sub.
      * destruct (v <? 0)%Z; [cbn; apply sub_refl|]. unfold pa_resize, ppend.
        cbn [set_pa_amb set_pa_br set_pa_rxw set_pa_bs set_pa_rqlen set_pa_rq set_pa_sqlen set_pa_sq pa_sq pa_bs fst snd].
        rewrite txs_of_app, txs_of_map_ret. cbn [txs_of flat_map app]. apply sub_nil_l.
      * destruct v1; [destruct (ttl_accepts v)|]; cbn; apply sub_refl.
    + cbn. rewrite app_nil_r. apply sub_refl.
    + cbn. rewrite app_nil_r. apply sub_refl.
    + cbn [pa_step pa_incoming]. rewrite app_nil_r. destruct (pa_closed s); [cbn; apply sub_refl|].
      rewrite !txs_of_app, !txs_of_rets. cbn [txs_of flat_map app]. unfold ppend. cbn. apply pending_nil_sub.
  - cbn [pa_step pa_incoming]. rewrite app_nil_r. destruct (pa_closed s); [cbn; apply sub_refl|].
    destruct (pa_peer s); [cbn; apply sub_refl|].
    set (s1 := set_pa_rxw _ _). pose proof (pa_run_conserve s1) as Hc. destruct (pa_run s1) as [s2 o]. rewrite Hc. apply sub_refl.
  - cbn [pa_step pa_incoming]. rewrite app_nil_r. destruct (pa_peer s) as [q|]; [destruct (q =? p)|]; cbn; apply sub_refl.
  - cbn [pa_step pa_incoming]. rewrite app_nil_r. destruct (pa_peer s) as [q|]; [|cbn; apply sub_refl].
    destruct ((q =? p) && is_nil (pa_rxw s)); [|cbn; apply sub_refl].
    destruct (pa_rx_in v1 (pa_ttl s) body) as [m|]; [|cbn; apply sub_refl].
    unfold up_arrive. destruct (pa_br s) as [|b r]; [destruct (qlen (pa_rq s) <? pa_rqlen s)|]; cbn; apply sub_refl.
  - cbn [pa_step pa_incoming]. rewrite app_nil_r. destruct (pa_peer s) as [q|]; [destruct (q =? p)|]; cbn; apply sub_refl.
  - cbn [pa_step pa_incoming]. rewrite app_nil_r. destruct (pa_peer s) as [q|]; [|cbn; apply sub_refl].
    destruct ((q =? p) && pa_infl s); [|cbn; apply sub_refl]. destruct ok; [|cbn; apply sub_refl].
    set (s1 := set_pa_infl s false). pose proof (pa_run_conserve s1) as Hc. destruct (pa_run s1) as [s2 o]. rewrite Hc. apply sub_refl.
  - cbn [pa_step pa_incoming]. rewrite app_nil_r. unfold expire_s, expire_r.
    rewrite txs_of_app, !txs_of_map_ret. cbn [app]. unfold ppend. cbn. apply pending_filter_sub.
  - cbn. rewrite app_nil_r. apply sub_refl.
Qed.

Fixpoint pa_hist (v1 cooked : bool) (s : pair) (h : list stim) : pair * list obs :=
  match h with
  | [] => (s, [])
  | st :: r => let '(s1, o1) := pa_step v1 cooked s st in let '(s2, o2) := pa_hist v1 cooked s1 r in (s2, o1 ++ o2)
  end.

(* for ALL histories: everything written so far, followed by what is queued, is an order-preserving subsequence of
   the messages of the Send calls in call order -- nothing invented, duplicated or reordered, whatever is lost *)
Lemma pair_fifo_from v1 cooked : forall h s,
  let '(s', o) := pa_hist v1 cooked s h in
  sub (txs_of o ++ ppend s') (ppend s ++ flat_map (pa_incoming v1 cooked) h).
Proof.
  induction h as [|st r IH]; intro s; cbn [pa_hist flat_map].
  - cbn [txs_of flat_map app]. rewrite app_nil_r. apply sub_refl.
  - pose proof (pa_step_sub v1 cooked s st) as H1. destruct (pa_step v1 cooked s st) as [s1 o1].
    specialize (IH s1). destruct (pa_hist v1 cooked s1 r) as [s2 o2].
    rewrite txs_of_app, <- app_assoc.
    eapply sub_trans; [apply sub_app; [apply sub_refl|exact IH]|].
    rewrite !app_assoc. apply sub_app; [exact H1|apply sub_refl].
Qed.

Lemma pair_fifo v1 cooked h :
  sub (txs_of (snd (pa_hist v1 cooked pair0 h))) (flat_map (pa_incoming v1 cooked) h).
Proof.
  pose proof (pair_fifo_from v1 cooked h pair0) as H. destruct (pa_hist v1 cooked pair0 h) as [s' o]. cbn [snd].
  eapply sub_trans; [apply sub_app_l|exact H].
Qed.

(* while sends block, the socket is open and the options are left alone nothing is lost either *)
Definition pa_quiet (st : stim) : bool :=
  match st with
  | SCall _ (CSend _ _ _) | SCall _ (CRecv _) | SAddPipe _ | SDropPipe _ | SDeliver _ _ | SHold _ _ | SRelease _ _ | STick _ => true
  | _ => false
  end.

Lemma pa_run_flags s : pa_best (fst (pa_run s)) = pa_best s /\ pa_closed (fst (pa_run s)) = pa_closed s.
Proof.
  unfold pa_run. destruct (refill (pa_sqlen s) (pa_sq s) (pa_bs s)) as [[q r] o1].
  destruct (pa_peer s) as [p|].
  - destruct (pa_infl s); [cbn; auto|].
    destruct (pa_pump (S (length q + length r)) p (pa_hold s) (pa_sqlen s) q r) as [[[q2 r2] i] o2]. cbn. auto.
  - cbn. auto.
Qed.

Lemma pa_step_exact v1 cooked s st :
  pa_quiet st = true -> pa_best s = false -> pa_closed s = false ->
  let '(s', o) := pa_step v1 cooked s st in
  txs_of o ++ ppend s' = ppend s ++ pa_incoming v1 cooked st /\ pa_best s' = false /\ pa_closed s' = false.
Proof.
  intros Hq Hb Hc.
  destruct st as [t k|p|p|p body|p h|p ok|until|at_]; try discriminate Hq.
  - destruct k as [c hdr body|c|c o v arg|c|c|]; try discriminate Hq.
    + cbn [pa_step pa_incoming]. unfold pa_send. destruct (pa_hdr_in v1 cooked hdr) as [h|].
      2:{ cbn [txs_of flat_map app]. rewrite app_nil_r. auto. }
      rewrite Hc, Hb.
      set (x := {| bs_t := t; bs_m := (h, body); bs_due := _ |}).
      set (s0 := set_pa_bs s (pa_bs s ++ [x])).
      assert (E0 : ppend s0 = ppend s ++ [(h, body)]) by (unfold ppend, s0; cbn [set_pa_bs pa_sq pa_bs]; apply pending_snoc).
      pose proof (pa_run_conserve s0) as Hcs. pose proof (pa_run_flags s0) as [F1 F2].
      destruct (pa_run s0) as [s1 o]. cbn [fst] in *. rewrite <- E0, F1, F2. unfold s0. cbn [set_pa_bs pa_best pa_closed]. auto.
    + cbn [pa_step pa_incoming]. rewrite app_nil_r, Hc.
      destruct (up_take (pa_rq s) (pa_rxw s)) as [[[m q] w]|]; cbn; auto.
  - cbn [pa_step pa_incoming]. rewrite app_nil_r, Hc.
    destruct (pa_peer s); [cbn; auto|].
    set (s1 := set_pa_rxw _ _). pose proof (pa_run_conserve s1) as Hcs. pose proof (pa_run_flags s1) as [F1 F2].
    destruct (pa_run s1) as [s2 o]. cbn [fst] in *. rewrite F1, F2. unfold s1. cbn. auto.
  - cbn [pa_step pa_incoming]. rewrite app_nil_r. destruct (pa_peer s) as [q|]; [destruct (q =? p)|]; cbn; auto.
  - cbn [pa_step pa_incoming]. rewrite app_nil_r. destruct (pa_peer s) as [q|]; [|cbn; auto].
    destruct ((q =? p) && is_nil (pa_rxw s)); [|cbn; auto].
    destruct (pa_rx_in v1 (pa_ttl s) body) as [m|]; [|cbn; auto].
    unfold up_arrive. destruct (pa_br s) as [|b r]; [destruct (qlen (pa_rq s) <? pa_rqlen s)|]; cbn; auto.
  - cbn [pa_step pa_incoming]. rewrite app_nil_r. destruct (pa_peer s) as [q|]; [destruct (q =? p)|]; cbn; auto.
  - cbn [pa_step pa_incoming]. rewrite app_nil_r. destruct (pa_peer s) as [q|]; [|cbn; auto].
    destruct ((q =? p) && pa_infl s); [|cbn; auto]. destruct ok; [|cbn; auto].
    set (s1 := set_pa_infl s false). pose proof (pa_run_conserve s1) as Hcs. pose proof (pa_run_flags s1) as [F1 F2].
    destruct (pa_run s1) as [s2 o]. cbn [fst] in *. rewrite F1, F2. unfold s1. cbn. auto.
  - cbn. rewrite app_nil_r. auto.
Qed.

Lemma pair_exactly_once v1 cooked : forall h s,
  forallb pa_quiet h = true -> pa_best s = false -> pa_closed s = false ->
  let '(s', o) := pa_hist v1 cooked s h in
  txs_of o ++ ppend s' = ppend s ++ flat_map (pa_incoming v1 cooked) h.
Proof.
  induction h as [|st r IH]; intros s Hq Hb Hc; cbn [pa_hist flat_map].
  - cbn [txs_of flat_map app]. rewrite app_nil_r. reflexivity.
  - cbn [forallb] in Hq. apply andb_true_iff in Hq as [Hq1 Hq2].
    pose proof (pa_step_exact v1 cooked s st Hq1 Hb Hc) as H1. destruct (pa_step v1 cooked s st) as [s1 o1].
    destruct H1 as (H1 & Hb1 & Hc1).
    specialize (IH s1 Hq2 Hb1 Hc1). destruct (pa_hist v1 cooked s1 r) as [s2 o2].
    rewrite txs_of_app, <- app_assoc, IH, !app_assoc, H1. reflexivity.
Qed.

(* ============================== PUSH ============================== *)
Definition pupend (s : push) : list msg := pending (pu_sq s) (pu_bs s).

Lemma pu_sweep_conserve cap : forall ready sq bs,
  let '(q, b, rd, st, o) := pu_sweep cap sq bs ready in
  txs_of o ++ pending q b = pending sq bs /\ ready = st ++ rd /\ length (txs_of o) = length st.
Proof.
  induction ready as [|p rd IH]; intros sq bs; cbn [pu_sweep]; [auto|].
  destruct sq as [|m q]; [auto|].
  pose proof (refill_spec cap bs q) as Ha. destruct (refill cap q bs) as [[q1 bs1] o1]. destruct Ha as [Ha1 Ha2].
  specialize (IH q1 bs1). destruct (pu_sweep cap q1 bs1 rd) as [[[[q2 bs2] rd2] st] o2].
  destruct IH as (I1 & I2 & I3).
  change (OTx p (fst m) (snd m) :: o1 ++ o2) with ([OTx p (fst m) (snd m)] ++ o1 ++ o2).
  rewrite !txs_of_app, Ha2, tx1. cbn [app length]. rewrite I1, Ha1, I3, I2. auto.
Qed.

Lemma pu_sweep_nil cap bs ready : pu_sweep cap [] bs ready = ([], bs, ready, [], []).
Proof. destruct ready; reflexivity. Qed.

Lemma pu_run_conserve : forall fuel s, let '(s', o) := pu_run fuel s in txs_of o ++ pupend s' = pupend s.
Proof.
  induction fuel as [|f IH]; intro s; cbn [pu_run]; [reflexivity|].
  pose proof (pu_sweep_conserve (pu_sqlen s) (pu_ready s) (pu_sq s) (pu_bs s)) as Hs.
  destruct (pu_sweep (pu_sqlen s) (pu_sq s) (pu_bs s) (pu_ready s)) as [[[[q b] rd] st] o]. destruct Hs as (Hs & _ & _).
  set (s1 := set_pu_pipes _ _).
  assert (E1 : pupend s1 = pending q b) by reflexivity.
  destruct (filter _ st) as [|p [|p' l]].
  - rewrite E1. exact Hs.
  - specialize (IH (set_pu_ready s1 (rd ++ [p]))). destruct (pu_run f (set_pu_ready s1 (rd ++ [p]))) as [s2 o2].
    rewrite txs_of_app, <- app_assoc, IH. exact Hs.
  - exact Hs.
Qed.

Lemma pu_go_conserve s : let '(s', o) := pu_go s in txs_of o ++ pupend s' = pupend s.
Proof.
  unfold pu_go. pose proof (refill_spec (pu_sqlen s) (pu_bs s) (pu_sq s)) as Ha.
  destruct (refill (pu_sqlen s) (pu_sq s) (pu_bs s)) as [[q r] o1]. destruct Ha as [Ha1 Ha2].
  destruct (pu_closed s).
  - rewrite Ha2. exact Ha1.
  - set (s1 := set_pu_bs _ _). pose proof (pu_run_conserve (S (length q + length r)) s1) as Hr.
    destruct (pu_run (S (length q + length r)) s1) as [s2 o2]. rewrite txs_of_app, Ha2. cbn [app]. rewrite Hr. exact Ha1.
Qed.

Definition pu_incoming (st : stim) : list msg := match st with SCall _ (CSend _ h b) => [(h, b)] | _ => [] end.

Lemma pu_remove_pend s p : pupend (fst (pu_remove s p)) = pupend s \/ pupend (fst (pu_remove s p)) = pending (pu_sq s) [].
Proof. unfold pu_remove. destruct (pu_fnp s && is_nil _); cbn; auto. Qed.
Lemma pu_remove_txs s p : txs_of (snd (pu_remove s p)) = [].
Proof. unfold pu_remove. destruct (pu_fnp s && is_nil _); cbn [snd]; [apply txs_of_rets|reflexivity]. Qed.
Lemma pu_remove_sub s p : sub (txs_of (snd (pu_remove s p)) ++ pupend (fst (pu_remove s p))) (pupend s).
Proof.
  rewrite pu_remove_txs. cbn [app]. destruct (pu_remove_pend s p) as [E|E]; rewrite E; [apply sub_refl|apply pending_nil_sub].
Qed.

Lemma firstn_sub {A} n (l : list A) : sub (firstn n l) l.
Proof. revert l; induction n; intros [|x l]; cbn [firstn]; try apply sub_nil_l. apply sub_keep, IHn. Qed.

Lemma pu_step_sub s st :
  let '(s', o) := pu_step s st in sub (txs_of o ++ pupend s') (pupend s ++ pu_incoming st).
Proof.
  destruct st as [t k|p|p|p body|p h|p ok|until|at_].
  - destruct k as [c hdr body|c|c o v arg|c|c|].
    + cbn [pu_step pu_incoming]. unfold pu_send.
      destruct (pu_closed s) eqn:Hc; [cbn [txs_of flat_map app]; apply sub_app_l|].
      destruct (pu_fnp s && is_nil (pu_pipes s)); [cbn [txs_of flat_map app]; apply sub_app_l|].
      set (x := {| bs_t := t; bs_m := (hdr, body); bs_due := _ |}).
      set (s0 := set_pu_bs s (pu_bs s ++ [x])).
      assert (E0 : pupend s0 = pupend s ++ [(hdr, body)]) by (unfold pupend, s0; cbn [set_pu_bs pu_sq pu_bs]; apply pending_snoc).
      pose proof (pu_go_conserve s0) as Hcs. destruct (pu_go s0) as [s1 o]. rewrite <- E0, <- Hcs.
      destruct (pu_best s); [|apply sub_refl].
      destruct (existsb (fun b => bs_t b =? t) (pu_bs s1)); [|apply sub_refl].
      rewrite txs_of_app. cbn [txs_of flat_map app]. rewrite app_nil_r.
      apply sub_app; [apply sub_refl|]. unfold pupend. cbn [set_pu_bs pu_sq pu_bs]. apply pending_filter_sub.
    + cbn. rewrite app_nil_r. apply sub_refl.
    + cbn [pu_step pu_incoming]. rewrite app_nil_r.
      destruct o; try (cbn; apply sub_refl).
      destruct (v <? 0)%Z; [cbn; apply sub_refl|].
      set (s0 := set_pu_bs _ []).
      assert (E0 : sub (pupend s0) (pupend s)).
      { unfold pupend, s0. cbn [set_pu_bs set_pu_sqlen set_pu_sq pu_sq pu_bs]. unfold pending at 1. cbn [map]. rewrite app_nil_r. apply firstn_sub. }
      pose proof (pu_go_conserve s0) as Hcs. destruct (pu_go s0) as [s1 o].
      rewrite !txs_of_app, txs_of_map_ret. cbn [txs_of flat_map app]. rewrite app_nil_r, Hcs. exact E0.
    + cbn. rewrite app_nil_r. apply sub_refl.
    + cbn. rewrite app_nil_r. apply sub_refl.
    + cbn [pu_step pu_incoming]. rewrite app_nil_r. destruct (pu_closed s); [cbn; apply sub_refl|].
      rewrite txs_of_app, txs_of_rets. cbn [txs_of flat_map app]. unfold pupend. cbn. apply pending_nil_sub.
  - cbn [pu_step pu_incoming]. rewrite app_nil_r. destruct (pu_closed s); [cbn; apply sub_refl|].
    set (s1 := set_pu_ready _ _). pose proof (pu_go_conserve s1) as Hcs. destruct (pu_go s1) as [s2 o]. rewrite Hcs. apply sub_refl.
  - cbn [pu_step pu_incoming]. rewrite app_nil_r. destruct (pu_attached s p); [|cbn; apply sub_refl].
    pose proof (pu_remove_sub s p) as H. destruct (pu_remove s p) as [s1 o]. exact H.
  - cbn [pu_step pu_incoming]. rewrite app_nil_r. destruct (pu_attached s p); cbn; apply sub_refl.
  - cbn. rewrite app_nil_r. apply sub_refl.
  - cbn [pu_step pu_incoming]. rewrite app_nil_r. destruct (pu_inflight s p); [|cbn; apply sub_refl].
    destruct ok.
    + set (s1 := set_pu_pipes _ _). destruct (pu_closed s); [cbn; apply sub_refl|].
      set (s2 := set_pu_ready s1 _). pose proof (pu_go_conserve s2) as Hcs. destruct (pu_go s2) as [s3 o]. rewrite Hcs. apply sub_refl.
    + pose proof (pu_remove_sub s p) as H. destruct (pu_remove s p) as [s1 o]. exact H.
  - cbn [pu_step pu_incoming]. rewrite app_nil_r. unfold expire_s. rewrite txs_of_map_ret. cbn [app]. unfold pupend. cbn. apply pending_filter_sub.
  - cbn. rewrite app_nil_r. apply sub_refl.
Qed.

Fixpoint pu_hist (s : push) (h : list stim) : push * list obs :=
  match h with
  | [] => (s, [])
  | st :: r => let '(s1, o1) := pu_step s st in let '(s2, o2) := pu_hist s1 r in (s2, o1 ++ o2)
  end.

Lemma push_once_from : forall h s,
  let '(s', o) := pu_hist s h in sub (txs_of o ++ pupend s') (pupend s ++ flat_map pu_incoming h).
Proof.
  induction h as [|st r IH]; intro s; cbn [pu_hist flat_map].
  - cbn [txs_of flat_map app]. rewrite app_nil_r. apply sub_refl.
  - pose proof (pu_step_sub s st) as H1. destruct (pu_step s st) as [s1 o1].
    specialize (IH s1). destruct (pu_hist s1 r) as [s2 o2].
    rewrite txs_of_app, <- app_assoc.
    eapply sub_trans; [apply sub_app; [apply sub_refl|exact IH]|].
    rewrite !app_assoc. apply sub_app; [exact H1|apply sub_refl].
Qed.

(* for ALL histories: the messages written to pipes -- each OTx names exactly one pipe -- are, in writing order, an
   order-preserving subsequence of the Send calls' messages (so none is written twice or invented), and so is what
   any single pipe gets *)
Lemma push_once h : sub (txs_of (snd (pu_hist push0 h))) (flat_map pu_incoming h).
Proof.
  pose proof (push_once_from h push0) as H. destruct (pu_hist push0 h) as [s' o]. cbn [snd].
  eapply sub_trans; [apply sub_app_l|exact H].
Qed.
Lemma push_per_pipe_order h p : sub (txs_on p (snd (pu_hist push0 h))) (flat_map pu_incoming h).
Proof. eapply sub_trans; [apply txs_on_sub|apply push_once]. Qed.

(* ---- Send progress ---- *)
Lemma refill_zero sq bs : refill 0 sq bs = (sq, bs, []).
Proof. destruct bs as [|b r]; [reflexivity|]. cbn [refill]. destruct (N.ltb_spec (qlen sq) 0); [lia|reflexivity]. Qed.

(* WRITEQ-LEN 0 (accepted by SetOption): in EVERY state with the socket open -- whatever pipes are connected and
   ready -- a blocking Send produces no observation and stays blocked: the scheduler never sees the message *)
Lemma push_q0_send_blocks s t c hdr body :
  pu_closed s = false -> pu_best s = false -> (pu_fnp s && is_nil (pu_pipes s)) = false ->
  pu_sqlen s = 0 -> pu_sq s = [] ->
  let '(s', o) := pu_step s (SCall t (CSend c hdr body)) in
  o = [] /\ In t (pu_blocked s') /\ pu_ready s' = pu_ready s.
Proof.
  intros Hc Hb Hf Hq Hs. cbn [pu_step]. unfold pu_send. rewrite Hc, Hf, Hb.
  unfold pu_go. cbn [set_pu_bs pu_sqlen pu_sq pu_bs pu_closed]. rewrite Hq, Hs, refill_zero, Hc.
  cbn [pu_run]. cbn [set_pu_bs set_pu_sq pu_sqlen pu_sq pu_bs pu_ready pu_pipes]. rewrite pu_sweep_nil.
  cbn [filter app]. split; [reflexivity|]. split; [|reflexivity].
  unfold pu_blocked. cbn. rewrite map_app. apply in_or_app. right. left. reflexivity.
Qed.

(* with room for at least one message and a ready pipe the Send completes and the message goes to the pipe at the head
   of readyQ *)
Lemma push_send_progress_partial s t c hdr body p rd :
  pu_closed s = false -> pu_best s = false -> (pu_fnp s && is_nil (pu_pipes s)) = false ->
  1 <= pu_sqlen s -> pu_sq s = [] -> pu_bs s = [] -> pu_ready s = p :: rd ->
  let '(s', o) := pu_step s (SCall t (CSend c hdr body)) in
  o = [ORet t ROk; OTx p hdr body] /\ pu_blocked s' = [].
Proof.
  intros Hc Hb Hf Hq Hs Hbs Hr. cbn [pu_step]. unfold pu_send. rewrite Hc, Hf, Hb.
  unfold pu_go. cbn [set_pu_bs pu_sqlen pu_sq pu_bs pu_closed]. rewrite Hs, Hbs, Hc. cbn [app refill].
  destruct (N.ltb_spec (qlen (@nil msg)) (pu_sqlen s)) as [_|Hx]; [|cbn in Hx; lia].
  cbn [app length Nat.add]. cbn [pu_run].
  cbn [set_pu_bs set_pu_sq pu_sqlen pu_sq pu_bs pu_ready pu_pipes]. rewrite Hr. cbn [pu_sweep refill]. rewrite pu_sweep_nil.
  cbn [filter fst snd app].
  destruct (pu_is_hold (pu_pipes s) p); cbn [negb].
  - cbn. split; reflexivity.
  - cbn [pu_run set_pu_ready set_pu_pipes set_pu_bs set_pu_sq pu_sqlen pu_sq pu_bs pu_ready pu_pipes]. rewrite pu_sweep_nil.
    cbn. split; reflexivity.
Qed.

(* the witness history: WRITEQ-LEN 0, one connected idle pipe, one Send *)
Definition push_q0_witness (q : Z) : list stim :=
  [ SCall 0 (COpenCtx 5);
    SCall 1 (CSetOpt 0 OWriteQLen q []);
    SAddPipe 1;
    SCall 2 (CSend 0 [] (mkb 4 131073)) ].

Lemma push_send_progress_refuted : c02_progress_q0 (pp_trace PP0 (push_q0_witness 0)) = Some 3.
Proof. vm_compute. reflexivity. Qed.
Lemma push_send_progress_q1 :
  c02_progress_q0 (pp_trace PP0 (push_q0_witness 1)) = None /\ c02_progress (pp_trace PP0 (push_q0_witness 1)) = None.
Proof. vm_compute. split; reflexivity. Qed.

(* the scheduler gives each message to the pipe at the head of readyQ and takes that pipe off the queue: the pipes
   written to in one sweep are a prefix of readyQ, one message each, and are no longer ready afterwards *)
Definition tx_pipes (os : list obs) : list N := flat_map (fun o => match o with OTx p _ _ => [p] | _ => [] end) os.
Lemma tx_pipes_app a b : tx_pipes (a ++ b) = tx_pipes a ++ tx_pipes b.
Proof. apply flat_map_app. Qed.
Lemma refill_no_tx cap : forall bs sq, tx_pipes (snd (refill cap sq bs)) = [].
Proof.
  induction bs as [|b bs IH]; intro sq; cbn [refill]; [reflexivity|].
  destruct (qlen sq <? cap); [|reflexivity].
  specialize (IH (sq ++ [bs_m b])). destruct (refill cap (sq ++ [bs_m b]) bs) as [[q r] o]. exact IH.
Qed.
Lemma push_sweep_pipes cap : forall ready sq bs,
  let '(q, b, rd, st, o) := pu_sweep cap sq bs ready in tx_pipes o = st /\ ready = st ++ rd.
Proof.
  induction ready as [|p rd IH]; intros sq bs; cbn [pu_sweep]; [auto|].
  destruct sq as [|m q]; [auto|].
  pose proof (refill_no_tx cap bs q) as Ha. destruct (refill cap q bs) as [[q1 bs1] o1]. cbn [snd] in Ha.
  specialize (IH q1 bs1). destruct (pu_sweep cap q1 bs1 rd) as [[[[q2 bs2] rd2] st] o2]. destruct IH as [I1 I2].
  change (OTx p (fst m) (snd m) :: o1 ++ o2) with ([OTx p (fst m) (snd m)] ++ o1 ++ o2).
  rewrite !tx_pipes_app, Ha, I1, I2. auto.
Qed.

(* ============================== receive side (shared by PAIR, PULL, BUS, STAR) ============================== *)
(* the delivered copy is accounted for exactly once: handed to a waiting RecvMsg, or appended to the read queue, or
   held by the receiver goroutine *)
Lemma up_arrive_once view p m rq cap br rxw :
  let '(rq', br', w', o) := up_arrive view p m rq cap br rxw in
  (exists b, br = b :: br' /\ o = [ORet (br_t b) (view m)] /\ rq' = rq /\ w' = rxw) \/
  (br = [] /\ o = [] /\ rq' = rq ++ [m] /\ w' = rxw) \/
  (br = [] /\ o = [] /\ rq' = rq /\ w' = rxw ++ [(p, m)]).
Proof.
  unfold up_arrive. destruct br as [|b r].
  - destruct (qlen rq <? cap); [right; left|right; right]; auto.
  - left. exists b. auto.
Qed.

(* receive side FIFO: RecvMsg takes the oldest message; nothing is lost or duplicated *)
Lemma up_take_fifo rq rxw m q w :
  up_take rq rxw = Some (m, q, w) -> m :: q ++ map snd w = rq ++ map snd rxw.
Proof.
  unfold up_take. destruct rq as [|x rq]; destruct rxw as [|[p y] rxw]; intro H; inversion H; subst; cbn [map app snd]; try reflexivity.
  rewrite <- app_assoc. reflexivity.
Qed.

