From Coq Require Import List NArith Bool Lia.
Import ListNotations.
From MV Require Import Model.Wakeup.
Open Scope N_scope.

Definition NoLost (s : wst) : Prop := w_sender s = Waiting -> w_q s = 0 \/ w_ready s = 0 \/ 0 < w_pend s.

Lemma nolost_step s e s' : NoLost s -> wstep false s e = Some s' -> NoLost s'.
Proof.
  unfold NoLost, wstep. intros H E.
  destruct e.
  - destruct (w_q s <? w_cap s); [|discriminate]. inversion E; subst; clear E. cbn. intros _. right. right. lia.
  - destruct (w_pend s =? 0); [discriminate|]. inversion E; subst; clear E. cbn. discriminate.
  - destruct (w_sender s) eqn:Es; [|discriminate].
    destruct ((w_ready s =? 0) || (w_q s =? 0)) eqn:Ec; inversion E; subst; clear E; cbn.
    + intros _. apply orb_true_iff in Ec. destruct Ec as [Ec|Ec]; apply N.eqb_eq in Ec; auto.
    + discriminate.
  - destruct (w_infl s =? 0); [discriminate|]. inversion E; subst; clear E. cbn. discriminate.
Qed.

Lemma nolost_init cap pipes : NoLost (winit cap pipes).
Proof. unfold NoLost, winit. cbn. discriminate. Qed.

Lemma nolost_run es : forall s s', NoLost s -> wrun false s es = Some s' -> NoLost s'.
Proof.
  induction es as [|e es IH]; intros s s' H E; cbn in E.
  - inversion E; subst. exact H.
  - destruct (wstep false s e) as [s1|] eqn:E1; [|discriminate]. apply (IH s1 s'); [|exact E]. eapply nolost_step; eassumption.
Qed.

(* no wake-up is ever lost: in every state reachable by any interleaving of any number of callers, the forwarding
   goroutine's passes and transmissions finishing, the goroutine is not asleep with a message queued and a pipe ready
   unless a caller is on its way to signal it *)
Theorem no_lost_wakeup : forall cap pipes es s, wrun false (winit cap pipes) es = Some s -> lost s = false.
Proof.
  intros cap pipes es s E. pose proof (nolost_run es _ _ (nolost_init cap pipes) E) as H.
  unfold lost. destruct (w_sender s) eqn:Es; [reflexivity|].
  destruct (H Es) as [Q|[R|P]].
  - rewrite Q. reflexivity.
  - rewrite R. cbn. rewrite andb_false_r. reflexivity.
  - destruct (w_pend s =? 0) eqn:E0; [apply N.eqb_eq in E0; lia|]. rewrite !andb_false_r. reflexivity.
Qed.

(* ... and from such a state the message does get forwarded: the pending Signal is enabled and wakes the goroutine,
   whose next pass hands a message to a ready pipe *)
Theorem queued_message_moves : forall cap pipes es s, wrun false (winit cap pipes) es = Some s ->
  0 < w_q s -> 0 < w_ready s ->
  exists es' s', wrun false s es' = Some s' /\ w_q s' = w_q s - 1 /\ w_infl s' = w_infl s + 1.
Proof.
  intros cap pipes es s E Hq Hr. pose proof (nolost_run es _ _ (nolost_init cap pipes) E) as H.
  assert (Hstep : forall t, w_sender t = Running -> 0 < w_q t -> 0 < w_ready t ->
            exists t', wstep false t EStep = Some t' /\ w_q t' = w_q t - 1 /\ w_infl t' = w_infl t + 1).
  { intros t Et Hqt Hrt. unfold wstep. rewrite Et.
    destruct (w_ready t =? 0) eqn:E1; [apply N.eqb_eq in E1; lia|]. destruct (w_q t =? 0) eqn:E2; [apply N.eqb_eq in E2; lia|].
    cbn. eexists. split; [reflexivity|]. cbn. auto. }
  destruct (w_sender s) eqn:Es.
  - destruct (Hstep s Es Hq Hr) as (t' & E1 & A & B). exists [EStep], t'. cbn [wrun]. rewrite E1. auto.
  - destruct (H Es) as [Q|[R|P]]; [lia|lia|].
    assert (E1 : wstep false s ESig = Some (set s (w_q s) (w_ready s) (w_infl s) (w_pend s - 1) Running)).
    { unfold wstep. destruct (w_pend s =? 0) eqn:E0; [apply N.eqb_eq in E0; lia|]. reflexivity. }
    destruct (Hstep (set s (w_q s) (w_ready s) (w_infl s) (w_pend s - 1) Running) eq_refl Hq Hr) as (t' & E2 & A & B).
    exists [ESig; EStep], t'. cbn [wrun]. rewrite E1, E2. auto.
Qed.

(* the seeded variant (signal only when the queue holds at most one message) loses the wake-up: two callers enqueue on
   an idle socket before either looks at the queue length; both see 2 and neither signals -- and nothing that can
   happen afterwards wakes the goroutine: it sleeps for ever with messages queued and a pipe ready *)
Definition Stuck (s : wst) : Prop := w_sender s = Waiting /\ w_infl s = 0 /\ 2 <= w_q s /\ 0 < w_ready s.

Lemma stuck_step s e s' : Stuck s -> wstep true s e = Some s' -> Stuck s'.
Proof.
  unfold Stuck, wstep. intros (A & B & C & D) E. destruct e.
  - destruct (w_q s <? w_cap s); [|discriminate]. inversion E; subst; clear E. cbn. repeat split; auto; lia.
  - destruct (w_pend s =? 0); [discriminate|]. inversion E; subst; clear E. cbn.
    destruct (w_q s <=? 1) eqn:Q; [apply N.leb_le in Q; lia|]. cbn. repeat split; auto.
  - rewrite A in E. discriminate.
  - rewrite B in E. cbn in E. discriminate.
Qed.

Lemma stuck_run es : forall s s', Stuck s -> wrun true s es = Some s' -> Stuck s'.
Proof.
  induction es as [|e es IH]; intros s s' H E; cbn in E.
  - inversion E; subst. exact H.
  - destruct (wstep true s e) as [s1|] eqn:E1; [|discriminate]. apply (IH s1 s'); [|exact E]. eapply stuck_step; eassumption.
Qed.

Theorem conditional_signal_refuted :
  exists es s, wrun true (winit 8 1) es = Some s /\ lost s = true /\
               (forall es' s', wrun true s es' = Some s' -> w_sender s' = Waiting /\ w_infl s' = 0 /\ 2 <= w_q s' /\ 0 < w_ready s').
Proof.
  exists [EStep; EEnq; EEnq; ESig; ESig]. eexists. split; [vm_compute; reflexivity|]. split; [vm_compute; reflexivity|].
  intros es' s' E. eapply stuck_run; [|exact E]. unfold Stuck. cbn. repeat split; lia.
Qed.
