(* Lemmas for C07 (SURVEYOR).  Statements of the property theorems are in Props/C07.v. *)
From MV Require Import Lib.Proto Model.Survey Model.SurveyOracle.
From Coq Require Import ZifyBool ZifyN ZifyNat.
Open Scope N_scope.

(* ---- association-list facts ---- *)
Lemma aget_aset_same {V} k (v : V) l : aget k (aset k v l) = Some v.
Proof.
  induction l as [|[k' v'] l IH]; cbn [aset aget].
  - rewrite N.eqb_refl. reflexivity.
  - destruct (N.eqb_spec k k'); cbn [aget].
    + rewrite N.eqb_refl. reflexivity.
    + destruct (N.eqb_spec k k'); [contradiction|exact IH].
Qed.
Lemma aget_aset_other {V} k k' (v : V) l : k <> k' -> aget k (aset k' v l) = aget k l.
Proof.
  intro H. induction l as [|[k2 v2] l IH]; cbn [aset aget].
  - destruct (N.eqb_spec k k'); [contradiction|reflexivity].
  - destruct (N.eqb_spec k' k2); cbn [aget].
    + subst. destruct (N.eqb_spec k k2); [contradiction|reflexivity].
    + destruct (N.eqb_spec k k2); [reflexivity|exact IH].
Qed.
Lemma aget_adel_same {V} k (l : list (N * V)) : aget k (adel k l) = None.
Proof.
  induction l as [|[k' v'] l IH]; cbn [adel aget]; [reflexivity|].
  destruct (N.eqb_spec k k'); [exact IH|]. cbn [aget]. destruct (N.eqb_spec k k'); [contradiction|exact IH].
Qed.
Lemma aget_adel_other {V} k k' (l : list (N * V)) : k <> k' -> aget k (adel k' l) = aget k l.
Proof.
  intro H. induction l as [|[k2 v2] l IH]; cbn [adel aget]; [reflexivity|].
  destruct (N.eqb_spec k' k2).
  - subst. destruct (N.eqb_spec k k2); [contradiction|exact IH].
  - cbn [aget]. destruct (N.eqb_spec k k2); [reflexivity|exact IH].
Qed.
Lemma aget_adel_none {V} k k' (l : list (N * V)) : aget k l = None -> aget k (adel k' l) = None.
Proof.
  intro H. destruct (N.eq_dec k k') as [->|Hn]; [apply aget_adel_same|]. rewrite aget_adel_other by exact Hn. exact H.
Qed.

(* ---- (a) a response whose id is not a registered survey is dropped without any effect ---- *)
Lemma pipe_recv_unmatched s body :
  wire_id body = None \/ (exists id, wire_id body = Some id /\ aget id (survs s) = None) ->
  pipe_recv s body = s.
Proof.
  intros [H|(id & H1 & H2)]; unfold pipe_recv.
  - rewrite H. reflexivity.
  - rewrite H1, H2. reflexivity.
Qed.


(* what `wire_id` accepts: bodies shorter than 4 bytes and ids without the survey bit are not accepted *)
Definition top : N := 2147483648.
Lemma top_eq : 2 ^ 31 = top. Proof. reflexivity. Qed.
Lemma wire_id_short body : (length body < 4)%nat -> wire_id body = None.
Proof. destruct body as [|a [|b [|c [|d r]]]]; cbn [length wire_id]; intro H; try reflexivity. lia. Qed.
Lemma wire_id_nobit a b c d r : be_dec [a; b; c; d] < 2 ^ 31 -> wire_id (a :: b :: c :: d :: r) = None.
Proof. intro H. cbn [wire_id]. destruct (N.leb_spec (2 ^ 31) (be_dec [a; b; c; d])); [lia|reflexivity]. Qed.
Lemma wire_id_hdr k payload : k < 2 ^ 31 -> wire_id (surv_hdr k ++ payload) = Some k.
Proof.
  rewrite top_eq. unfold top. intro H. unfold surv_hdr. rewrite top_eq. unfold top.
  assert (E : be_dec (be_enc 4 (2147483648 + k)) = 2147483648 + k).
  { apply be_dec_enc. change (256 ^ N.of_nat 4) with 4294967296. lia. }
  remember (be_enc 4 (2147483648 + k)) as l eqn:El.
  assert (L : length l = 4%nat) by (subst l; apply be_enc_length).
  destruct l as [|a [|b [|c [|d [|e r]]]]]; try discriminate L.
  cbn [app wire_id]. rewrite E, top_eq. unfold top.
  destruct (N.leb_spec 2147483648 (2147483648 + k)); [|lia]. f_equal. lia.
Qed.
Lemma wire_id_word body id : wire_id body = Some id -> be_dec (fst (split4 body)) = 2 ^ 31 + id.
Proof.
  destruct body as [|a [|b [|c [|d r]]]]; cbn [wire_id]; try discriminate.
  cbn [split4 fst]. rewrite !top_eq. unfold top. destruct (N.leb_spec 2147483648 (be_dec [a; b; c; d])); [|discriminate].
  intro E. injection E as E. lia.
Qed.

(* ---- (b) a response with a registered id goes to the survey registered under that id and nowhere else:
        it is appended to that survey's queue (if there is room), or handed to a Recv blocked on that very survey ---- *)
Lemma pipe_recv_matched s body id v :
  wire_id body = Some id -> aget id (survs s) = Some v ->
  ctxs (pipe_recv s body) = ctxs s /\
  (forall id', id' <> id -> aget id' (survs (pipe_recv s body)) = aget id' (survs s)) /\
  (aget id (survs (pipe_recv s body)) = Some v \/
   aget id (survs (pipe_recv s body)) = Some (v_with_q v (v_q v ++ [split4 body]))) /\
  (out (pipe_recv s body) = out s \/
   exists th, In th (threads s) /\ th_id th = id /\
              out (pipe_recv s body) = ORet (th_t th) (RMsg (fst (split4 body)) (snd (split4 body))) :: out s).
Proof.
  intros Hw Hv. unfold pipe_recv. rewrite Hw, Hv.
  destruct (filter (fun th => th_id th =? id) (threads s)) as [|th more] eqn:F.
  - destruct (nlen (v_q v) <? v_cap v).
    + cbn [set_survs ctxs survs out]. split; [reflexivity|]. split.
      * intros id' Hn. apply aget_aset_other, Hn.
      * split; [right; apply aget_aset_same|left; reflexivity].
    + split; [reflexivity|]. split; [reflexivity|]. split; [left; exact Hv|left; reflexivity].
  - assert (Hin : In th (filter (fun th => th_id th =? id) (threads s))) by (rewrite F; left; reflexivity).
    apply filter_In in Hin. destruct Hin as [Hin He]. apply N.eqb_eq in He.
    cbn. split; [reflexivity|]. split; [reflexivity|]. split; [left; exact Hv|].
    right. exists th. auto.
Qed.

(* ---- helper facts about cancel ---- *)
Definition ft_step (err : N) (s : sstate) (th : thread) : sstate := emit (stop_timer s (th_timer th)) (ORet (th_t th) (RErr err)).
Lemma ft_fold_fields err l : forall s,
  let s' := fold_left (ft_step err) l s in
  ctxs s' = ctxs s /\ survs s' = survs s /\ pipes s' = pipes s /\ threads s' = threads s /\ sclosed s' = sclosed s /\
  nsend s' = nsend s /\ filter is_tx (out s') = filter is_tx (out s).
Proof.
  induction l as [|th l IH]; intro s; cbn [fold_left].
  - repeat split; reflexivity.
  - specialize (IH (ft_step err s th)). cbn zeta in IH. destruct IH as (A & B & C & D & E & F & G).
    rewrite A, B, C, D, E, F, G. repeat split; reflexivity.
Qed.
Lemma adel_absent {V} k (l : list (N * V)) : aget k l = None -> adel k l = l.
Proof.
  induction l as [|[k' v'] l IH]; cbn [aget adel]; [reflexivity|].
  destruct (N.eqb_spec k k'); [discriminate|]. intro H. rewrite IH by exact H. reflexivity.
Qed.
Lemma cancel_fields s id err :
  survs (cancel s id err) = adel id (survs s) /\ pipes (cancel s id err) = pipes s /\ sclosed (cancel s id err) = sclosed s /\
  nsend (cancel s id err) = nsend s /\ filter is_tx (out (cancel s id err)) = filter is_tx (out s).
Proof.
  unfold cancel. destruct (aget id (survs s)) as [v|] eqn:E.
  - unfold fail_threads.
    match goal with |- context [fold_left ?f ?l ?s0] =>
      change f with (ft_step err); pose proof (ft_fold_fields err l s0) as H end.
    cbn zeta in H. destruct H as (A & B & C & D & E' & F & G).
    rewrite B, C, E', F, G. cbn [set_threads survs pipes sclosed nsend out set_survs].
    destruct (aget (v_ctx v) (ctxs (stop_timer s (v_timer v)))) as [x|]; [destruct (opt_is (x_surv x) id)|];
      repeat split; reflexivity.
  - rewrite adel_absent by exact E. repeat split; reflexivity.
Qed.

(* ---- (c) starting a new survey unregisters the context's previous survey ---- *)
Lemma send_unregisters_previous fixed s t c h body x k :
  aget c (ctxs s) = Some x -> sclosed s = false -> x_closed x = false -> x_surv x = Some k ->
  aget k (survs (do_call fixed s t (CSend c h body))) = None.
Proof.
  intros Hx Hs Hc Hk. cbn [do_call].
  cbn [set_misc ctxs sclosed]. rewrite Hx, Hs, Hc. cbn [orb]. rewrite Hk.
  set (s0 := set_misc s false (wqlen s) (nsend s + 1) (now s) (ambig s)).
  set (id := nsend s0).
  assert (K : forall s1 : sstate, aget k (survs (cancel s1 k ECanceled)) = None).
  { intro s1. destruct (cancel_fields s1 k ECanceled) as (A & _). rewrite A. apply aget_adel_same. }
  destruct (0 <? x_survExp x)%Z eqn:Epos.
  - unfold arm. cbn [orb].
    match goal with |- context [bcast ?a ?b ?l] => destruct (bcast a b l) as [ps os] end.
    cbn [emit emits set_pipes survs]. apply K.
  - cbn [orb].
    match goal with |- context [bcast ?a ?b ?l] => destruct (bcast a b l) as [ps os] end.
    destruct (fixed && (x_survExp x =? 0)%Z).
    + cbn [emit emits set_pipes survs]. apply K.
    + match goal with |- aget k (survs (cancel ?s1 ?i ?e)) = None => destruct (cancel_fields s1 i e) as (A & _); rewrite A end.
      apply aget_adel_none. cbn [emit emits set_pipes survs]. apply K.
Qed.

(* so a late response to the abandoned survey falls under (a) *)
Lemma late_response_dropped fixed s t c h body x k payload :
  aget c (ctxs s) = Some x -> sclosed s = false -> x_closed x = false -> x_surv x = Some k -> k < 2 ^ 31 ->
  let s' := do_call fixed s t (CSend c h body) in
  pipe_recv s' (surv_hdr k ++ payload) = s'.
Proof.
  intros Hx Hs Hc Hk Hlt s'. apply pipe_recv_unmatched. right. exists k. split.
  - apply wire_id_hdr, Hlt.
  - subst s'. eapply send_unregisters_previous; eassumption.
Qed.

(* ---- (d) the broadcast: exactly one transmission, with the same bytes, per pipe whose sender is idle; a pipe whose
        sender is stuck in a held send gets the message queued if its queue has room; nothing else happens ---- *)
Definition idle (pp : spipe) : bool := negb (pp_busy pp).
Lemma bcast_tx h b l : snd (bcast h b l) = map (fun pp => OTx (pp_id pp) h b) (filter idle l).
Proof.
  induction l as [|pp l IH]; cbn [bcast filter map snd]; [reflexivity|].
  destruct (bcast h b l) as [r' os] eqn:B. cbn [snd] in IH. subst os.
  unfold push1, idle. destruct (pp_busy pp); cbn [negb snd app map]; reflexivity.
Qed.
Lemma bcast_pipes h b l : fst (bcast h b l) = map (fun pp => fst (push1 h b pp)) l.
Proof.
  induction l as [|pp l IH]; cbn [bcast map fst]; [reflexivity|].
  destruct (bcast h b l) as [r' os] eqn:B. cbn [fst] in IH. subst r'.
  destruct (push1 h b pp) as [pp' o]. reflexivity.
Qed.
Lemma bcast_same_bytes h b l : Forall (fun o => exists p, o = OTx p h b) (snd (bcast h b l)).
Proof. rewrite bcast_tx. apply Forall_forall. intros o Ho. apply in_map_iff in Ho. destruct Ho as (pp & <- & _). eauto. Qed.
Lemma push1_queue h b pp :
  pp_q (fst (push1 h b pp)) = if pp_busy pp && (nlen (pp_q pp) <? pp_cap pp) then pp_q pp ++ [(h, b)] else pp_q pp.
Proof. unfold push1. destruct (pp_busy pp); cbn [andb]; [destruct (nlen (pp_q pp) <? pp_cap pp)|]; reflexivity. Qed.

Lemma filter_tx_rev_map h b (l : list spipe) :
  filter is_tx (rev (map (fun pp => OTx (pp_id pp) h b) l)) = rev (map (fun pp => OTx (pp_id pp) h b) l).
Proof.
  induction l as [|pp l IH]; cbn [map rev]; [reflexivity|].
  rewrite filter_app, IH. reflexivity.
Qed.

(* the SendMsg step as a whole: the transmissions of the step are exactly those *)
Lemma send_transmits fixed s t c h body x :
  aget c (ctxs s) = Some x -> sclosed s = false -> x_closed x = false ->
  filter is_tx (out (do_call fixed s t (CSend c h body))) =
  rev (map (fun pp => OTx (pp_id pp) (surv_hdr (nsend s + 1)) body) (filter idle (pipes s))) ++ filter is_tx (out s).
Proof.
  intros Hx Hs Hc. cbn [do_call]. cbn [set_misc ctxs sclosed]. rewrite Hx, Hs, Hc. cbn [orb].
  set (s0 := set_misc s false (wqlen s) (nsend s + 1) (now s) (ambig s)).
  assert (Q : forall s1 : sstate, pipes s1 = pipes s -> filter is_tx (out s1) = filter is_tx (out s) ->
     forall ps os, bcast (surv_hdr (nsend s + 1)) body (pipes s1) = (ps, os) ->
     filter is_tx (out (emit (emits (set_pipes s1 ps) os) (ORet t ROk))) =
     rev (map (fun pp => OTx (pp_id pp) (surv_hdr (nsend s + 1)) body) (filter idle (pipes s))) ++ filter is_tx (out s)).
  { intros s1 Hp Ho ps os B. cbn [emit emits set_pipes out filter is_tx].
    rewrite filter_app, Ho. f_equal.
    assert (os = snd (bcast (surv_hdr (nsend s + 1)) body (pipes s1))) as -> by (rewrite B; reflexivity).
    rewrite bcast_tx, Hp. apply filter_tx_rev_map. }
  assert (C : forall s1 k e, pipes (cancel s1 k e) = pipes s1 /\ filter is_tx (out (cancel s1 k e)) = filter is_tx (out s1)).
  { intros s1 k e. destruct (cancel_fields s1 k e) as (_ & A & _ & _ & B). auto. }
  destruct (0 <? x_survExp x)%Z eqn:Epos; cbn [orb]; unfold arm.
  - match goal with |- context [bcast ?a ?b (pipes ?s1)] => destruct (bcast a b (pipes s1)) as [ps os] eqn:B; revert B; set (sx := s1) end.
    intro B. apply (Q sx); [| |exact B]; subst sx.
    + destruct (x_surv x) as [o|]; [rewrite (proj1 (C _ o ECanceled))|]; reflexivity.
    + destruct (x_surv x) as [o|]; [rewrite (proj2 (C _ o ECanceled))|]; reflexivity.
  - match goal with |- context [bcast ?a ?b (pipes ?s1)] => destruct (bcast a b (pipes s1)) as [ps os] eqn:B; revert B; set (sx := s1) end.
    intro B.
    assert (R : filter is_tx (out (emit (emits (set_pipes sx ps) os) (ORet t ROk))) =
                rev (map (fun pp => OTx (pp_id pp) (surv_hdr (nsend s + 1)) body) (filter idle (pipes s))) ++ filter is_tx (out s)).
    { apply (Q sx); [| |exact B]; subst sx.
      + destruct (x_surv x) as [o|]; [rewrite (proj1 (C _ o ECanceled))|]; reflexivity.
      + destruct (x_surv x) as [o|]; [rewrite (proj2 (C _ o ECanceled))|]; reflexivity. }
    destruct (fixed && (x_survExp x =? 0)%Z); [exact R|].
    rewrite (proj2 (C _ _ _)). exact R.
Qed.

(* ---- (e) Recv with no current survey: protocol-state error at once, nobody becomes blocked ---- *)
Lemma recv_without_survey fixed s t c x :
  aget c (ctxs s) = Some x -> sclosed s = false -> x_surv x = None ->
  do_call fixed s t (CRecv c) = emit s (ORet t (RErr EProtoState)).
Proof. intros Hx Hs Hv. cbn [do_call]. rewrite Hx, Hs, Hv. reflexivity. Qed.
Lemma recv_without_survey_blocked fixed s t c x :
  aget c (ctxs s) = Some x -> sclosed s = false -> x_surv x = None ->
  blocked (do_call fixed s t (CRecv c)) = blocked s.
Proof. intros Hx Hs Hv. rewrite (recv_without_survey fixed s t c x Hx Hs Hv). reflexivity. Qed.

(* ================= an invariant over all histories ================= *)
Definition is_msg (o : obs) : bool := match o with ORet _ (RMsg _ _) => true | _ => false end.
Definition msgs (l : list obs) : list obs := filter is_msg l.

(* every blocked Recv waits on its context's current survey, and that survey is registered *)
Definition T (cx : list (N * sctx)) (sv : list (N * survey)) (th : thread) : Prop :=
  (exists x, aget (th_c th) cx = Some x /\ x_surv x = Some (th_id th)) /\ (exists v, aget (th_id th) sv = Some v).
(* every queued response carries the id of the survey whose queue it is in *)
Definition Q3 (sv : list (N * survey)) : Prop :=
  forall id v h b, aget id sv = Some v -> In (h, b) (v_q v) -> be_dec h = 2 ^ 31 + id.
Definition Fresh (sv : list (N * survey)) (n : N) : Prop := forall id v, aget id sv = Some v -> id <= n.
Definition Inv (s : sstate) : Prop :=
  Forall (T (ctxs s) (survs s)) (threads s) /\ Q3 (survs s) /\ Fresh (survs s) (nsend s).

Definition same4 (s s' : sstate) : Prop :=
  ctxs s' = ctxs s /\ survs s' = survs s /\ threads s' = threads s /\ nsend s' = nsend s /\ msgs (out s') = msgs (out s).
Lemma same4_refl s : same4 s s. Proof. repeat split; reflexivity. Qed.
Lemma same4_trans a b c : same4 a b -> same4 b c -> same4 a c.
Proof. intros (A1 & A2 & A3 & A4 & A5) (B1 & B2 & B3 & B4 & B5). repeat split; congruence. Qed.
Lemma Inv_same4 s s' : same4 s s' -> Inv s -> Inv s'.
Proof. intros (A & B & C & D & _) (I1 & I2 & I3). unfold Inv. rewrite A, B, C, D. auto. Qed.

Lemma aget_adel_some {V} k j (l : list (N * V)) v : aget k (adel j l) = Some v -> aget k l = Some v /\ k <> j.
Proof.
  intro H. destruct (N.eq_dec k j) as [->|Hn].
  - rewrite aget_adel_same in H. discriminate.
  - rewrite aget_adel_other in H by exact Hn. auto.
Qed.

Lemma ft_fold_same4 err l : forall s, (forall th, In th l -> True) -> same4 s (fold_left (ft_step err) l s).
Proof.
  induction l as [|th l IH]; intros s _; cbn [fold_left]; [apply same4_refl|].
  eapply same4_trans; [|apply IH; auto]. repeat split; reflexivity.
Qed.

(* the fields of the state after cancelling a registered survey *)
Lemma cancel_reg s id err v :
  aget id (survs s) = Some v ->
  threads (cancel s id err) = filter (fun th => negb (th_id th =? id)) (threads s) /\
  survs (cancel s id err) = adel id (survs s) /\
  ctxs (cancel s id err) = match aget (v_ctx v) (ctxs s) with
                           | Some x => if opt_is (x_surv x) id then aset (v_ctx v) (x_with_surv x None) (ctxs s) else ctxs s
                           | None => ctxs s
                           end /\
  nsend (cancel s id err) = nsend s /\ msgs (out (cancel s id err)) = msgs (out s).
Proof.
  intro E. unfold cancel. rewrite E. unfold fail_threads.
  match goal with |- context [fold_left ?f ?l ?s0] =>
    change f with (ft_step err); pose proof (ft_fold_same4 err l s0 (fun _ _ => I)) as H end.
  destruct H as (A & B & C & D & M). rewrite A, B, C, D, M.
  cbn [set_threads threads survs ctxs nsend out set_survs].
  cbn [stop_timer set_timers ctxs].
  destruct (aget (v_ctx v) (ctxs s)) as [x|]; [destruct (opt_is (x_surv x) id)|]; repeat split; reflexivity.
Qed.
Lemma cancel_unreg s id err : aget id (survs s) = None -> cancel s id err = s.
Proof. intro E. unfold cancel. rewrite E. reflexivity. Qed.

Lemma opt_is_some k j : opt_is (Some k) j = (k =? j). Proof. reflexivity. Qed.

(* cancelling survey id restores the thread invariant even if the threads blocked on id violated it *)
Lemma cancel_Inv_weak s id err :
  (forall th, In th (threads s) -> th_id th <> id -> T (ctxs s) (survs s) th) ->
  (aget id (survs s) = None -> Forall (T (ctxs s) (survs s)) (threads s)) ->
  Q3 (survs s) -> Fresh (survs s) (nsend s) -> Inv (cancel s id err).
Proof.
  intros HT Hnone HQ HF. destruct (aget id (survs s)) as [v|] eqn:E.
  - destruct (cancel_reg s id err v E) as (A & B & C & D & _). unfold Inv. rewrite A, B, C, D. split; [|split].
    + apply Forall_forall. intros th Hin. apply filter_In in Hin. destruct Hin as [Hin Hne].
      apply negb_true_iff, N.eqb_neq in Hne. destruct (HT th Hin Hne) as ((x & Hx & Hs) & (v' & Hv')).
      split.
      * destruct (aget (v_ctx v) (ctxs s)) as [x0|] eqn:E0; [|eauto].
        destruct (opt_is (x_surv x0) id) eqn:Eo; [|eauto].
        destruct (N.eq_dec (th_c th) (v_ctx v)) as [Heq|Hn].
        -- rewrite Heq, E0 in Hx. inversion Hx; subst x0. rewrite Hs, opt_is_some in Eo.
           apply N.eqb_eq in Eo. contradiction.
        -- exists x. rewrite aget_aset_other by exact Hn. auto.
      * exists v'. rewrite aget_adel_other by exact Hne. exact Hv'.
    + intros id' v' h b Hg Hin. apply aget_adel_some in Hg. destruct Hg as [Hg _]. eapply HQ; eassumption.
    + intros id' v' Hg. apply aget_adel_some in Hg. destruct Hg as [Hg _]. eapply HF; eassumption.
  - rewrite cancel_unreg by exact E. unfold Inv. auto.
Qed.
Lemma cancel_Inv s id err : Inv s -> Inv (cancel s id err).
Proof.
  intros (I1 & I2 & I3). apply cancel_Inv_weak; auto.
  intros th Hin _. rewrite Forall_forall in I1. apply I1, Hin.
Qed.
Lemma cancel_msgs s id err : msgs (out (cancel s id err)) = msgs (out s).
Proof.
  destruct (aget id (survs s)) as [v|] eqn:E.
  - apply (cancel_reg s id err v E).
  - rewrite cancel_unreg by exact E. reflexivity.
Qed.

(* changing a context without touching its current survey *)
Lemma set_ctx_Inv s c x x' :
  aget c (ctxs s) = Some x -> x_surv x' = x_surv x -> Inv s -> Inv (set_ctx s c x').
Proof.
  intros Hx Hs (I1 & I2 & I3). unfold Inv. cbn [set_ctx set_ctxs ctxs survs threads nsend]. split; [|auto].
  apply Forall_forall. intros th Hin. rewrite Forall_forall in I1. destruct (I1 th Hin) as ((y & Hy & Hys) & Hv).
  split; [|exact Hv]. destruct (N.eq_dec (th_c th) c) as [Heq|Hn].
  - exists x'. rewrite Heq, aget_aset_same. split; [reflexivity|]. rewrite Heq, Hx in Hy. inversion Hy; subst y. congruence.
  - exists y. rewrite aget_aset_other by exact Hn. auto.
Qed.
Lemma set_ctx_new_Inv s c x' : aget c (ctxs s) = None -> Inv s -> Inv (set_ctx s c x').
Proof.
  intros Hx (I1 & I2 & I3). unfold Inv. cbn [set_ctx set_ctxs ctxs survs threads nsend]. split; [|auto].
  apply Forall_forall. intros th Hin. rewrite Forall_forall in I1. destruct (I1 th Hin) as ((y & Hy & Hys) & Hv).
  split; [|exact Hv]. exists y. rewrite aget_aset_other; [auto|]. intro Heq. rewrite Heq, Hx in Hy. discriminate.
Qed.

Lemma close_ctx_Inv s c : Inv s -> Inv (close_ctx s c).
Proof.
  intro HI. unfold close_ctx. destruct (aget c (ctxs s)) as [x|] eqn:E; [|exact HI].
  destruct (x_closed x); [exact HI|].
  assert (H1 : Inv (set_ctx s c (x_with_closed x true))) by (eapply set_ctx_Inv; [exact E|reflexivity|exact HI]).
  destruct (x_surv x); [apply cancel_Inv, H1|exact H1].
Qed.
Lemma close_ctx_msgs s c : msgs (out (close_ctx s c)) = msgs (out s).
Proof.
  unfold close_ctx. destruct (aget c (ctxs s)) as [x|]; [|reflexivity]. destruct (x_closed x); [reflexivity|].
  destruct (x_surv x); [rewrite cancel_msgs|]; reflexivity.
Qed.
Lemma close_all_Inv (l : list (N * sctx)) : forall s, Inv s ->
  Inv (fold_left (fun s cx => close_ctx s (fst cx)) l s) /\
  msgs (out (fold_left (fun s cx => close_ctx s (fst cx)) l s)) = msgs (out s).
Proof.
  induction l as [|cx l IH]; intros s HI; cbn [fold_left]; [auto|].
  destruct (IH (close_ctx s (fst cx)) (close_ctx_Inv s (fst cx) HI)) as [A B]. split; [exact A|].
  rewrite B. apply close_ctx_msgs.
Qed.

(* ---- the receiver ---- *)
Lemma T_sub_survs cx sv sv' th : (forall k v, aget k sv = Some v -> exists v', aget k sv' = Some v') -> T cx sv th -> T cx sv' th.
Proof. intros H (A & (v & Hv)). split; [exact A|]. eapply H, Hv. Qed.

Lemma pipe_recv_Inv s body : Inv s -> Inv (pipe_recv s body).
Proof.
  intros (I1 & I2 & I3). unfold pipe_recv.
  destruct (wire_id body) as [id|] eqn:Ew; [|unfold Inv; auto].
  destruct (aget id (survs s)) as [v|] eqn:Ev; [|unfold Inv; auto].
  destruct (filter (fun th => th_id th =? id) (threads s)) as [|th more] eqn:F.
  - destruct (nlen (v_q v) <? v_cap v); [|unfold Inv; auto].
    unfold Inv. cbn [set_survs ctxs survs threads nsend]. split; [|split].
    + eapply Forall_impl; [|exact I1]. intros a. apply T_sub_survs. intros k v0 Hk.
      destruct (N.eq_dec k id) as [->|Hn]; [rewrite aget_aset_same; eauto|rewrite aget_aset_other by exact Hn; eauto].
    + intros k v0 h b Hk Hin. destruct (N.eq_dec k id) as [->|Hn].
      * rewrite aget_aset_same in Hk. inversion Hk; subst v0. cbn [v_with_q v_q] in Hin. apply in_app_or in Hin.
        destruct Hin as [Hin|[Hin|[]]]; [eapply I2; eassumption|].
        pose proof (wire_id_word body id Ew) as W. rewrite Hin in W. exact W.
      * rewrite aget_aset_other in Hk by exact Hn. eapply I2; eassumption.
    + intros k v0 Hk. destruct (N.eq_dec k id) as [->|Hn]; [eapply I3; exact Ev|].
      rewrite aget_aset_other in Hk by exact Hn. eapply I3; exact Hk.
  - unfold Inv. cbn [emit set_now set_misc stop_timer set_timers set_threads ctxs survs threads nsend]. split; [|auto].
    apply Forall_forall. intros a Hin. apply filter_In in Hin. destruct Hin as [Hin _].
    rewrite Forall_forall in I1. apply I1, Hin.
Qed.

(* ---- API calls ---- *)
Lemma Inv_fields s s' : ctxs s' = ctxs s -> survs s' = survs s -> threads s' = threads s -> nsend s' = nsend s -> Inv s -> Inv s'.
Proof. intros A B C D (I1 & I2 & I3). unfold Inv. rewrite A, B, C, D. auto. Qed.

Lemma Inv_fields_le s s' : ctxs s' = ctxs s -> survs s' = survs s -> threads s' = threads s -> nsend s <= nsend s' -> Inv s -> Inv s'.
Proof.
  intros A B C D (I1 & I2 & I3). unfold Inv. rewrite A, B, C. split; [exact I1|split; [exact I2|]].
  intros k v Hk. specialize (I3 k v Hk). lia.
Qed.

Lemma send_Inv fixed s t c h body : Inv s -> Inv (do_call fixed s t (CSend c h body)).
Proof.
  intros HI. pose proof HI as (I1 & I2 & I3). cbn [do_call]. cbn [set_misc ctxs sclosed nsend].
  destruct (aget c (ctxs s)) as [x|] eqn:Ex.
  2:{ apply (Inv_fields_le s); [reflexivity|reflexivity|reflexivity| |exact HI]. cbn [emit set_misc nsend]. lia. }
  destruct (sclosed s || x_closed x).
  { apply (Inv_fields_le s); [reflexivity|reflexivity|reflexivity| |exact HI]. cbn [emit set_misc nsend]. lia. }
  (* the state after start(): the new survey registered and made current; only the timer field depends on the option *)
  assert (MAIN : forall (s1 : sstate) tm, ctxs s1 = ctxs s -> survs s1 = survs s -> threads s1 = threads s -> nsend s1 = nsend s + 1 ->
     let s2 := set_ctx (set_survs s1 (aset (nsend s + 1) {| v_ctx := c; v_cap := x_rqlen x; v_q := []; v_timer := tm |} (survs s1)))
                       c (x_with_surv x (Some (nsend s + 1))) in
     Inv (match x_surv x with Some o => cancel s2 o ECanceled | None => s2 end)).
  { intros s1 tm A B C D s2.
    assert (Hfresh : forall th, In th (threads s) -> th_id th <> nsend s + 1).
    { intros th Hin. rewrite Forall_forall in I1. destruct (I1 th Hin) as (_ & (v & Hv)). specialize (I3 _ _ Hv). lia. }
    assert (Q2 : Q3 (survs s2)).
    { subst s2. cbn [set_ctx set_ctxs set_survs survs]. rewrite B. intros k v hh bb Hk Hin.
      destruct (N.eq_dec k (nsend s + 1)) as [->|Hn].
      - rewrite aget_aset_same in Hk. inversion Hk; subst v. destruct Hin.
      - rewrite aget_aset_other in Hk by exact Hn. eapply I2; eassumption. }
    assert (F2 : Fresh (survs s2) (nsend s2)).
    { subst s2. cbn [set_ctx set_ctxs set_survs survs nsend]. rewrite B, D. intros k v Hk.
      destruct (N.eq_dec k (nsend s + 1)) as [->|Hn]; [lia|].
      rewrite aget_aset_other in Hk by exact Hn. specialize (I3 _ _ Hk). lia. }
    (* threads of other contexts are unaffected *)
    assert (TO : forall th, In th (threads s) -> th_c th <> c -> T (ctxs s2) (survs s2) th).
    { intros th Hin Hn. rewrite Forall_forall in I1. destruct (I1 th Hin) as ((y & Hy & Hys) & (v & Hv)).
      subst s2. cbn [set_ctx set_ctxs set_survs survs ctxs]. rewrite A, B. split.
      - exists y. rewrite aget_aset_other by exact Hn. auto.
      - exists v. rewrite aget_aset_other by (apply Hfresh, Hin). exact Hv. }
    (* threads of context c wait on its previous survey *)
    assert (TC : forall th, In th (threads s) -> th_c th = c -> x_surv x = Some (th_id th)).
    { intros th Hin Heq. rewrite Forall_forall in I1. destruct (I1 th Hin) as ((y & Hy & Hys) & _).
      rewrite Heq, Ex in Hy. inversion Hy; subst y. exact Hys. }
    assert (Th2 : threads s2 = threads s) by (subst s2; cbn [set_ctx set_ctxs set_survs threads]; exact C).
    destruct (x_surv x) as [o|] eqn:Eo.
    - apply cancel_Inv_weak; [| |exact Q2|exact F2].
      + rewrite Th2. intros th Hin Hne. apply TO; [exact Hin|]. intro Heq. specialize (TC th Hin Heq). inversion TC. congruence.
      + rewrite Th2. intro Hnone. apply Forall_forall. intros th Hin. apply TO; [exact Hin|]. intro Heq.
        specialize (TC th Hin Heq). inversion TC; subst o.
        rewrite Forall_forall in I1. destruct (I1 th Hin) as (_ & (v & Hv)).
        subst s2. cbn [set_ctx set_ctxs set_survs survs] in Hnone. rewrite B in Hnone.
        rewrite aget_aset_other in Hnone by (apply Hfresh, Hin). congruence.
    - unfold Inv. rewrite Th2. split; [|auto]. apply Forall_forall. intros th Hin. apply TO; [exact Hin|].
      intro Heq. specialize (TC th Hin Heq). discriminate. }
  assert (TAIL : forall (s3 : sstate), Inv s3 -> forall ps os,
     Inv (emit (emits (set_pipes s3 ps) os) (ORet t ROk))).
  { intros s3 H3 ps os. apply (Inv_fields s3); [reflexivity|reflexivity|reflexivity|reflexivity|exact H3]. }
  destruct (0 <? x_survExp x)%Z eqn:Epos; cbn [orb]; unfold arm.
  - match goal with |- context [bcast ?a ?b (pipes ?s1)] => destruct (bcast a b (pipes s1)) as [ps os] end.
    apply TAIL. apply (MAIN _ _); reflexivity.
  - match goal with |- context [bcast ?a ?b (pipes ?s1)] => destruct (bcast a b (pipes s1)) as [ps os] end.
    destruct (fixed && (x_survExp x =? 0)%Z).
    + apply TAIL. apply (MAIN _ _); reflexivity.
    + apply cancel_Inv. apply TAIL. apply (MAIN _ _); reflexivity.
Qed.

Lemma Forall_T_sub cx sv sv' l :
  (forall k v, aget k sv = Some v -> exists v', aget k sv' = Some v') -> Forall (T cx sv) l -> Forall (T cx sv') l.
Proof. intros H. apply Forall_impl. intro a. apply T_sub_survs, H. Qed.

Lemma recv_Inv fixed s t c : Inv s -> Inv (do_call fixed s t (CRecv c)).
Proof.
  intros HI. pose proof HI as (I1 & I2 & I3). cbn [do_call].
  destruct (aget c (ctxs s)) as [x|] eqn:Ex; [|apply (Inv_fields s); auto].
  destruct (sclosed s); [apply (Inv_fields s); auto|].
  destruct (x_surv x) as [id|] eqn:Es; [|apply (Inv_fields s); auto].
  destruct (aget id (survs s)) as [v|] eqn:Ev; [|apply (Inv_fields s); auto].
  destruct (v_q v) as [|m q'] eqn:Eq.
  - (* blocks *)
    assert (NEW : forall (s1 : sstate) tm, ctxs s1 = ctxs s -> survs s1 = survs s -> threads s1 = threads s -> nsend s1 = nsend s ->
              Inv (set_threads s1 (threads s1 ++ [{| th_t := t; th_c := c; th_id := id; th_timer := tm |}]))).
    { intros s1 tm A B C D. unfold Inv. cbn [set_threads ctxs survs threads nsend]. rewrite A, B, C, D. split; [|auto].
      apply Forall_app. split; [exact I1|]. constructor; [|constructor].
      split; cbn [th_c th_id]; eauto. }
    destruct (0 <? x_recvExp x)%Z; unfold arm; apply NEW; reflexivity.
  - apply (Inv_fields (set_survs s (aset id (v_with_q v q') (survs s)))); try reflexivity.
    unfold Inv. cbn [set_survs ctxs survs threads nsend]. split; [|split].
    + eapply Forall_T_sub; [|exact I1]. intros k v0 Hk.
      destruct (N.eq_dec k id) as [->|Hn]; [rewrite aget_aset_same; eauto|rewrite aget_aset_other by exact Hn; eauto].
    + intros k v0 hh bb Hk Hin. destruct (N.eq_dec k id) as [->|Hn].
      * rewrite aget_aset_same in Hk. inversion Hk; subst v0. cbn [v_with_q v_q] in Hin.
        eapply I2; [exact Ev|]. rewrite Eq. right. exact Hin.
      * rewrite aget_aset_other in Hk by exact Hn. eapply I2; eassumption.
    + intros k v0 Hk. destruct (N.eq_dec k id) as [->|Hn]; [eapply I3; exact Ev|].
      rewrite aget_aset_other in Hk by exact Hn. eapply I3; exact Hk.
Qed.

Lemma do_call_Inv fixed s t k : Inv s -> Inv (do_call fixed s t k).
Proof.
  intro HI. destruct k as [c h body|c|c o v arg|c|c|].
  - apply send_Inv, HI.
  - apply recv_Inv, HI.
  - cbn [do_call]. destruct (aget c (ctxs s)) as [x|] eqn:Ex; [|apply (Inv_fields s); auto].
    assert (OK : forall x', x_surv x' = x_surv x -> Inv (emit (set_ctx s c x') (ORet t ROk))).
    { intros x' Hs. apply (Inv_fields (set_ctx s c x')); try reflexivity. eapply set_ctx_Inv; eassumption. }
    destruct o; try (apply (Inv_fields s); auto; fail); try (apply OK; reflexivity).
    + destruct (0 <=? v)%Z; [apply OK; reflexivity|apply (Inv_fields s); auto].
    + destruct (c =? 0); [|apply (Inv_fields s); auto]. destruct (0 <=? v)%Z; apply (Inv_fields s); auto.
  - cbn [do_call]. destruct (sclosed s); [apply (Inv_fields s); auto|].
    destruct (aget c (ctxs s)) as [y|] eqn:Ec; [exact HI|]. destruct (aget 0 (ctxs s)) as [d|]; [|exact HI].
    match goal with |- Inv (emit ?s1 _) => apply (Inv_fields s1); try reflexivity end.
    apply set_ctx_new_Inv; assumption.
  - cbn [do_call]. destruct (aget c (ctxs s)) as [x|] eqn:Ex; [|apply (Inv_fields s); auto].
    destruct (x_closed x); [apply (Inv_fields s); auto|].
    apply (Inv_fields (close_ctx s c)); try reflexivity. apply close_ctx_Inv, HI.
  - cbn [do_call]. destruct (sclosed s); [apply (Inv_fields s); auto|].
    match goal with |- Inv (emit ?s1 _) => apply (Inv_fields s1); try reflexivity end.
    apply close_all_Inv. apply (Inv_fields s); auto.
Qed.

Lemma fire_Inv s tm : Inv s -> Inv (fire s tm).
Proof.
  intro HI. unfold fire. destruct (tm_kind tm) as [id|t]; [apply cancel_Inv, HI|].
  destruct (filter (fun th => th_t th =? t) (threads s)); [exact HI|].
  destruct HI as (I1 & I2 & I3). unfold Inv. cbn [emit set_threads ctxs survs threads nsend]. split; [|auto].
  apply Forall_forall. intros a Hin. apply filter_In in Hin. rewrite Forall_forall in I1. apply I1, Hin.
Qed.
Lemma fire_due_Inv fuel : forall s, Inv s -> Inv (fire_due fuel s).
Proof.
  induction fuel as [|f IH]; intros s HI; cbn [fire_due]; [exact HI|].
  destruct (earliest (filter (fun t => tm_due t <=? now s) (timers s)) None) as [tm|]; [|exact HI].
  apply IH, fire_Inv. apply (Inv_fields s); auto.
Qed.

Lemma Inv_set_now s nw amb : Inv s -> Inv (set_now s nw amb).
Proof. apply Inv_fields; reflexivity. Qed.

Lemma step_raw_Inv fixed s st : Inv s -> Inv (step_raw fixed s st).
Proof.
  intro HI. destruct st as [t k|p|p|p body|p hd|p ok|u|a]; cbn [step_raw].
  - apply do_call_Inv, HI.
  - destruct (sclosed s); [exact HI|apply (Inv_fields s); auto].
  - apply (Inv_fields s); auto.
  - destruct (find_pipe p (pipes s)); [apply pipe_recv_Inv, HI|apply (Inv_fields s); auto].
  - destruct (find_pipe p (pipes s)); [apply (Inv_fields s); auto|exact HI].
  - destruct (release_pipe p ok (pipes s)) as [ps os]. apply (Inv_fields s); auto.
  - apply Inv_set_now, fire_due_Inv, Inv_set_now, HI.
  - apply Inv_set_now, HI.
Qed.

Lemma Inv_init : Inv init.
Proof. unfold Inv. cbn [init ctxs survs threads nsend]. split; [constructor|split]; intros id v; cbn [aget]; discriminate. Qed.

(* the states the model can reach from the initial one, by any history *)
Inductive reachable (fixed : bool) : sstate -> Prop :=
| reach_init : reachable fixed init
| reach_step s st : reachable fixed s -> reachable fixed (fst (step fixed s st)).
Lemma reachable_Inv fixed s : reachable fixed s -> Inv s.
Proof.
  induction 1 as [|s st _ IH]; [apply Inv_init|].
  unfold step. cbn [fst]. apply step_raw_Inv. apply (Inv_fields s); auto.
Qed.

(* ---- which steps hand a message to the application, and which message ---- *)
Lemma msgs_app a b : msgs (a ++ b) = msgs a ++ msgs b. Proof. apply filter_app. Qed.
Lemma msgs_rev_none os : (forall o, In o os -> is_msg o = false) -> msgs (rev os) = [].
Proof.
  intro H. induction os as [|o os IH]; cbn [rev]; [reflexivity|].
  rewrite msgs_app, IH by (intros o' Ho'; apply H; right; exact Ho'). cbn [msgs filter app].
  rewrite (H o) by (left; reflexivity). reflexivity.
Qed.
Lemma msgs_emits s os : (forall o, In o os -> is_msg o = false) -> msgs (out (emits s os)) = msgs (out s).
Proof. intro H. cbn [emits out]. rewrite msgs_app, msgs_rev_none by exact H. reflexivity. Qed.

Lemma bcast_nomsg h b l o : In o (snd (bcast h b l)) -> is_msg o = false.
Proof. rewrite bcast_tx. intro H. apply in_map_iff in H. destruct H as (pp & <- & _). reflexivity. Qed.
Lemma drain1_nomsg fuel : forall pp o, In o (snd (drain1 fuel pp)) -> is_msg o = false.
Proof.
  induction fuel as [|f IH]; intros pp o; cbn [drain1]; [intros []|].
  destruct (pp_busy pp); [intros []|]. destruct (pp_q pp) as [|[h b] q']; [intros []|].
  destruct (drain1 f (pp_with pp (pp_hold pp) q')) as [pp' os] eqn:E. cbn [snd]. intros [<-|H]; [reflexivity|].
  apply (IH (pp_with pp (pp_hold pp) q')). rewrite E. exact H.
Qed.
Lemma release_nomsg p ok l o : In o (snd (release_pipe p ok l)) -> is_msg o = false.
Proof.
  unfold release_pipe. destruct (find_pipe p l) as [pp|]; [|intros []].
  destruct (pp_busy pp); [|intros []]. destruct ok; [|intros []].
  destruct (drain1 (S (length (pp_q pp))) (pp_with pp false (pp_q pp))) as [pp' os] eqn:E. cbn [snd]. intro H.
  apply (drain1_nomsg (S (length (pp_q pp))) (pp_with pp false (pp_q pp))). rewrite E. exact H.
Qed.

Lemma send_msgs fixed s t c h body : msgs (out (do_call fixed s t (CSend c h body))) = msgs (out s).
Proof.
  cbn [do_call]. cbn [set_misc ctxs sclosed nsend].
  destruct (aget c (ctxs s)) as [x|]; [|reflexivity]. destruct (sclosed s || x_closed x); [reflexivity|].
  assert (TAIL : forall (s3 : sstate), msgs (out s3) = msgs (out s) -> forall ps os,
     bcast (surv_hdr (nsend s + 1)) body (pipes s3) = (ps, os) ->
     msgs (out (emit (emits (set_pipes s3 ps) os) (ORet t ROk))) = msgs (out s)).
  { intros s3 H3 ps os B. cbn [emit out msgs filter is_msg]. fold (msgs (out (emits (set_pipes s3 ps) os))).
    rewrite msgs_emits; [exact H3|]. intros o Ho. apply (bcast_nomsg (surv_hdr (nsend s + 1)) body (pipes s3)). rewrite B. exact Ho. }
  assert (OLD : forall (s2 : sstate), msgs (out s2) = msgs (out s) ->
     msgs (out (match x_surv x with Some o => cancel s2 o ECanceled | None => s2 end)) = msgs (out s)).
  { intros s2 H2. destruct (x_surv x); [rewrite cancel_msgs|]; exact H2. }
  destruct (0 <? x_survExp x)%Z; cbn [orb]; unfold arm.
  - match goal with |- context [bcast ?a ?b (pipes ?s1)] => destruct (bcast a b (pipes s1)) as [ps os] eqn:B end.
    eapply TAIL; [|exact B]. apply OLD. reflexivity.
  - match goal with |- context [bcast ?a ?b (pipes ?s1)] => destruct (bcast a b (pipes s1)) as [ps os] eqn:B end.
    destruct (fixed && (x_survExp x =? 0)%Z); [|rewrite cancel_msgs]; (eapply TAIL; [|exact B]; apply OLD; reflexivity).
Qed.

Lemma fire_msgs s tm : msgs (out (fire s tm)) = msgs (out s).
Proof.
  unfold fire. destruct (tm_kind tm); [apply cancel_msgs|].
  destruct (filter (fun th => th_t th =? t) (threads s)); reflexivity.
Qed.
Lemma fire_due_msgs fuel : forall s, msgs (out (fire_due fuel s)) = msgs (out s).
Proof.
  induction fuel as [|f IH]; intro s; cbn [fire_due]; [reflexivity|].
  destruct (earliest (filter (fun t => tm_due t <=? now s) (timers s)) None) as [tm|]; [|reflexivity].
  rewrite IH, fire_msgs. reflexivity.
Qed.

Lemma set_now_out s nw amb : out (set_now s nw amb) = out s. Proof. reflexivity. Qed.

(* what the application may get from one step in state s: a response carrying the id of the current, registered survey
   of the context on which the call t is (or was) made *)
Definition current_response (s : sstate) (st : stim) (t : N) (h : bytes) : Prop :=
  exists c id x v, be_dec h = 2 ^ 31 + id /\ aget c (ctxs s) = Some x /\ x_surv x = Some id /\ aget id (survs s) = Some v /\
                   (st = SCall t (CRecv c) \/ exists th, In th (threads s) /\ th_t th = t /\ th_c th = c).

Lemma step_msgs fixed s st t h b :
  Inv s -> out s = [] -> In (ORet t (RMsg h b)) (out (step_raw fixed s st)) -> current_response s st t h.
Proof.
  intros (I1 & I2 & I3) Ho Hin.
  assert (Hm : In (ORet t (RMsg h b)) (msgs (out (step_raw fixed s st)))) by (apply filter_In; split; [exact Hin|reflexivity]).
  clear Hin. assert (E0 : msgs (out s) = []) by (rewrite Ho; reflexivity).
  destruct st as [t' k|p|p|p body|p hd|p ok|u|a]; cbn [step_raw] in Hm.
  - destruct k as [c hh body|c|c o v arg|c|c|].
    + rewrite send_msgs, E0 in Hm. destruct Hm.
    + cbn [do_call] in Hm.
      destruct (aget c (ctxs s)) as [x|] eqn:Ex; [|cbn [emit out msgs filter is_msg] in Hm; fold (msgs (out s)) in Hm; rewrite E0 in Hm; destruct Hm].
      destruct (sclosed s); [cbn [emit out msgs filter is_msg] in Hm; fold (msgs (out s)) in Hm; rewrite E0 in Hm; destruct Hm|].
      destruct (x_surv x) as [id|] eqn:Es; [|cbn [emit out msgs filter is_msg] in Hm; fold (msgs (out s)) in Hm; rewrite E0 in Hm; destruct Hm].
      destruct (aget id (survs s)) as [v|] eqn:Ev; [|cbn [emit out msgs filter is_msg] in Hm; fold (msgs (out s)) in Hm; rewrite E0 in Hm; destruct Hm].
      destruct (v_q v) as [|m q'] eqn:Eq.
      * destruct (0 <? x_recvExp x)%Z; unfold arm in Hm; cbn [set_threads set_timers out] in Hm; rewrite E0 in Hm; destruct Hm.
      * destruct m as [mh mb]. cbn [emit set_survs out msgs filter is_msg fst snd] in Hm. fold (msgs (out s)) in Hm. rewrite E0 in Hm.
        destruct Hm as [Hm|[]]. inversion Hm; subst t' h b.
        exists c, id, x, v. split; [|auto 6]. apply (I2 id v mh mb Ev). rewrite Eq. left. reflexivity.
    + cbn [do_call] in Hm. destruct (aget c (ctxs s)) as [x|];
        [|cbn [emit out msgs filter is_msg] in Hm; fold (msgs (out s)) in Hm; rewrite E0 in Hm; destruct Hm].
      destruct o; try destruct (0 <=? v)%Z; try destruct (c =? 0); try destruct (0 <=? v)%Z;
        cbn [emit set_ctx set_ctxs set_misc out msgs filter is_msg] in Hm; fold (msgs (out s)) in Hm; rewrite E0 in Hm; destruct Hm.
    + cbn [do_call] in Hm. destruct (sclosed s);
        [cbn [emit out msgs filter is_msg] in Hm; fold (msgs (out s)) in Hm; rewrite E0 in Hm; destruct Hm|].
      destruct (aget c (ctxs s)); [rewrite E0 in Hm; destruct Hm|]. destruct (aget 0 (ctxs s)); [|rewrite E0 in Hm; destruct Hm].
      cbn [emit set_ctx set_ctxs out msgs filter is_msg] in Hm; fold (msgs (out s)) in Hm; rewrite E0 in Hm; destruct Hm.
    + cbn [do_call] in Hm. destruct (aget c (ctxs s)) as [x|];
        [|cbn [emit out msgs filter is_msg] in Hm; fold (msgs (out s)) in Hm; rewrite E0 in Hm; destruct Hm].
      destruct (x_closed x); [cbn [emit out msgs filter is_msg] in Hm; fold (msgs (out s)) in Hm; rewrite E0 in Hm; destruct Hm|].
      cbn [emit out msgs filter is_msg] in Hm. fold (msgs (out (close_ctx s c))) in Hm. rewrite close_ctx_msgs, E0 in Hm. destruct Hm.
    + cbn [do_call] in Hm. destruct (sclosed s);
        [cbn [emit out msgs filter is_msg] in Hm; fold (msgs (out s)) in Hm; rewrite E0 in Hm; destruct Hm|].
      cbn [emit out msgs filter is_msg] in Hm.
      match type of Hm with In _ (filter is_msg (out (fold_left ?f ?l ?s1))) =>
        fold (msgs (out (fold_left f l s1))) in Hm;
        assert (I' : Inv s1) by (apply (Inv_fields s); unfold Inv; auto);
        rewrite (proj2 (close_all_Inv l s1 I')) in Hm end.
      cbn [set_misc out] in Hm. rewrite E0 in Hm. destruct Hm.
  - destruct (sclosed s); cbn [set_pipes out] in Hm; rewrite E0 in Hm; destruct Hm.
  - cbn [set_pipes out] in Hm; rewrite E0 in Hm; destruct Hm.
  - destruct (find_pipe p (pipes s));
      [|cbn [emit out msgs filter is_msg] in Hm; fold (msgs (out s)) in Hm; rewrite E0 in Hm; destruct Hm].
    unfold pipe_recv in Hm. destruct (wire_id body) as [id|] eqn:Ew; [|rewrite E0 in Hm; destruct Hm].
    destruct (aget id (survs s)) as [v|] eqn:Ev; [|rewrite E0 in Hm; destruct Hm].
    destruct (filter (fun th => th_id th =? id) (threads s)) as [|th more] eqn:F.
    + destruct (nlen (v_q v) <? v_cap v); cbn [set_survs out] in Hm; rewrite E0 in Hm; destruct Hm.
    + cbn [emit set_now set_misc stop_timer set_timers set_threads out msgs filter is_msg] in Hm. fold (msgs (out s)) in Hm.
      rewrite E0 in Hm. destruct Hm as [Hm|[]]. inversion Hm; subst t h b.
      assert (Hth : In th (filter (fun th => th_id th =? id) (threads s))) by (rewrite F; left; reflexivity).
      apply filter_In in Hth. destruct Hth as [Hth He]. apply N.eqb_eq in He.
      rewrite Forall_forall in I1. destruct (I1 th Hth) as ((x & Hx & Hxs) & _). rewrite He in Hxs.
      exists (th_c th), id, x, v. split; [apply wire_id_word, Ew|]. split; [exact Hx|]. split; [exact Hxs|]. split; [exact Ev|].
      right. exists th. auto.
  - destruct (find_pipe p (pipes s)); cbn [set_pipes out] in Hm; rewrite E0 in Hm; destruct Hm.
  - destruct (release_pipe p ok (pipes s)) as [ps os] eqn:R.
    rewrite msgs_emits in Hm; [cbn [set_pipes out] in Hm; rewrite E0 in Hm; destruct Hm|].
    intros o Hin. apply (release_nomsg p ok (pipes s)). rewrite R. exact Hin.
  - rewrite set_now_out, fire_due_msgs, set_now_out, E0 in Hm. destruct Hm.
  - rewrite set_now_out, E0 in Hm. destruct Hm.
Qed.

(* over ALL histories: whatever a step of the model returns to the application is a response to the current survey of
   the context the receiving call belongs to *)
Lemma model_returns_only_current fixed s st t h b :
  reachable fixed s -> In (ORet t (RMsg h b)) (snd (step fixed s st)) -> current_response s st t h.
Proof.
  intros HR Hin. unfold step in Hin. cbn [snd] in Hin. apply in_rev in Hin.
  pose proof (reachable_Inv fixed s HR) as HI.
  assert (HI' : Inv (clear_out s)) by (apply (Inv_fields s); auto).
  destruct (step_msgs fixed (clear_out s) st t h b HI' eq_refl Hin) as (c & id & x & v & A & B & C & D & E).
  exists c, id, x, v. auto.
Qed.

(* ---- witnesses (vm_compute) ---- *)
Definition resp (k tagbyte : N) : bytes := surv_hdr k ++ mkb 3 (k * 256 + tagbyte).

(* SURVEY-TIME 0 is documented as "infinite"; the code as found arms a zero timer *)
Definition zero_hist : list stim :=
  [ SAddPipe 1;
    SCall 1 (CSetOpt 0 OSurveyTime 0%Z []);
    SCall 2 (CSend 0 [] (mkb 3 263));
    SCall 3 (CRecv 0) ].
Lemma zero_time_code : c07_zero (model_trace false init zero_hist) = Some 3.
Proof. vm_compute. reflexivity. Qed.
Lemma zero_time_documented : c07_zero (model_trace true init zero_hist) = None.
Proof. vm_compute. reflexivity. Qed.

(* a history with three contexts, stale / foreign / unmarked / short / duplicate responses, a held pipe, a new survey
   while a Recv is blocked, expiry while blocked and Recv after expiry: every oracle accepts the model's own trace *)
Definition sample_hist : list stim :=
  [ STick 0; SCall 1 (CSetOpt 0 OSurveyTime 80%Z []);
    STick 1; SAddPipe 1; STick 2; SAddPipe 2; STick 3; SCall 2 (COpenCtx 1); STick 4; SCall 3 (COpenCtx 2);
    STick 5; SHold 2 true;
    STick 6; SCall 4 (CSend 0 [] (mkb 3 263));           (* survey 1 on context 0 *)
    STick 7; SCall 5 (CSend 1 [] (mkb 3 519));           (* survey 2 on context 1: pipe 2 is stuck in its held send *)
    STick 8; SCall 6 (CRecv 0);
    STick 9; SDeliver 1 (resp 2 1);                      (* for context 1: queued *)
    STick 10; SDeliver 1 (resp 1 1);                     (* for context 0: handed to call 6 *)
    STick 11; SDeliver 1 (resp 7 1);                     (* never issued *)
    STick 12; SDeliver 1 (mkb 3 5);                      (* short *)
    STick 13; SDeliver 1 (mkb 4 1 ++ mkb 3 261);         (* id 1 without the survey bit *)
    STick 14; SCall 7 (CRecv 1);
    STick 15; SCall 8 (CRecv 1);                         (* blocks *)
    STick 16; SCall 9 (CSend 1 [] (mkb 3 775));          (* survey 3 on context 1: call 8 is cancelled *)
    STick 17; SDeliver 1 (resp 2 2);                     (* stale *)
    STick 18; SRelease 2 true;
    STick 19; SCall 10 (CRecv 1);
    STick 20; SCall 11 (CRecv 2);                        (* no survey on context 2 *)
    SPass 160;                                           (* all three surveys expire; call 10 returns *)
    STick 160; SCall 12 (CRecv 0);
    STick 161; SDeliver 1 (resp 3 3);                    (* late *)
    STick 162; SCall 13 (CCloseCtx 1);
    STick 163; SCall 14 (CRecv 1);
    STick 164; SCall 15 CCloseSock;
    STick 165; SCall 16 (CRecv 0) ].
Lemma sample_accepted :
  map (fun o => o (model_trace false init sample_hist)) [c07_resp; c07_state; c07_early; c07_zero; c07_bcast] = [None; None; None; None; None].
Proof. vm_compute. reflexivity. Qed.
(* ... and the trace does contain the interesting events *)
Lemma sample_events :
  let os := concat (map (fun r => snd (fst r)) (model_trace false init sample_hist)) in
  (existsb (obs_eqb (ORet 6 (RMsg (surv_hdr 1) (mkb 3 257)))) os && existsb (obs_eqb (ORet 7 (RMsg (surv_hdr 2) (mkb 3 513)))) os
   && existsb (obs_eqb (ORet 8 (RErr ECanceled))) os && existsb (obs_eqb (ORet 10 (RErr EProtoState))) os
   && existsb (obs_eqb (ORet 11 (RErr EProtoState))) os && existsb (obs_eqb (ORet 12 (RErr EProtoState))) os
   && existsb (obs_eqb (ORet 14 (RErr EProtoState))) os && existsb (obs_eqb (ORet 16 (RErr EClosed))) os
   && existsb (obs_eqb (OTx 2 (surv_hdr 2) (mkb 3 519))) os && (length (filter is_msg os) =? 2)%nat) = true.
Proof. vm_compute. reflexivity. Qed.

(* XSURVEYOR: a sample trace of the raw model is accepted by its oracles *)
Definition xsample_hist : list stim :=
  [ SCall 1 (CSetOpt 0 OReadQLen 1%Z []); SAddPipe 1; SAddPipe 2; SHold 2 true;
    SCall 2 (CSend 0 (mkb 4 2147483649) (mkb 3 263)); SCall 3 (CSend 0 (mkb 4 2147483650) (mkb 3 519));
    SDeliver 1 (resp 1 1); SDeliver 1 (resp 9 1); SDeliver 2 (mkb 2 5); SCall 4 (CRecv 0); SCall 5 (CRecv 0); SCall 6 (CRecv 0);
    SRelease 2 true; SDeliver 2 (resp 1 2); SCall 7 CCloseSock; SCall 8 (CSend 0 [] (mkb 3 775)) ].
Lemma xsample_accepted : map (fun o => o (xmodel_trace rinit xsample_hist)) [x07_bcast; x07_recv] = [None; None].
Proof. vm_compute. reflexivity. Qed.
