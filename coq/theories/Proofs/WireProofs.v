From MV Require Import Lib.Bytes Model.Wire.
From Coq Require Import ZifyBool ZifyN ZifyNat.
Open Scope N_scope.

(* ------------------------------------------------ big-endian: the other direction ---- *)
Lemma be_dec_acc_lin l : forall acc, be_dec_acc acc l = acc * 256 ^ N.of_nat (length l) + be_dec l.
Proof.
  unfold be_dec. induction l as [|b l IH]; intro acc.
  - cbn. lia.
  - cbn [be_dec_acc length]. rewrite IH. rewrite (IH (0 * 256 + b2n b)).
    replace (N.of_nat (S (length l))) with (N.succ (N.of_nat (length l))) by lia.
    rewrite N.pow_succ_r'. lia.
Qed.

Lemma be_dec_bound l : be_dec l < 256 ^ N.of_nat (length l).
Proof.
  induction l as [|b l IH].
  - cbn. lia.
  - unfold be_dec in *. cbn [be_dec_acc length]. rewrite be_dec_acc_lin.
    replace (N.of_nat (S (length l))) with (N.succ (N.of_nat (length l))) by lia.
    rewrite N.pow_succ_r'. pose proof (b2n_lt b). unfold be_dec. nia.
Qed.

Lemma be_enc_low k : forall m, be_enc k m = be_enc k (m mod 256 ^ N.of_nat k).
Proof.
  induction k as [|k IHk]; intro m; [reflexivity|].
  cbn [be_enc]. replace (N.of_nat (S k)) with (N.succ (N.of_nat k)) by lia.
  rewrite N.pow_succ_r'. set (q := 256 ^ N.of_nat k).
  assert (Hq : q <> 0) by (apply N.pow_nonzero; lia).
  f_equal.
  - unfold n2b. f_equal.
    rewrite (N.mul_comm 256 q), N.mod_mul_r by lia.
    rewrite (N.mul_comm q), N.div_add by lia.
    rewrite (N.div_small (m mod q) q) by (apply N.mod_lt; lia).
    rewrite N.add_0_l. rewrite N.mod_mod by lia. reflexivity.
  - rewrite IHk. rewrite (IHk (m mod (256 * q))). f_equal.
    rewrite (N.mul_comm 256 q), N.mod_mul_r by lia.
    rewrite N.mul_comm, N.mod_add by lia. rewrite N.mod_mod by lia. reflexivity.
Qed.

Lemma be_enc_dec l : be_enc (length l) (be_dec l) = l.
Proof.
  induction l as [|b l IH]; [reflexivity|].
  cbn [length be_enc]. unfold be_dec. cbn [be_dec_acc]. rewrite be_dec_acc_lin.
  pose proof (be_dec_bound l) as Hb. set (q := 256 ^ N.of_nat (length l)) in *.
  assert (Hq : q <> 0) by (apply N.pow_nonzero; lia).
  replace ((0 * 256 + b2n b) * q + be_dec l) with (be_dec l + b2n b * q) by lia.
  f_equal.
  - rewrite N.div_add by exact Hq. rewrite N.div_small by exact Hb. rewrite N.add_0_l. apply n2b_b2n.
  - rewrite be_enc_low. fold q. rewrite N.mod_add by exact Hq. rewrite N.mod_small by exact Hb. exact IH.
Qed.

(* ------------------------------------------------------------------ pool ---- *)
Lemma pool_cap_ge strict cls sz :
  forallb (fun c => fst c <=? snd c) cls = true -> sz <= pool_cap strict cls sz.
Proof.
  induction cls as [|[mb cap] r IH]; intro H; cbn [pool_cap]; [lia|].
  cbn [forallb fst snd] in H. apply andb_true_iff in H as [H1 H2].
  unfold class_test. destruct strict.
  - destruct (N.ltb_spec sz mb); [lia|auto].
  - destruct (N.leb_spec sz mb); [lia|auto].
Qed.

Lemma new_message_cap_ge p sz : pool_ok p = true -> sz <= new_message_cap p sz.
Proof. intro H. apply pool_cap_ge. exact H. Qed.

Lemma std_pool_ok : pool_ok std_pool = true.
Proof. reflexivity. Qed.

(* ------------------------------------------------------------------ parse ---- *)
Lemma take8_frame n rest : take_exact 8 (be_enc 8 n ++ rest) = Some (be_enc 8 n, rest).
Proof. rewrite <- (be_enc_length 8 n) at 1. apply take_exact_app. Qed.

Lemma frame_not_nil ipc h b rest : frame ipc h b ++ rest <> [].
Proof. unfold frame. destruct ipc; cbn; discriminate. Qed.

Definition within (maxrx sz : N) : bool := negb ((0 <? maxrx) && (maxrx <? sz)).

Lemma parse_frame f p ipc maxrx h b rest :
  pool_ok p = true -> blen h + blen b < 2 ^ 63 -> within maxrx (blen h + blen b) = true ->
  parse (S f) p ipc maxrx (frame ipc h b ++ rest) =
  add_delivered (h ++ b) (new_message_cap p (blen h + blen b)) (parse f p ipc maxrx rest).
Proof.
  intros Hp Hs Hw. set (sz := blen h + blen b) in *.
  assert (Hd : be_dec (be_enc 8 sz) = sz).
  { apply be_dec_enc. change (256 ^ N.of_nat 8) with (2 ^ 64). lia. }
  assert (Hnn : forall x, frame ipc h b ++ rest = x -> x <> []) by (intros x <-; apply frame_not_nil).
  cbn [parse]. destruct (frame ipc h b ++ rest) eqn:E; [exfalso; eapply Hnn; eauto|]. rewrite <- E. clear Hnn.
  assert (Es1 : (if ipc then tl (frame ipc h b ++ rest) else frame ipc h b ++ rest)
                = be_enc 8 sz ++ (h ++ b) ++ rest).
  { unfold frame. fold sz. destruct ipc; cbn [app tl]; rewrite <- !app_assoc; reflexivity. }
  rewrite Es1, take8_frame, Hd.
  unfold within in Hw.
  destruct (N.leb_spec (2 ^ 63) sz); [lia|]. cbn [orb].
  destruct ((0 <? maxrx) && (maxrx <? sz)); [discriminate|].
  pose proof (new_message_cap_ge p sz Hp).
  destruct (N.ltb_spec (new_message_cap p sz) sz); [lia|].
  replace (N.to_nat sz) with (length (h ++ b)) by (unfold sz, blen; rewrite app_length; lia).
  rewrite take_exact_app. reflexivity.
Qed.

Definition msg_ok (maxrx : N) (hb : bytes * bytes) : Prop :=
  blen (fst hb) + blen (snd hb) < 2 ^ 63 /\ within maxrx (blen (fst hb) + blen (snd hb)) = true.

Lemma parse_frames p ipc maxrx msgs : pool_ok p = true -> Forall (msg_ok maxrx) msgs ->
  forall fuel, (length msgs < fuel)%nat ->
  let r := parse fuel p ipc maxrx (concat (map (fun hb => frame ipc (fst hb) (snd hb)) msgs)) in
  delivered r = map (fun hb => fst hb ++ snd hb) msgs /\ status r = AtBoundary /\
  allocs r = map (fun hb => new_message_cap p (blen (fst hb) + blen (snd hb))) msgs.
Proof.
  intros Hp. induction 1 as [|[h b] msgs [Hs Hw] _ IH]; intros fuel Hf.
  - destruct fuel; [cbn in Hf; lia|]. cbn. auto.
  - destruct fuel as [|fuel]; [cbn in Hf; lia|].
    cbn [map concat fst snd] in *. rewrite parse_frame by assumption.
    specialize (IH fuel ltac:(cbn [length] in Hf; lia)) as (I1 & I2 & I3).
    cbn [add_delivered delivered status allocs]. rewrite I1, I2, I3. auto.
Qed.

Lemma frame_length ipc h b : (8 <= length (frame ipc h b))%nat.
Proof. unfold frame. rewrite !app_length, be_enc_length. lia. Qed.

Lemma concat_frames_length ipc (msgs : list (bytes * bytes)) :
  (length msgs <= length (concat (map (fun hb => frame ipc (fst hb) (snd hb)) msgs)))%nat.
Proof.
  induction msgs as [|hb msgs IH]; [cbn; lia|].
  cbn [map concat length]. rewrite app_length. pose proof (frame_length ipc (fst hb) (snd hb)). lia.
Qed.

Lemma stream_roundtrip p ipc maxrx msgs : pool_ok p = true -> Forall (msg_ok maxrx) msgs ->
  let r := parse_stream p ipc maxrx (concat (map (fun hb => frame ipc (fst hb) (snd hb)) msgs)) in
  delivered r = map (fun hb => fst hb ++ snd hb) msgs /\ status r = AtBoundary.
Proof.
  intros Hp Hm. unfold parse_stream.
  pose proof (concat_frames_length ipc msgs) as Hl.
  destruct (parse_frames p ipc maxrx msgs Hp Hm
              (S (length (concat (map (fun hb => frame ipc (fst hb) (snd hb)) msgs)))) ltac:(lia)) as (A & B & _).
  auto.
Qed.

(* a frame that announces more than the limit (or a negative length) ends the connection there:
   nothing of it or after it is delivered and nothing is allocated for it *)
Lemma parse_too_long f p (ipc : bool) maxrx lb (pre : bytes) rest :
  length lb = 8%nat -> (if ipc then length pre = 1%nat else pre = []) ->
  (2 ^ 63 <= be_dec lb \/ (0 < maxrx /\ maxrx < be_dec lb)) ->
  parse (S f) p ipc maxrx (pre ++ lb ++ rest) = stop TooLong.
Proof.
  intros Hl Hpre Hbig. cbn [parse].
  assert (E1 : (if ipc then tl (pre ++ lb ++ rest) else pre ++ lb ++ rest) = lb ++ rest).
  { destruct ipc; [|subst pre; reflexivity]. destruct pre as [|x [|y pre]]; try discriminate. reflexivity. }
  destruct (pre ++ lb ++ rest) eqn:E.
  { exfalso. destruct lb; [discriminate|]. destruct pre; discriminate. }
  rewrite E1. rewrite <- Hl at 1. rewrite take_exact_app.
  destruct Hbig as [H|[H1 H2]].
  - destruct (N.leb_spec (2 ^ 63) (be_dec lb)); [reflexivity|lia].
  - destruct (N.ltb_spec 0 maxrx); [|lia]. destruct (N.ltb_spec maxrx (be_dec lb)); [|lia].
    rewrite orb_true_r. reflexivity.
Qed.

Lemma parse_no_crash p ipc maxrx : pool_ok p = true -> forall fuel s, status (parse fuel p ipc maxrx s) <> Crash.
Proof.
  intro Hp. induction fuel as [|fuel IH]; intro s; [cbn; discriminate|].
  cbn [parse]. destruct s as [|x s']; [cbn; discriminate|].
  destruct (take_exact 8 _) as [[lb rest]|]; [|cbn; discriminate].
  destruct (_ || _); [cbn; discriminate|].
  pose proof (new_message_cap_ge p (be_dec lb) Hp).
  destruct (N.ltb_spec (new_message_cap p (be_dec lb)) (be_dec lb)); [lia|].
  destruct (take_exact _ rest) as [[m rest']|]; [|cbn; discriminate].
  cbn [add_delivered status]. apply IH.
Qed.

Lemma parse_fuel_enough p ipc maxrx : forall fuel s, (length s < fuel)%nat ->
  status (parse fuel p ipc maxrx s) <> OutOfFuel.
Proof.
  induction fuel as [|fuel IH]; intros s Hf; [lia|].
  cbn [parse]. destruct s as [|x s']; [cbn; discriminate|].
  destruct (take_exact 8 _) as [[lb rest]|] eqn:E8; [|cbn; discriminate].
  destruct (_ || _); [cbn; discriminate|].
  destruct (_ <? _); [cbn; discriminate|].
  destruct (take_exact _ rest) as [[m rest']|] eqn:Em; [|cbn; discriminate].
  cbn [add_delivered status]. apply IH.
  apply take_exact_spec in E8 as [E8 L8]. apply take_exact_spec in Em as [-> Lm].
  assert (length (if ipc then tl (x :: s') else x :: s') <= length (x :: s'))%nat by (destruct ipc; cbn; lia).
  rewrite E8 in H. rewrite !app_length in H. lia.
Qed.

(* everything delivered is literally present in the stream with its framing: nothing is invented,
   merged, split, padded or taken from beyond an in-limit well-formed frame *)
Inductive framed (ipc : bool) : list bytes -> bytes -> bytes -> Prop :=
| framed_nil s : framed ipc [] s s
| framed_cons m ds pre s rest :
    (if ipc then length pre = 1%nat else pre = []) ->
    framed ipc ds s rest ->
    framed ipc (m :: ds) (pre ++ be_enc 8 (blen m) ++ m ++ s) rest.

Lemma parse_sound p ipc maxrx : forall fuel s,
  exists rest, framed ipc (delivered (parse fuel p ipc maxrx s)) s rest /\
    Forall (fun m => blen m < 2 ^ 63 /\ within maxrx (blen m) = true) (delivered (parse fuel p ipc maxrx s)).
Proof.
  induction fuel as [|fuel IH]; intro s; [exists s; cbn; split; constructor|].
  cbn [parse]. destruct s as [|x s']; [exists []; cbn; split; constructor|].
  destruct (take_exact 8 _) as [[lb rest]|] eqn:E8; [|eexists; cbn; split; constructor].
  destruct (_ || _) eqn:Elim; [eexists; cbn; split; constructor|].
  destruct (new_message_cap p (be_dec lb) <? be_dec lb); [eexists; cbn; split; constructor|].
  destruct (take_exact _ rest) as [[m rest']|] eqn:Em; [|eexists; cbn; split; constructor].
  cbn [add_delivered delivered]. destruct (IH rest') as (r & Hr & Hall). exists r.
  apply take_exact_spec in E8 as [E8 L8]. apply take_exact_spec in Em as [-> Lm].
  assert (Hm : blen m = be_dec lb) by (unfold blen; lia).
  split.
  - assert (Elb : lb = be_enc 8 (blen m)) by (rewrite Hm, <- L8; symmetry; apply be_enc_dec).
    destruct ipc.
    + cbn [tl] in E8. subst s'. rewrite Elb.
      change (x :: be_enc 8 (blen m) ++ m ++ rest') with ([x] ++ be_enc 8 (blen m) ++ m ++ rest').
      constructor; [reflexivity|exact Hr].
    + rewrite E8, Elb. change (be_enc 8 (blen m) ++ m ++ rest') with ([] ++ be_enc 8 (blen m) ++ m ++ rest').
      constructor; [reflexivity|exact Hr].
  - constructor; [|exact Hall]. rewrite Hm. unfold within.
    apply orb_false_iff in Elim as [E1 E2]. rewrite E2. split; [lia|reflexivity].
Qed.

(* ---------------------------------------------------------------- handshake ---- *)
Lemma hs_check_header p : p < 65536 -> hs_check p (hs_header p) = HsOk.
Proof.
  intro H. unfold hs_header. cbn [be_enc app hs_check].
  pose proof (be_dec_enc 2 p ltac:(change (256 ^ N.of_nat 2) with 65536; exact H)) as E.
  cbn [be_enc] in E. rewrite E, !N.eqb_refl.
  change (b2n x53 =? 83) with true. change (b2n x50 =? 80) with true.
  change (be_dec [x00; x00] =? 0) with true. reflexivity.
Qed.

Lemma be_dec2_zero a b : be_dec [a; b] = 0 -> a = x00 /\ b = x00.
Proof.
  intro H. pose proof (be_enc_dec [a; b]) as E. rewrite H in E. cbn in E. inversion E; auto.
Qed.

Lemma hs_check_ok_iff p b : p < 65536 -> (hs_check p b = HsOk <-> b = hs_header p).
Proof.
  intro Hp. split; [|intros ->; apply hs_check_header; exact Hp].
  unfold hs_check. destruct b as [|z [|s [|q [|v [|p1 [|p0 [|r1 [|r0 [|? ?]]]]]]]]]; try discriminate.
  destruct (b2n z =? 0) eqn:Ez; [|discriminate].
  destruct (b2n s =? 83) eqn:Es; [|discriminate].
  destruct (b2n q =? 80) eqn:Eq; [|discriminate].
  destruct (be_dec [r1; r0] =? 0) eqn:Er; [|discriminate].
  cbn [negb orb].
  destruct (b2n v =? 0) eqn:Ev; [|discriminate]. cbn [negb].
  destruct (be_dec [p1; p0] =? p) eqn:Epp; [|discriminate]. intros _.
  apply N.eqb_eq in Ez, Es, Eq, Er, Ev, Epp.
  apply be_dec2_zero in Er as [-> ->].
  assert (z = x00) by (apply b2n_inj; rewrite Ez; reflexivity).
  assert (s = x53) by (apply b2n_inj; rewrite Es; reflexivity).
  assert (q = x50) by (apply b2n_inj; rewrite Eq; reflexivity).
  assert (v = x00) by (apply b2n_inj; rewrite Ev; reflexivity).
  subst. unfold hs_header. cbn [app]. do 4 f_equal.
  pose proof (be_enc_dec [p1; p0]) as E. cbn [length] in E. rewrite E. reflexivity.
Qed.

Lemma hs_header_shape p : length (hs_header p) = 8%nat /\ firstn 4 (hs_header p) = [x00; x53; x50; x00]
  /\ skipn 6 (hs_header p) = [x00; x00].
Proof. unfold hs_header. cbn. auto. Qed.

(* ------------------------------------------------- websocket / inproc deliveries ---- *)
Lemma ws_deliver_all maxrx msgs :
  Forall (fun hb => within maxrx (blen (fst hb ++ snd hb)) = true) msgs ->
  ws_deliver maxrx msgs = map (fun hb => fst hb ++ snd hb) msgs.
Proof.
  induction 1 as [|[h b] msgs Hw _ IH]; [reflexivity|].
  cbn [ws_deliver map fst snd] in *. unfold ws_payload, within in *.
  destruct ((0 <? maxrx) && (maxrx <? blen (h ++ b))); [discriminate|]. rewrite IH. reflexivity.
Qed.

Lemma transport_deliver_all t maxrx msgs :
  Forall (msg_ok maxrx) msgs ->
  transport_deliver t maxrx msgs = map (fun hb => fst hb ++ snd hb) msgs.
Proof.
  intro H.
  assert (Hws : ws_deliver maxrx msgs = map (fun hb => fst hb ++ snd hb) msgs).
  { apply ws_deliver_all. eapply Forall_impl; [|exact H]. intros [h b] [_ Hw]; cbn [fst snd] in *.
    rewrite blen_app; exact Hw. }
  destruct t; cbn [transport_deliver is_ipc]; try exact Hws; try reflexivity;
    apply (stream_roundtrip std_pool _ maxrx msgs std_pool_ok H).
Qed.
