(* Lemmas for C18 over Model/Deadline.v (the select idiom and the queue-socket machine) and Model/Req.v. *)
From MV Require Import Lib.Proto Model.Deadline.
From MV Require Model.DeadlineOracle.
From Coq Require Import ZifyBool ZifyN ZifyNat.
Open Scope N_scope.

(* ---------- the select statement ---------- *)

Lemma select_in : forall now arms o,
  In o (select now arms) -> o = Blocked /\ ready_arms now arms = [] \/ In o (ready_arms now arms).
Proof.
  intros now arms o H. unfold select in H. destruct (ready_arms now arms) eqn:E.
  - destruct H as [<-|[]]. left; auto.
  - right. exact H.
Qed.

Lemma ready_in : forall now arms o, In o (ready_arms now arms) <-> exists a, In (a, o) arms /\ arm_ready now a = true.
Proof.
  intros. unfold ready_arms. rewrite in_map_iff. split.
  - intros [[a o'] [Ho H]]. cbn in Ho. subst. apply filter_In in H. exists a. exact H.
  - intros [a [H1 H2]]. exists (a, o). split; [reflexivity|]. apply filter_In. split; assumption.
Qed.

(* a timeout is possible only once the deadline has elapsed (and only for a call that has one) *)
Lemma send_timeout_not_early : forall be d room closed now start,
  In TimedOut (send_outcome be d room closed now start) -> be = false /\ 0 < d /\ start + d <= now.
Proof.
  intros be d room closed now start H. unfold send_outcome in H.
  apply select_in in H as [[H _]|H]; [discriminate|].
  apply ready_in in H as [a [Ha Hr]]. cbn in Ha.
  destruct Ha as [Ha|[Ha|[Ha|[]]]]; try discriminate Ha.
  destruct be; [discriminate Ha|]. inversion Ha; subst; clear Ha.
  unfold time_arm in Hr. cbn in Hr.
  destruct (0 <? d) eqn:Ed; cbn in Hr; [|discriminate]. repeat split; lia.
Qed.

Lemma recv_timeout_not_early : forall d has closed now start,
  In TimedOut (recv_outcome d has closed now start) -> 0 < d /\ start + d <= now.
Proof.
  intros d has closed now start H. unfold recv_outcome in H.
  apply select_in in H as [[H _]|H]; [discriminate|].
  apply ready_in in H as [a [Ha Hr]]. cbn in Ha.
  destruct Ha as [Ha|[Ha|[Ha|[]]]]; try discriminate Ha.
  inversion Ha; subst; clear Ha.
  unfold time_arm in Hr. cbn in Hr. destruct (0 <? d) eqn:Ed; cbn in Hr; [|discriminate]. split; lia.
Qed.

(* once the deadline has elapsed the timeout arm is ready: the call cannot stay parked *)
Lemma send_timeout_not_late : forall d room closed now start,
  0 < d -> start + d <= now ->
  ~ In Blocked (send_outcome false d room closed now start) /\ In TimedOut (send_outcome false d room closed now start).
Proof.
  intros d room closed now start Hd Hn. unfold send_outcome, select, ready_arms, send_arms, time_arm.
  assert (E : (0 <? d) = true) by lia. rewrite E.
  assert (R : arm_ready now (ArmTimer start d) = true) by (cbn; lia).
  cbn [filter map fst snd]. rewrite R.
  destruct (arm_ready now (ArmOp room)), (arm_ready now (close_arm closed)); cbn; split;
    intuition discriminate.
Qed.

Lemma recv_timeout_not_late : forall d has closed now start,
  0 < d -> start + d <= now ->
  ~ In Blocked (recv_outcome d has closed now start) /\ In TimedOut (recv_outcome d has closed now start).
Proof.
  intros d has closed now start Hd Hn. unfold recv_outcome, select, ready_arms, recv_arms, time_arm.
  assert (E : (0 <? d) = true) by lia. rewrite E.
  assert (R : arm_ready now (ArmTimer start d) = true) by (cbn; lia).
  cbn [filter map fst snd]. rewrite R.
  destruct (arm_ready now (ArmOp has)), (arm_ready now (close_arm closed)); cbn; split;
    intuition discriminate.
Qed.

(* a call that can complete at once is not failed by its deadline *)
Lemma send_immediate_not_failed : forall d now start,
  now < start + d -> send_outcome false d true false now start = [Done].
Proof.
  intros d now start H. unfold send_outcome, select, ready_arms, send_arms, time_arm, close_arm.
  destruct (0 <? d) eqn:E; cbn; [|reflexivity].
  assert (R : (start + d <=? now) = false) by lia. rewrite R. reflexivity.
Qed.

Lemma recv_immediate_not_failed : forall d now start,
  now < start + d -> recv_outcome d true false now start = [Done].
Proof.
  intros d now start H. unfold recv_outcome, select, ready_arms, recv_arms, time_arm, close_arm.
  destruct (0 <? d) eqn:E; cbn; [|reflexivity].
  assert (R : (start + d <=? now) = false) by lia. rewrite R. reflexivity.
Qed.

(* with no deadline (and not best effort) a call that cannot proceed waits, whatever the time *)
Lemma send_no_deadline_waits : forall now start, send_outcome false 0 false false now start = [Blocked].
Proof. reflexivity. Qed.
Lemma recv_no_deadline_waits : forall now start, recv_outcome 0 false false now start = [Blocked].
Proof. reflexivity. Qed.

(* best effort: never parked, never a timeout, for every queue state, deadline and time *)
Lemma send_best_effort_never_blocks : forall d room closed now start o,
  In o (send_outcome true d room closed now start) -> o = Done \/ o = Dropped \/ o = ErrClosed.
Proof.
  intros d room closed now start o H. unfold send_outcome, select, ready_arms, send_arms, time_arm in H.
  destruct room, closed; cbn in H; intuition (subst; auto).
Qed.
Lemma send_best_effort_full_queue_drops : forall d now start, send_outcome true d false false now start = [Dropped].
Proof. reflexivity. Qed.
Lemma send_best_effort_some_outcome : forall d room closed now start, send_outcome true d room closed now start <> [].
Proof. intros. unfold send_outcome, select, ready_arms, send_arms, time_arm. destruct room, closed; cbn; discriminate. Qed.

(* xpush: once the last peer has left (noPeerQ closed) a parked Send on a full queue takes the no-peers arm *)
Lemma send_np_last_peer_left : forall d now start,
  now < start + d \/ d = 0 -> send_outcome_np false d false false true now start = [ErrNoPeers].
Proof.
  intros d now start H. unfold send_outcome_np, select, ready_arms, send_arms, time_arm, close_arm.
  destruct (0 <? d) eqn:E; cbn; [|reflexivity].
  assert (R : (start + d <=? now) = false) by lia. rewrite R. reflexivity.
Qed.

(* ---------- the queue-socket machine uses these decisions ---------- *)

Lemma blocked_reply : forall s t r, blocked (reply s t r) = blocked s.
Proof. reflexivity. Qed.


Definition sub_blocked (s' s : qst) : Prop := forall x, In x (blocked s') -> In x (blocked s).
Lemma sub_refl s : sub_blocked s s. Proof. intros x H; exact H. Qed.
Lemma sub_trans a b c : sub_blocked a b -> sub_blocked b c -> sub_blocked a c.
Proof. intros H1 H2 x H. apply H2, H1, H. Qed.
Lemma sub_eq s' s : blocked s' = blocked s -> sub_blocked s' s.
Proof. intros E x H. rewrite <- E. exact H. Qed.

Lemma sub_unblock s b bs m : q_bsend s = b :: bs ->
  sub_blocked (emit (set_sendq (set_bsend s bs) m) (ORet (b_t b) ROk)) s.
Proof. intros E x H. unfold blocked in *. cbn in H. rewrite E. cbn. right. exact H. Qed.

Lemma pump_sub : forall k fuel nh s, sub_blocked (pump k fuel nh s) s.
Proof.
  intros k fuel. induction fuel as [|f IH]; intros nh s; [apply sub_refl|].
  cbn [pump].
  assert (U : sub_blocked match q_bsend s with
      | b :: bs => if send_room k s
                   then pump k f nh (emit (set_sendq (set_bsend s bs) (q_sendq s ++ [b_msg b])) (ORet (b_t b) ROk))
                   else s
      | [] => s end s).
  { destruct (q_bsend s) as [|b bs] eqn:E; [apply sub_refl|].
    destruct (send_room k s); [|apply sub_refl].
    eapply sub_trans; [apply IH|]. apply sub_unblock. exact E. }
  destruct (k_send k); try apply sub_refl.
  - destruct (q_sendq s) as [|m rest]; [exact U|].
    destruct (idle_consumers s) as [|x [|y l]]; [exact U| |apply sub_eq; reflexivity].
    eapply sub_trans; [apply IH|]. destruct (qp_hold x); apply sub_eq; reflexivity.
  - destruct (q_closed s); [apply sub_refl|].
    destruct (q_sendq s) as [|m rest]; [exact U|].
    destruct (q_ready s) as [|p rq]; [exact U|].
    destruct (get_pipe s p) as [x|]; [|apply sub_refl].
    destruct (qp_hold x).
    + eapply sub_trans; [apply IH|]. apply sub_eq; reflexivity.
    + eapply sub_trans; [apply IH|]. destruct (existsb _ nh); apply sub_eq; reflexivity.
Qed.

Lemma send_outcome_entry_room : forall d now, send_outcome false d true false now now = [Done].
Proof.
  intros d now. unfold send_outcome, select, ready_arms, send_arms, time_arm, close_arm.
  destruct (0 <? d) eqn:E; cbn; [|reflexivity].
  assert (R : (now + d <=? now) = false) by lia. rewrite R. reflexivity.
Qed.
Lemma recv_outcome_entry_msg : forall d now, recv_outcome d true false now now = [Done].
Proof.
  intros d now. unfold recv_outcome, select, ready_arms, recv_arms, time_arm, close_arm.
  destruct (0 <? d) eqn:E; cbn; [|reflexivity].
  assert (R : (now + d <=? now) = false) by lia. rewrite R. reflexivity.
Qed.

Ltac one H := destruct H as [<-|[]]; apply sub_eq; reflexivity.

(* a best-effort Send is never parked: in every state of every modelled socket, every candidate successor has no
   more blocked calls than before (so not this one), for every queue state and peer state *)
Lemma do_send_best_effort_not_parked : forall k s t hdr body s',
  q_be s = true -> In s' (do_send k s t hdr body) -> sub_blocked s' s.
Proof.
  intros k s t hdr body s' Hbe H. unfold do_send in H.
  destruct (k_send k) eqn:Ek.
  - destruct H as [<-|[]]. apply sub_eq; reflexivity.
  - destruct (k_closedcheck k && q_closed s); [one H|].
    destruct (k_fnp k && q_fnp s && no_peers s); [one H|].
    rewrite Hbe in H. apply in_flat_map in H as [o [Ho H]].
    apply send_best_effort_never_blocks in Ho. destruct Ho as [-> | [-> | ->]]; destruct H as [<-|[]].
    + eapply sub_trans; [apply sub_eq; reflexivity|]. eapply sub_trans; [apply pump_sub|]. apply sub_eq; reflexivity.
    + apply sub_eq; reflexivity.
    + apply sub_eq; reflexivity.
  - destruct (k_closedcheck k && q_closed s); [one H|].
    destruct (k_fnp k && q_fnp s && no_peers s); [one H|].
    rewrite Hbe in H. apply in_flat_map in H as [o [Ho H]].
    apply send_best_effort_never_blocks in Ho. destruct Ho as [-> | [-> | ->]]; destruct H as [<-|[]].
    + eapply sub_trans; [apply sub_eq; reflexivity|]. eapply sub_trans; [apply pump_sub|]. apply sub_eq; reflexivity.
    + apply sub_eq; reflexivity.
    + apply sub_eq; reflexivity.
  - destruct (q_closed s); [one H|].
    destruct H as [<-|[]].
    eapply sub_trans; [apply sub_eq; reflexivity|].
    (* the fold over the pipes never touches the parked calls *)
    set (f := fun (s0 : qst) (x0 : qpipe) => _).
    assert (F : forall l s0, blocked (fold_left f l s0) = blocked s0).
    { induction l as [|x0 l IHl]; intros s0; [reflexivity|]. cbn [fold_left]. rewrite IHl. unfold f.
      destruct (get_pipe s0 (qp_id x0)) as [x|]; [|reflexivity].
      destruct (match (if k_busexcl k && (nlen hdr =? 4) then Some (be_dec hdr) else None) with Some e => e =? pipe_wire_id (qp_id x) | None => false end); [reflexivity|].
      destruct ((nlen (qp_q x) <? qp_cap x) || negb (qp_busy x)); [|reflexivity].
      generalize (put_pipe s0 (with_pipe x (qp_hold x) (qp_busy x) (qp_q x ++ [(if k_busexcl k && (nlen hdr =? 4) then [] else hdr, body)]) (qp_rx x))).
      intros s1. assert (P : forall n s2 p, blocked (pump_pipe n s2 p) = blocked s2).
      { induction n as [|n IHn]; intros s2 p; [reflexivity|]. cbn [pump_pipe].
        destruct (get_pipe s2 p) as [y|]; [|reflexivity].
        destruct (qp_alive y && negb (qp_busy y)); [|reflexivity].
        destruct (qp_q y); [reflexivity|]. destruct (qp_hold y); [reflexivity|]. rewrite IHn. reflexivity. }
      rewrite P. reflexivity. }
    apply sub_eq. apply F.
Qed.


(* ---------- sleeping: which parked calls a pass returns ---------- *)

Lemma fold_emit_out : forall (g : bcall -> obs) l s0,
  q_out (fold_left (fun s b => emit s (g b)) l s0) = rev (map g l) ++ q_out s0.
Proof.
  intros g l. induction l as [|b l IH]; intros s0; [reflexivity|].
  cbn [fold_left map rev]. rewrite IH. cbn [emit q_out]. rewrite <- app_assoc. reflexivity.
Qed.
Lemma fold_emit_bsend : forall (g : bcall -> obs) l s0,
  q_bsend (fold_left (fun s b => emit s (g b)) l s0) = q_bsend s0 /\ q_brecv (fold_left (fun s b => emit s (g b)) l s0) = q_brecv s0.
Proof.
  intros g l. induction l as [|b l IH]; intros s0; [split; reflexivity|]. cbn [fold_left]. destruct (IH (emit s0 (g b))) as [A B]. rewrite A, B. split; reflexivity.
Qed.

Lemma seal_in : forall a l b', In b' (seal a l) -> exists b, In b l /\ b_t b' = b_t b /\ b_lo b' = b_lo b /\ b_d b' = b_d b.
Proof.
  intros a l b' H. unfold seal in H. apply in_map_iff in H as [b [E Hb]]. exists b. split; [exact Hb|].
  destruct (b_hi b); subst b'; cbn; auto.
Qed.
Lemma seal_of : forall a l b, In b l -> exists b', In b' (seal a l) /\ b_t b' = b_t b /\ b_lo b' = b_lo b /\ b_d b' = b_d b.
Proof.
  intros a l b H. eexists. split; [unfold seal; apply in_map; exact H|]. destruct (b_hi b); cbn; auto.
Qed.

Lemma do_pass_out : forall s u,
  q_out (do_pass s u) =
    rev (map (fun b => ORet (b_t b) (RErr ERecvTimeout)) (filter (fired u) (seal u (q_brecv s)))) ++
    rev (map (fun b => ORet (b_t b) (RErr ESendTimeout)) (filter (fired u) (seal u (q_bsend s)))) ++ q_out s.
Proof.
  intros s u. unfold do_pass. cbn [set_misc q_out]. rewrite !fold_emit_out. reflexivity.
Qed.
Lemma do_pass_parked : forall s u,
  q_bsend (do_pass s u) = filter (fun b => negb (fired u b)) (seal u (q_bsend s)) /\
  q_brecv (do_pass s u) = filter (fun b => negb (fired u b)) (seal u (q_brecv s)).
Proof.
  intros s u. unfold do_pass. cbn [set_misc q_bsend q_brecv].
  split.
  - rewrite (proj1 (fold_emit_bsend _ _ _)). rewrite (proj1 (fold_emit_bsend _ _ _)). reflexivity.
  - rewrite (proj2 (fold_emit_bsend _ _ _)). rewrite (proj2 (fold_emit_bsend _ _ _)). reflexivity.
Qed.

Lemma fired_spec : forall u b, fired u b = true -> 0 < b_d b /\ b_lo b + b_d b <= u /\ hi_of b + b_d b + tol <= u.
Proof. intros u b H. unfold fired in H. lia. Qed.

(* a send timeout comes out of a sleep only for a parked Send that has a deadline which has elapsed on the model's
   clock (b_lo = the time stamp taken before the call) *)
Lemma pass_send_timeout_not_early : forall s u t,
  In (ORet t (RErr ESendTimeout)) (q_out (do_pass s u)) ->
  In (ORet t (RErr ESendTimeout)) (q_out s) \/
  exists b, In b (q_bsend s) /\ b_t b = t /\ 0 < b_d b /\ b_lo b + b_d b <= u.
Proof.
  intros s u t H. rewrite do_pass_out in H. apply in_app_or in H as [H|H].
  - apply in_rev in H. apply in_map_iff in H as [b [E _]]. discriminate E.
  - apply in_app_or in H as [H|H]; [|left; exact H]. right.
    apply in_rev in H. apply in_map_iff in H as [b' [E Hb]]. inversion E; subst t. apply filter_In in Hb as [Hb Hf].
    apply seal_in in Hb as [b [Hb [Et [El Ed]]]]. apply fired_spec in Hf as [F1 [F2 _]].
    exists b. rewrite <- Et, <- El, <- Ed. auto.
Qed.
Lemma pass_recv_timeout_not_early : forall s u t,
  In (ORet t (RErr ERecvTimeout)) (q_out (do_pass s u)) ->
  In (ORet t (RErr ERecvTimeout)) (q_out s) \/
  exists b, In b (q_brecv s) /\ b_t b = t /\ 0 < b_d b /\ b_lo b + b_d b <= u.
Proof.
  intros s u t H. rewrite do_pass_out in H. apply in_app_or in H as [H|H].
  - right. apply in_rev in H. apply in_map_iff in H as [b' [E Hb]]. inversion E; subst t. apply filter_In in Hb as [Hb Hf].
    apply seal_in in Hb as [b [Hb [Et [El Ed]]]]. apply fired_spec in Hf as [F1 [F2 _]].
    exists b. rewrite <- Et, <- El, <- Ed. auto.
  - apply in_app_or in H as [H|H]; [|left; exact H].
    apply in_rev in H. apply in_map_iff in H as [b [E _]]. discriminate E.
Qed.

(* never hanging beyond it: whoever is still parked after the sleep has no deadline, or its deadline (upper bound of
   the timer's start + d + tolerance) lies after the end of the sleep *)
Lemma pass_not_late : forall s u b,
  In b (q_bsend (do_pass s u) ++ q_brecv (do_pass s u)) ->
  b_d b = 0 \/ u < hi_of b + b_d b + tol \/ u < b_lo b + b_d b.
Proof.
  intros s u b H. destruct (do_pass_parked s u) as [A B]. rewrite A, B in H.
  assert (F : fired u b = false).
  { apply in_app_or in H as [H|H]; apply filter_In in H as [_ H]; destruct (fired u b); [discriminate|reflexivity|discriminate|reflexivity]. }
  unfold fired in F. lia.
Qed.

(* with no deadline a parked call stays parked through any sleep *)
Lemma pass_no_deadline_waits : forall s u b,
  In b (q_bsend s ++ q_brecv s) -> b_d b = 0 -> In (b_t b) (blocked (do_pass s u)).
Proof.
  intros s u b H Hd. destruct (do_pass_parked s u) as [A B]. unfold blocked. rewrite A, B.
  apply in_or_app. apply in_app_or in H as [H|H]; [left|right];
    apply (seal_of u) in H as [b' [Hb [Et [_ Ed]]]]; rewrite <- Et; apply in_map; apply filter_In; (split; [exact Hb|]);
    unfold fired; rewrite Ed, Hd; reflexivity.
Qed.

(* at entry: a Send with room / a Recv with a message waiting completes, whatever the deadline *)
Lemma do_send_room_completes : forall k s t hdr body s',
  (k_send k = SkShared \/ k_send k = SkCentral) -> q_be s = false -> q_closed s = false ->
  (k_fnp k && q_fnp s && no_peers s) = false -> send_room k s = true ->
  In s' (do_send k s t hdr body) -> In (ORet t ROk) (q_out s').
Proof.
  intros k s t hdr body s' Hk Hbe Hc Hnp Hroom H. unfold do_send in H.
  rewrite Hc, Hnp, Hbe, Hroom, Bool.andb_false_r in H. rewrite send_outcome_entry_room in H.
  destruct Hk as [Hk|Hk]; rewrite Hk in H; cbn [flat_map app] in H; destruct H as [<-|[]]; left; reflexivity.
Qed.
Lemma do_recv_msg_completes : forall k s t s',
  k_recv k <> RkNone -> q_closed s = false -> recv_has s = true ->
  In s' (do_recv k s t) -> exists h b, In (ORet t (RMsg h b)) (q_out s').
Proof.
  intros k s t s' Hk Hc Hm H. unfold do_recv in H. rewrite Hc, Hm, recv_outcome_entry_msg in H.
  destruct (k_recv k); [contradiction| | |]; cbn [flat_map app] in H; destruct (rx_take s) as [[m s1]|];
    try contradiction; destruct H as [<-|[]]; exists (fst m), (snd m); left; reflexivity.
Qed.

(* fail-no-peers in the queue machine (xpush): at entry, and when the last pipe leaves *)
Lemma do_send_no_peers_fast : forall k s t hdr body,
  (k_send k = SkShared \/ k_send k = SkCentral) -> (k_closedcheck k && q_closed s) = false ->
  k_fnp k = true -> q_fnp s = true -> no_peers s = true ->
  do_send k s t hdr body = [reply s t (RErr ENoPeers)].
Proof.
  intros k s t hdr body Hk Hc Hf Hq Hn. unfold do_send. rewrite Hc, Hf, Hq, Hn.
  destruct Hk as [Hk|Hk]; rewrite Hk; reflexivity.
Qed.

(* ---------- the code as found: a queue resize restarts the receive deadline ---------- *)
Fixpoint qtrace (k : cfg) (s : qst) (h : list stim) : list step_rec :=
  match h with
  | [] => []
  | st :: r => let '(s', os) := dstep k s st in (st, os, blocked s') :: qtrace k s' r
  end.

(* RECV-DEADLINE 80 ms; Recv parks at t = 2; sleep to 50; READQ-LEN := 2; sleep to 118; sleep to 261 *)
Definition resize_witness : list stim :=
  [STick 0; SCall 1 (CSetOpt 0 ORecvDeadline 80%Z []); STick 2; SCall 2 (CRecv 0); STick 6; SPass 50; STick 50;
   SCall 3 (CSetOpt 0 OReadQLen 2%Z []); STick 54; SPass 118; STick 118; SPass 261].

Lemma resize_witness_model :
  map (fun r => (snd (fst r), snd r)) (qtrace (as_found cfg_xpair) qinit resize_witness) =
  [([], []); ([ORet 1 ROk], []); ([], []); ([], [2]); ([], [2]); ([], [2]); ([], [2]); ([ORet 3 ROk], [2]); ([], [2]);
   ([], [2]);      (* t = 118 > 6 + 80 + 10: the faithful model keeps the call parked, as the code does *)
   ([], [2]); ([ORet 2 (RErr ERecvTimeout)], [])].
Proof. vm_compute. reflexivity. Qed.

Lemma resize_restarts_deadline :
  DeadlineOracle.c18_late_resize_oracle (qtrace (as_found cfg_xpair) qinit resize_witness) = Some 9 /\
  DeadlineOracle.c18_late_oracle (qtrace (as_found cfg_xpair) qinit resize_witness) = None /\
  DeadlineOracle.c18_early_oracle (qtrace (as_found cfg_xpair) qinit resize_witness) = None.
Proof. vm_compute. auto. Qed.

(* the repaired code (timer created once per call): on the same history the call times out at its own deadline *)
Lemma resize_keeps_deadline :
  map (fun r => (snd (fst r), snd r)) (qtrace cfg_xpair qinit resize_witness) =
  [([], []); ([ORet 1 ROk], []); ([], []); ([], [2]); ([], [2]); ([], [2]); ([], [2]); ([ORet 3 ROk], [2]); ([], [2]);
   ([ORet 2 (RErr ERecvTimeout)], []); ([], []); ([], [])] /\
  DeadlineOracle.c18_late_resize_oracle (qtrace cfg_xpair qinit resize_witness) = None /\
  DeadlineOracle.c18_late_oracle (qtrace cfg_xpair qinit resize_witness) = None /\
  DeadlineOracle.c18_early_oracle (qtrace cfg_xpair qinit resize_witness) = None.
Proof. vm_compute. auto. Qed.
