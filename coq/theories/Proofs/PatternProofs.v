(* What a cooked send puts in front of the body, and that the peer's receive filter hands the body back. *)
From MV Require Import Lib.Bytes Model.Hops Model.Wire Proofs.HopsProofs Proofs.WireProofs.
From Coq Require Import ZifyBool ZifyN ZifyNat.
Open Scope N_scope.

Inductive pattern := PPair | PPair1 | PPubSub | PReqRep | PPushPull | PSurvey | PBus | PStar.

(* wire body of a cooked send (id = request / survey id, 31 bits; the top bit is forced) *)
Definition tx_cooked (p : pattern) (id : N) (body : bytes) : bytes :=
  match p with
  | PPair | PPubSub | PPushPull | PBus => body
  | PPair1 | PStar => [x00; x00; x00; x00] ++ body
  | PReqRep | PSurvey => be_enc 4 (2 ^ 31 + id mod 2 ^ 31) ++ body
  end.

(* the receive filter on the other side *)
Definition rx_peer (p : pattern) (ttl pid : N) (wire : bytes) : option rx :=
  match p with
  | PPair | PPubSub | PPushPull | PBus => Some (Deliver [] wire)
  | PPair1 => rx_model RXPair1 ttl pid wire
  | PStar => rx_model RXStar ttl pid wire
  | PReqRep => rx_model RRep ttl pid wire
  | PSurvey => rx_model RRespondent ttl pid wire
  end.

Lemma id_word_high id : high_word (be_enc 4 (2 ^ 31 + id mod 2 ^ 31)).
Proof.
  cbn [be_enc]. eexists _, _, _, _. split; [reflexivity|].
  unfold high. change (256 ^ N.of_nat 3) with 16777216.
  assert (H : id mod 2 ^ 31 < 2 ^ 31) by (apply N.mod_lt; lia).
  set (x := id mod 2 ^ 31) in *.
  assert (H1 : 128 <= (2 ^ 31 + x) / 16777216).
  { apply N.div_le_lower_bound; lia. }
  assert (H2 : (2 ^ 31 + x) / 16777216 < 256).
  { apply N.div_lt_upper_bound; lia. }
  rewrite b2n_n2b by exact H2. lia.
Qed.

Lemma pattern_roundtrip p ttl pid id body : 0 < ttl < 256 ->
  exists h, rx_peer p ttl pid (tx_cooked p id body) = Some (Deliver h body).
Proof.
  intro Ht. destruct p; cbn [rx_peer tx_cooked]; try (eexists; reflexivity).
  - (* pair1: hop count 0 *)
    pose proof (rx_xpair1_exact ttl 0 body ltac:(lia) ltac:(lia)) as E.
    change (be_enc 4 0) with [x00; x00; x00; x00] in E. cbn [rx_model]. rewrite E.
    destruct (N.leb_spec 0 ttl); [|lia]. cbn. eexists; reflexivity.
  - (* req -> rep, direct: one word *)
    pose proof (bt_exact rep_params ttl [] body _ [] eq_refl (id_word_high id) (Forall_nil _)) as E.
    cbn [concat app length] in E. cbn [rx_model]. rewrite E.
    destruct (N.leb_spec (N.of_nat 0 + 1) ttl); [|lia]. eexists; reflexivity.
  - pose proof (bt_exact respondent_params ttl [] body _ [] eq_refl (id_word_high id) (Forall_nil _)) as E.
    cbn [concat app length] in E. cbn [rx_model]. rewrite E.
    destruct (N.leb_spec (N.of_nat 0 + 1) ttl); [|lia]. eexists; reflexivity.
  - (* star: hop byte 0 *)
    pose proof (rx_xstar_exact ttl 0 body Ht ltac:(lia)) as E.
    change (n2b 0) with x00 in E. cbn [rx_model]. rewrite E.
    destruct (N.ltb_spec 0 ttl); [|lia]. eexists; reflexivity.
Qed.
