(* C04: what a retransmission is, for every state of the REQ model: when the retry timer of the request a context is
   still waiting on fires and a pipe is ready, exactly that request -- its own id, its own bytes -- is written to the
   first ready pipe, once; the pipe goes back to the ready queue; the timer is armed again. *)
From MV Require Import Lib.Proto Model.Req Proofs.ReqProofs.
From Coq Require Import Lia.
Open Scope N_scope.

Lemma arm_out s c k ms : out (fst (arm s c k ms)) = out s.
Proof. reflexivity. Qed.

(* whatever send_one writes is the message stored in the context, under its own id *)
Lemma send_one_tx s c p x pp sq rq :
  exists mid body, (match c_reqMsg (sched_ctx x p) with Some m => m | None => (0, []) end) = (mid, body) /\
    out (send_one s c p x pp sq rq) = OTx p (req_hdr mid) body :: out s.
Proof.
  unfold send_one.
  destruct (match c_reqMsg (sched_ctx x p) with Some m => m | None => (0, []) end) as [mid body] eqn:Em.
  exists mid, body. split; [reflexivity|].
  destruct (c_sendMsg x) as [[t m]|]; destruct (0 <? c_resend (sched_ctx x p)); destruct (pp_hold pp); reflexivity.
Qed.

Theorem resend_transmits_own_request : forall s c id x mid body p rq pp,
  aget c (ctxs s) = Some x -> c_reqID x = id -> c_reqMsg x = Some (mid, body) -> c_sendMsg x = None -> c_queued x = false ->
  sendQ s = [] -> readyQ s = p :: rq -> get_pipe s p = Some pp -> pp_hold pp = false ->
  let s' := resend_message s c id in
  out s' = OTx p (req_hdr mid) body :: out s /\ readyQ s' = rq ++ [p] /\ sendQ s' = [].
Proof.
  intros s c id x mid body p rq pp Hx Hid Hm Hs Hq HsQ HrQ Hp Hh s'. unfold s', resend_message.
  rewrite Hx, Hid, N.eqb_refl, Hm, Hq. cbn [andb negb].
  set (x1 := with_ctx x id (Some (mid, body)) (c_repMsg x) (c_sendMsg x) (c_lastPipe x) true).
  set (s1 := upd_sendQ (set_ctx s c x1) (sendQ s ++ [c])).
  assert (Hs1q : sendQ s1 = [c]) by (unfold s1; cbn; rewrite HsQ; reflexivity).
  assert (Hs1r : readyQ s1 = p :: rq) by exact HrQ.
  assert (Hs1c : aget c (ctxs s1) = Some x1) by (unfold s1; cbn; apply aget_aset_same).
  assert (Hs1p : get_pipe s1 p = Some pp) by exact Hp.
  unfold send_all. rewrite Hs1q. cbn [length Nat.mul Nat.add]. cbn [do_send]. rewrite Hs1q, Hs1r, Hs1c, Hs1p.
  (* one iteration; afterwards the send queue is empty *)
  assert (Hx1s : c_sendMsg x1 = None) by exact Hs.
  assert (Hx1m : c_reqMsg (sched_ctx x1 p) = Some (mid, body)) by (unfold sched_ctx; rewrite Hx1s; reflexivity).
  assert (Hone : out (send_one s1 c p x1 pp [] rq) = OTx p (req_hdr mid) body :: out s /\
                 readyQ (send_one s1 c p x1 pp [] rq) = rq ++ [p] /\ sendQ (send_one s1 c p x1 pp [] rq) = []).
  { unfold send_one. rewrite Hx1s, Hx1m, Hh. destruct (0 <? c_resend (sched_ctx x1 p)); repeat split; reflexivity. }
  destruct Hone as (A & B & C). rewrite C. auto.
Qed.

(* ---- no retransmission once the reply has arrived ---- *)
Lemma aget_set_ctx_same s c x : aget c (ctxs (set_ctx s c x)) = Some x.
Proof. cbn. apply aget_aset_same. Qed.

(* for EVERY state: when a reply that matches a registered request arrives, the context's stored request is dropped, so
   from then on its retry timer -- whichever id it carries -- re-sends nothing *)
Theorem no_resend_after_reply : forall fixed s p a b c' d payload id cx,
  wire_key fixed (be_dec [a; b; c'; d]) = Some id ->
  aget id (ctxByID s) = Some cx ->
  (exists x, aget cx (ctxs (cancel_send s cx)) = Some x) ->
  let s' := pipe_recv fixed s p (a :: b :: c' :: d :: payload) in
  (exists x', aget cx (ctxs s') = Some x' /\ c_reqMsg x' = None /\ c_repMsg x' = Some (id, payload)) /\
  forall id', resend_message s' cx id' = s'.
Proof.
  intros fixed s p a b c' d payload id cx Hk Hreg [x Hx] s'.
  assert (Hs' : exists x', aget cx (ctxs s') = Some x' /\ c_reqMsg x' = None /\ c_repMsg x' = Some (id, payload)).
  { unfold s', pipe_recv. rewrite Hk.
    set (s1 := if existsb (N.eqb p) (readyQ s) then _ else s).
    assert (H1 : ctxByID s1 = ctxByID s) by (unfold s1; destruct (existsb (N.eqb p) (readyQ s)); reflexivity).
    assert (H2 : cancel_send s1 cx = (if existsb (N.eqb p) (readyQ s) then upd_readyQ (cancel_send s cx) (readyQ s1) else cancel_send s cx)).
    { unfold s1. destruct (existsb (N.eqb p) (readyQ s)); [|reflexivity].
      unfold cancel_send. cbn [ctxs upd_readyQ]. destruct (aget cx (ctxs s)) as [y|]; [|reflexivity]. destruct (c_queued y); reflexivity. }
    assert (H3 : aget cx (ctxs (cancel_send s1 cx)) = Some x).
    { rewrite H2. destruct (existsb (N.eqb p) (readyQ s)); exact Hx. }
    rewrite H1, Hreg, H3.
    eexists. split; [cbn; apply aget_aset_same|]. split; reflexivity. }
  split; [exact Hs'|].
  destruct Hs' as (x' & Hx' & Hm & _). intro id'. unfold resend_message. rewrite Hx', Hm.
  rewrite Bool.andb_false_r. reflexivity.
Qed.

(* the retry timer armed with a transmission is due exactly one retry interval later (model clock) *)
Lemma arm_due s c k ms : exists tm, In tm (timers (fst (arm s c k ms))) /\ tm_id tm = snd (arm s c k ms) /\ tm_due tm = now s + ms /\ tm_kind tm = k /\ tm_ctx tm = c.
Proof. unfold arm. cbn. eexists. split; [apply in_or_app; right; left; reflexivity|]. cbn. auto. Qed.
