(* C04: what a retransmission is, for every state of the REQ model: when the retry timer of the request a context is
   still waiting on fires and a pipe is ready, exactly that request -- its own id, its own bytes -- is written to the
   first ready pipe, once; the pipe goes back to the ready queue; the timer is armed again. *)
From MV Require Import Lib.Proto Model.Req Proofs.ReqProofs.
From Coq Require Import Lia.
Open Scope N_scope.

Lemma arm_out s c k ms : out (fst (arm s c k ms)) = out s.
Proof. reflexivity. Qed.

(* whatever send_one writes is the message stored in the context, under its own id *)
Lemma send_one_tx s c p x pp sq rq :
  exists mid body, (match c_reqMsg (sched_ctx x p) with Some m => m | None => (0, []) end) = (mid, body) /\
    out (send_one s c p x pp sq rq) = OTx p (req_hdr mid) body :: out s.
Proof.
  unfold send_one.
  destruct (match c_reqMsg (sched_ctx x p) with Some m => m | None => (0, []) end) as [mid body] eqn:Em.
  exists mid, body. split; [reflexivity|].
  destruct (c_sendMsg x) as [[t m]|]; destruct (0 <? c_resend (sched_ctx x p)); destruct (pp_hold pp); reflexivity.
Qed.

Theorem resend_transmits_own_request : forall s c id x mid body p rq pp,
  aget c (ctxs s) = Some x -> c_reqID x = id -> c_reqMsg x = Some (mid, body) -> c_sendMsg x = None -> c_queued x = false ->
  sendQ s = [] -> readyQ s = p :: rq -> get_pipe s p = Some pp -> pp_hold pp = false ->
  let s' := resend_message s c id in
  out s' = OTx p (req_hdr mid) body :: out s /\ readyQ s' = rq ++ [p] /\ sendQ s' = [].
Proof.
  intros s c id x mid body p rq pp Hx Hid Hm Hs Hq HsQ HrQ Hp Hh s'. unfold s', resend_message.
  rewrite Hx, Hid, N.eqb_refl, Hm, Hq. cbn [andb negb].
  set (x1 := with_ctx x id (Some (mid, body)) (c_repMsg x) (c_sendMsg x) (c_lastPipe x) true).
  set (s1 := upd_sendQ (set_ctx s c x1) (sendQ s ++ [c])).
  assert (Hs1q : sendQ s1 = [c]) by (unfold s1; cbn; rewrite HsQ; reflexivity).
  assert (Hs1r : readyQ s1 = p :: rq) by exact HrQ.
  assert (Hs1c : aget c (ctxs s1) = Some x1) by (unfold s1; cbn; apply aget_aset_same).
  assert (Hs1p : get_pipe s1 p = Some pp) by exact Hp.
  unfold send_all. rewrite Hs1q. cbn [length Nat.mul Nat.add]. cbn [do_send]. rewrite Hs1q, Hs1r, Hs1c, Hs1p.
  (* one iteration; afterwards the send queue is empty *)
  assert (Hx1s : c_sendMsg x1 = None) by exact Hs.
  assert (Hx1m : c_reqMsg (sched_ctx x1 p) = Some (mid, body)) by (unfold sched_ctx; rewrite Hx1s; reflexivity).
  assert (Hone : out (send_one s1 c p x1 pp [] rq) = OTx p (req_hdr mid) body :: out s /\
                 readyQ (send_one s1 c p x1 pp [] rq) = rq ++ [p] /\ sendQ (send_one s1 c p x1 pp [] rq) = []).
  { unfold send_one. rewrite Hx1s, Hx1m, Hh. destruct (0 <? c_resend (sched_ctx x1 p)); repeat split; reflexivity. }
  destruct Hone as (A & B & C). rewrite C. auto.
Qed.
