(* Soundness of the check-then-register analysis (Model/AtomCfg.v): if the certificate check accepts a function, then
   along EVERY path through its control-flow skeleton, of any length, each insertion into the registry field is preceded
   by a read of the `closed` flag with no lock operation and no call in between. *)
From MV Require Import Model.RaceCfg Model.AtomCfg Proofs.RaceSound.
From Coq Require Import Lia Arith PeanoNat.
Open Scope N_scope.

Lemma atransfer_mono L rd s s' i : implb s s' = true -> implb (atransfer L rd s i) (atransfer L rd s' i) = true.
Proof.
  destruct i as [c|c|c|[|] f|g|g], s, s'; cbn; intro H; try reflexivity; try discriminate;
    try (destruct (f =? rd); reflexivity); destruct (lk L g); reflexivity.
Qed.

Lemma aseen_mono L rd : forall b s s', implb s s' = true -> implb (aseen L rd s b) (aseen L rd s' b) = true.
Proof.
  induction b as [|i r IH]; intros s s' H; [exact H|]. unfold aseen. cbn [fold_left]. apply IH, atransfer_mono, H.
Qed.

Lemma awrites_mono L ins rd : forall b s s', implb s s' = true -> awrites_ok L ins rd s b = true -> awrites_ok L ins rd s' b = true.
Proof.
  induction b as [|i r IH]; intros s s' H Hw; [reflexivity|].
  cbn [awrites_ok] in *. apply andb_true_iff in Hw as [H1 H2]. apply andb_true_iff. split.
  - destruct i as [c|c|c|[|] f|g|g]; try reflexivity. destruct (f =? ins); [|reflexivity]. rewrite H1 in H. exact H.
  - eapply IH; [apply atransfer_mono, H|exact H2].
Qed.

Lemma awrites_app L ins rd : forall a b s, awrites_ok L ins rd s (a ++ b) = awrites_ok L ins rd s a && awrites_ok L ins rd (aseen L rd s a) b.
Proof.
  induction a as [|i r IH]; intros b s; [reflexivity|].
  cbn [app awrites_ok]. rewrite IH. unfold aseen. cbn [fold_left]. rewrite andb_assoc. reflexivity.
Qed.

(* the instructions executed along a path of blocks *)
Fixpoint path_instrs (f : rfunc) (cur : nat) (p : list nat) : list rinstr :=
  match nth_error (rblocks f) cur with
  | None => []
  | Some b => rbody b ++ match p with [] => [] | n :: r => path_instrs f n r end
  end.

Section OneFunction.
  Variables (L : locky) (ins rd : N) (f : rfunc) (A : aassign).
  Hypothesis HC : acert_ok L ins rd f A = true.

  Lemma ac_block i : (i < length (rblocks f))%nat -> ablock_ok L ins rd f A i = true.
  Proof.
    intro Hi. pose proof HC as HC'. unfold acert_ok in HC'. apply andb_true_iff in HC' as [_ H].
    rewrite forallb_forall in H. apply H. apply in_seq. lia.
  Qed.

  Lemma apath_sound : forall p cur a s,
    nth_error A cur = Some (Some a) -> implb a s = true -> rvalid f cur p = true ->
    awrites_ok L ins rd s (path_instrs f cur p) = true.
  Proof.
    induction p as [|n r IH]; intros cur a s HA Hs Hv; cbn [path_instrs];
      destruct (nth_error (rblocks f) cur) as [b|] eqn:Eb; try reflexivity.
    - assert (Hi : (cur < length (rblocks f))%nat) by (apply nth_error_Some; congruence).
      pose proof (ac_block cur Hi) as Hb. unfold ablock_ok in Hb. rewrite HA, Eb in Hb. apply andb_true_iff in Hb as [Hw _].
      rewrite app_nil_r. eapply awrites_mono; [exact Hs|exact Hw].
    - assert (Hi : (cur < length (rblocks f))%nat) by (apply nth_error_Some; congruence).
      pose proof (ac_block cur Hi) as Hb. unfold ablock_ok in Hb. rewrite HA, Eb in Hb. apply andb_true_iff in Hb as [Hw Hsucc].
      rewrite awrites_app. apply andb_true_iff. split; [eapply awrites_mono; [exact Hs|exact Hw]|].
      cbn [rvalid] in Hv. rewrite Eb in Hv. apply andb_true_iff in Hv as [Hin Hv]. apply existsb_nat_in in Hin.
      rewrite forallb_forall in Hsucc. specialize (Hsucc n Hin).
      destruct (nth_error A n) as [[t|]|] eqn:En; try discriminate.
      eapply IH; [exact En| |exact Hv].
      pose proof (aseen_mono L rd (rbody b) a s Hs) as Hm.
      destruct t; [|reflexivity]. cbn [implb] in Hsucc |- *. rewrite Hsucc in Hm. exact Hm.
  Qed.

  Theorem afunc_sound : forall p, rvalid f 0 p = true -> awrites_ok L ins rd false (path_instrs f 0 p) = true.
  Proof.
    intros p Hv. destruct (nth_error (rblocks f) 0) as [b|] eqn:Eb.
    - pose proof HC as HC'. unfold acert_ok in HC'. apply andb_true_iff in HC' as [H0 _]. apply andb_true_iff in H0 as [_ H0].
      destruct (nth_error A 0) as [[a|]|] eqn:EA.
      + eapply apath_sound; [exact EA| |exact Hv]. destruct a; [discriminate H0|reflexivity].
      + destruct (rblocks f); [discriminate Eb|discriminate H0].
      + destruct (rblocks f); [discriminate Eb|discriminate H0].
    - destruct p; cbn [path_instrs]; rewrite Eb; reflexivity.
  Qed.
End OneFunction.

(* ---- what the accepted traces mean ---- *)
(* instructions that cannot end the critical section: no lock operation here, and calls only of functions that never
   reach a lock operation (see lock_free below) *)
Definition quiet (L : locky) (i : rinstr) : Prop :=
  match i with RLock _ | RUnlock _ => False | RCall g => lk L g = false | _ => True end.

Lemma aseen_meaning L rd : forall tr, aseen L rd false tr = true ->
  exists a b, tr = a ++ RAccess false rd :: b /\ Forall (quiet L) b.
Proof.
  intro tr. induction tr as [|i r IH] using rev_ind; [discriminate|].
  unfold aseen. rewrite fold_left_app. cbn [fold_left]. fold (aseen L rd false r).
  destruct i as [c|c|c|[|] f|g|g]; cbn [atransfer]; try discriminate.
  - intro H. destruct (IH H) as (a & b & -> & Hq). exists a, (b ++ [RDeferUnlock c]). split; [rewrite <- app_assoc; reflexivity|].
    apply Forall_app. split; [exact Hq|repeat constructor].
  - intro H. destruct (IH H) as (a & b & -> & Hq). exists a, (b ++ [RAccess true f]). split; [rewrite <- app_assoc; reflexivity|].
    apply Forall_app. split; [exact Hq|repeat constructor].
  - intro H. apply orb_true_iff in H as [H|H].
    + destruct (IH H) as (a & b & -> & Hq). exists a, (b ++ [RAccess false f]). split; [rewrite <- app_assoc; reflexivity|].
      apply Forall_app. split; [exact Hq|repeat constructor].
    + apply N.eqb_eq in H. subst. exists r, []. split; [reflexivity|constructor].
  - destruct (lk L g) eqn:El; [discriminate|].
    intro H. destruct (IH H) as (a & b & -> & Hq). exists a, (b ++ [RCall g]). split; [rewrite <- app_assoc; reflexivity|].
    apply Forall_app. split; [exact Hq|]. constructor; [exact El|constructor].
  - intro H. destruct (IH H) as (a & b & -> & Hq). exists a, (b ++ [RGo g]). split; [rewrite <- app_assoc; reflexivity|].
    apply Forall_app. split; [exact Hq|repeat constructor].
Qed.

Lemma awrites_meaning L ins rd : forall tr s, awrites_ok L ins rd s tr = true ->
  forall a b, tr = a ++ RAccess true ins :: b -> aseen L rd s a = true.
Proof.
  intros tr s H a b ->. rewrite awrites_app in H. apply andb_true_iff in H as [_ H].
  cbn [awrites_ok] in H. rewrite N.eqb_refl in H. apply andb_true_iff in H as [H _]. exact H.
Qed.

(* the statement in words: on every path through an accepted function, every insertion is preceded by a read of the
   flag with only lock-free instructions in between *)
Theorem insert_after_check L ins rd f : rctor f = false -> afunc_ok L ins rd f = true ->
  forall p, rvalid f 0 p = true ->
  forall a b, path_instrs f 0 p = a ++ RAccess true ins :: b ->
  exists a1 a2, a = a1 ++ RAccess false rd :: a2 /\ Forall (quiet L) a2.
Proof.
  intros Hc Hok p Hv a b E. unfold afunc_ok in Hok. rewrite Hc in Hok. cbn [orb] in Hok.
  pose proof (afunc_sound L ins rd f _ Hok p Hv) as Hw.
  apply (aseen_meaning L). eapply awrites_meaning; [exact Hw|exact E].
Qed.

(* ---- the call-graph part: a function with L = false never reaches a lock operation, however deep the calls ---- *)
Inductive reaches_lock (prog : list rfunc) : N -> Prop :=
| RL_here g f i : nth_error prog (N.to_nat g) = Some f -> In i (instrs_of f) ->
    (match i with RLock _ | RUnlock _ | RDeferUnlock _ => True | _ => False end) -> reaches_lock prog g
| RL_call g f g' : nth_error prog (N.to_nat g) = Some f -> In (RCall g') (instrs_of f) -> reaches_lock prog g' -> reaches_lock prog g.

Lemma lcert_entry prog L g f : lcert_ok prog L = true -> nth_error prog (N.to_nat g) = Some f -> lk L g = false ->
  forallb (lock_free_instr L) (instrs_of f) = true.
Proof.
  intros HC Hf Hl. unfold lcert_ok in HC. apply andb_true_iff in HC as [Hlen HC]. apply Nat.eqb_eq in Hlen.
  rewrite forallb_forall in HC.
  unfold lk in Hl.
  assert (Hn : (N.to_nat g < length prog)%nat) by (apply nth_error_Some; congruence).
  assert (Hb : nth_error L (N.to_nat g) = Some false).
  { rewrite (nth_error_nth' L true) by lia. rewrite Hl. reflexivity. }
  specialize (HC (false, f)). cbn in HC. apply HC.
  clear HC Hl Hn. revert L Hlen Hb Hf. generalize (N.to_nat g) as n. intro n. revert prog.
  induction n as [|n IH]; intros prog L Hlen Hb Hf; destruct L as [|b L], prog as [|f0 prog]; try discriminate.
  - cbn in Hb, Hf. injection Hb as ->. injection Hf as ->. left. reflexivity.
  - cbn in Hb, Hf. right. apply IH; [cbn in Hlen; lia|exact Hb|exact Hf].
Qed.

Theorem lock_free prog L : lcert_ok prog L = true -> forall g, reaches_lock prog g -> lk L g = true.
Proof.
  intros HC g H. induction H as [g f i Hf Hi Hk|g f g' Hf Hi Hr IH].
  - destruct (lk L g) eqn:El; [reflexivity|].
    pose proof (lcert_entry prog L g f HC Hf El) as Ha. rewrite forallb_forall in Ha. specialize (Ha i Hi).
    destruct i; try contradiction; discriminate.
  - destruct (lk L g) eqn:El; [reflexivity|].
    pose proof (lcert_entry prog L g f HC Hf El) as Ha. rewrite forallb_forall in Ha. specialize (Ha _ Hi).
    cbn in Ha. rewrite IH in Ha. discriminate.
Qed.
