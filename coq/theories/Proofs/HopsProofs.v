From MV Require Import Lib.Bytes Model.Hops.
From Coq Require Import ZifyBool ZifyN ZifyNat.
Open Scope N_scope.

(* parameters under which the loop counts connections exactly *)
Definition params_ok (p : N * cmp) : bool :=
  match p with
  | (0, CmpGE) => true
  | (1, CmpGT) => true
  | _ => false
  end.

(* with ok parameters, after i words have been consumed the limit test fires iff ttl < i + 1,
   i.e. iff reading one more word would mean more than ttl connections *)
Lemma cmp_test_ok s c ttl i : params_ok (s, c) = true ->
  cmp_test c (s + i) ttl = (ttl <? i + 1).
Proof.
  unfold params_ok.
  destruct s as [|[?|?|]]; destruct c; try discriminate; intros _; unfold cmp_test; lia.
Qed.

Lemma bt_loop_exact c ttl start (Hok : params_ok (start, c) = true) payload w :
  high_word w ->
  forall ws, Forall low_word ws ->
  forall fuel i hdr,
    (length (concat ws ++ w ++ payload) < fuel)%nat ->
    bt_loop fuel c ttl (start + i) hdr (concat ws ++ w ++ payload) =
    Some (if i + N.of_nat (length ws) + 1 <=? ttl
          then Deliver (hdr ++ concat ws ++ w) payload else Drop).
Proof.
  intros (a & b & c' & d & -> & Ha).
  induction 1 as [|w0 ws (a0 & b0 & c0 & d0 & -> & Ha0) _ IH]; intros fuel i hdr Hf.
  - cbn [concat app length] in *. destruct fuel as [|fuel]; [lia|].
    cbn [bt_loop]. rewrite (cmp_test_ok start c ttl i Hok).
    replace (i + N.of_nat 0 + 1) with (i + 1) by lia.
    destruct (N.ltb_spec ttl (i + 1)); destruct (N.leb_spec (i + 1) ttl); try lia; [reflexivity|].
    rewrite Ha. reflexivity.
  - cbn [concat app length] in *. destruct fuel as [|fuel]; [lia|].
    cbn [bt_loop]. rewrite (cmp_test_ok start c ttl i Hok).
    destruct (N.ltb_spec ttl (i + 1)) as [Hlt|Hge].
    + destruct (N.leb_spec (i + N.of_nat (S (length ws)) + 1) ttl); [lia|reflexivity].
    + rewrite Ha0. replace (start + i + 1) with (start + (i + 1)) by lia.
      rewrite IH by (cbn [length] in Hf; lia).
      replace (i + 1 + N.of_nat (length ws) + 1) with (i + N.of_nat (S (length ws)) + 1) by lia.
      rewrite <- !app_assoc. reflexivity.
Qed.

(* top-level form: a message that crossed k = |ws| + 1 connections *)
Lemma bt_exact p ttl hdr payload w ws : params_ok p = true ->
  high_word w -> Forall low_word ws ->
  bt p ttl hdr (concat ws ++ w ++ payload) =
  Some (if N.of_nat (length ws) + 1 <=? ttl then Deliver (hdr ++ concat ws ++ w) payload else Drop).
Proof.
  intros Hok Hw Hws. destruct p as [start c]. unfold bt. cbn [fst snd].
  replace start with (start + 0) at 1 by lia.
  rewrite (bt_loop_exact c ttl start Hok payload w Hw ws Hws) by lia.
  reflexivity.
Qed.

Lemma params_all_ok :
  params_ok rep_params = true /\ params_ok xrep_params = true /\
  params_ok respondent_params = true /\ params_ok xrespondent_params = true.
Proof. repeat split; reflexivity. Qed.

(* the (1, >=) variant -- what xrespondent did before the repair -- drops k = ttl *)
Lemma off_by_one_witness :
  bt (1, CmpGE) 3 [] (unhex "000000010000000280000003" ++ unhex "aa") = Some Drop /\
  bt (1, CmpGT) 3 [] (unhex "000000010000000280000003" ++ unhex "aa") =
    Some (Deliver (unhex "000000010000000280000003") (unhex "aa")).
Proof. split; vm_compute; reflexivity. Qed.

(* the loop never runs out of fuel and never crashes on any body *)
Lemma bt_loop_total c ttl : forall fuel hops hdr body, (length body < fuel)%nat ->
  bt_loop fuel c ttl hops hdr body <> None.
Proof.
  induction fuel as [|fuel IH]; intros hops hdr body Hf; [lia|].
  cbn [bt_loop]. destruct (cmp_test c hops ttl); [discriminate|].
  destruct body as [|a [|b [|c' [|d rest]]]]; try discriminate.
  destruct (high a); [discriminate|]. apply IH. cbn [length] in Hf. lia.
Qed.

Lemma rx_model_total r ttl pid body : rx_model r ttl pid body <> None.
Proof.
  destruct r; cbn [rx_model]; unfold bt; try discriminate; try (apply bt_loop_total; lia).
  destruct body as [|a [|b [|c' [|d rest]]]]; try discriminate. apply bt_loop_total; lia.
Qed.

(* anything delivered upward by a backtrace receiver has a well-formed header: the given prefix,
   then words with the top bit clear, then exactly one word with the top bit set; at most ttl words
   for ok parameters; and header ++ body is the prefix plus the original body (nothing invented). *)
Lemma bt_loop_sound c ttl : forall fuel hops hdr body h b,
  bt_loop fuel c ttl hops hdr body = Some (Deliver h b) ->
  exists ws w, h = hdr ++ concat ws ++ w /\ Forall low_word ws /\ high_word w /\
               body = concat ws ++ w ++ b.
Proof.
  induction fuel as [|fuel IH]; intros hops hdr body h b H; [discriminate|].
  cbn [bt_loop] in H. destruct (cmp_test c hops ttl); [discriminate|].
  destruct body as [|a0 [|b0 [|c0 [|d0 rest]]]]; try discriminate.
  destruct (high a0) eqn:Ha.
  - inversion H; subst. exists [], [a0; b0; c0; d0]. cbn [concat app]. repeat split; auto.
    exists a0, b0, c0, d0; auto.
  - apply IH in H as (ws & w & -> & Hws & Hw & ->).
    exists ([a0; b0; c0; d0] :: ws), w. cbn [concat]. rewrite <- !app_assoc. cbn [app]. repeat split; auto.
    constructor; auto. exists a0, b0, c0, d0; auto.
Qed.

(* ---- xpair1 and xstar: single hop word ---- *)
Lemma rx_xpair1_exact ttl h payload : ttl < 256 -> h < 2 ^ 32 ->
  rx_xpair1 ttl (be_enc 4 h ++ payload) =
  if (h <=? ttl) && (h <? 255) then Deliver (firstn 3 (be_enc 4 h) ++ [n2b (h + 1)]) payload else Drop.
Proof.
  intros Ht Hh. pose proof (be_dec_enc 4 h ltac:(change (256 ^ N.of_nat 4) with (2 ^ 32); exact Hh)) as E.
  cbn [be_enc] in *. cbn [app rx_xpair1 firstn]. rewrite E.
  destruct (N.leb_spec 255 h); destruct (N.ltb_spec ttl h); destruct (N.leb_spec h ttl); destruct (N.ltb_spec h 255);
    cbn [orb andb]; try lia; reflexivity.
Qed.

Lemma rx_xstar_exact ttl h payload : 0 < ttl < 256 -> h < 256 ->
  rx_xstar ttl ([x00; x00; x00; n2b h] ++ payload) =
  if h <? ttl then Deliver [x00; x00; x00; n2b (h + 1)] payload else Drop.
Proof.
  intros Ht Hh. cbn [app rx_xstar]. rewrite b2n_n2b by exact Hh.
  change (b2n x00) with 0. cbn [N.eqb negb orb].
  destruct (N.leb_spec ttl h); destruct (N.ltb_spec h ttl); try lia; reflexivity.
Qed.

(* ---- TTL option ---- *)
Lemma ttl_range v : ttl_accepts v = true <-> (1 <= v <= 255)%Z.
Proof. unfold ttl_accepts. lia. Qed.

(* ---- devices: a chain of n forwarders between a REQ client and a REP server -------------------
   Each device receives on its raw REP side from pipe `pid` (prepending the pipe id to the header by
   rx_model RXRep) and re-sends on its raw REQ side (tx_raw_fwd).  The reply travels back: the raw REQ
   side receives (rx_first_word moves the first word to the header ... the raw REP side strips the first
   header word and uses it as the pipe to write to (tx_raw_back). *)

(* forward direction through the devices listed in `pids` (pipe id on which each device received);
   returns the bytes that arrive at the server *)
Fixpoint fwd_chain (ttl : N) (pids : list N) (wire : bytes) : option bytes :=
  match pids with
  | [] => Some wire
  | pid :: rest =>
    match rx_model RXRep ttl pid wire with
    | Some (Deliver h b) => fwd_chain ttl rest (tx_raw_fwd h b)
    | _ => None
    end
  end.

Definition pid_word (pid : N) : bytes := be_enc 4 pid.

Lemma pid_word_low pid : pid < 2 ^ 31 -> low_word (pid_word pid).
Proof.
  intro H. unfold pid_word, low_word. cbn [be_enc].
  eexists _, _, _, _. split; [reflexivity|].
  unfold high. rewrite b2n_n2b.
  - change (256 ^ N.of_nat 3) with 16777216.
    assert (pid / 16777216 < 128) by (apply N.div_lt_upper_bound; lia). lia.
  - change (256 ^ N.of_nat 3) with 16777216.
    assert (pid / 16777216 < 128) by (apply N.div_lt_upper_bound; lia). lia.
Qed.

(* after crossing the devices in pids (first = nearest the client), the wire message is
   rev-ordered pipe words ++ id word ++ payload *)
Lemma fwd_chain_exact ttl w payload : high_word w ->
  forall pids acc, Forall (fun p => p < 2 ^ 31) pids -> Forall low_word acc ->
  N.of_nat (length acc + length pids) + 1 <= ttl ->
  fwd_chain ttl pids (concat acc ++ w ++ payload) =
  Some (concat (rev (map pid_word pids) ++ acc) ++ w ++ payload).
Proof.
  intros Hw. induction pids as [|pid pids IH]; intros acc Hp Ha Hk.
  - cbn. reflexivity.
  - inversion Hp as [|? ? Hpid Hp']; subst.
    cbn [fwd_chain rx_model]. rewrite (bt_exact xrep_params ttl _ payload w acc eq_refl Hw Ha).
    cbn [length] in Hk.
    destruct (N.leb_spec (N.of_nat (length acc) + 1) ttl); [|lia].
    unfold tx_raw_fwd. rewrite <- !app_assoc.
    change (be_enc 4 pid ++ concat acc ++ w ++ payload) with (concat (pid_word pid :: acc) ++ w ++ payload).
    rewrite IH.
    + cbn [map rev]. rewrite <- app_assoc. reflexivity.
    + exact Hp'.
    + constructor; [apply pid_word_low; exact Hpid|exact Ha].
    + cbn [length]. lia.
Qed.

(* the reply path: the server's reply carries the backtrace it received (header = all words); each
   device's raw REP side pops the first word and writes to that pipe *)
(* one device on the way back: its raw REQ side moves the first word to the header (rx_first_word), its
   raw REP side takes that word as the pipe to write to and strips it (tx_raw_back) *)
Definition device_back (wire : bytes) : option (N * bytes) :=
  match rx_first_word wire with
  | Deliver h b => tx_raw_back h b
  | Drop => None
  end.

Fixpoint back_chain (wire : bytes) (n : nat) : option (list N * bytes) :=
  match n with
  | O => Some ([], wire)
  | S n' =>
    match device_back wire with
    | Some (pid, rest) =>
      match back_chain rest n' with
      | Some (l, r) => Some (pid :: l, r)
      | None => None
      end
    | None => None
    end
  end.

Lemma device_back_pid pid rest : pid < 2 ^ 32 ->
  device_back (pid_word pid ++ rest) = Some (pid, rest).
Proof.
  intro H. pose proof (be_dec_enc 4 pid ltac:(change (256 ^ N.of_nat 4) with (2 ^ 32); exact H)) as E.
  unfold pid_word, device_back in *. cbn [be_enc] in *. cbn [app rx_first_word tx_raw_back]. rewrite E. reflexivity.
Qed.

Lemma back_chain_exact rest : forall pids, Forall (fun p => p < 2 ^ 31) pids ->
  back_chain (concat (map pid_word pids) ++ rest) (length pids) = Some (pids, rest).
Proof.
  induction pids as [|pid pids IH]; intro Hp; [reflexivity|].
  inversion Hp as [|? ? Hpid Hp']; subst.
  cbn [map concat length back_chain]. rewrite <- app_assoc.
  rewrite device_back_pid by lia. rewrite IH by exact Hp'. reflexivity.
Qed.

(* whole round trip through n = |pids| devices *)
Lemma device_chain ttl pids w payload reply srvpipe :
  high_word w -> Forall (fun p => p < 2 ^ 31) pids -> N.of_nat (length pids) + 1 <= ttl ->
  exists wire_srv backtrace,
    fwd_chain ttl pids (w ++ payload) = Some wire_srv /\
    rx_model RRep ttl srvpipe wire_srv = Some (Deliver backtrace payload) /\
    back_chain (backtrace ++ reply) (length pids) = Some (rev pids, w ++ reply).
Proof.
  intros Hw Hp Hk.
  pose proof (fwd_chain_exact ttl w payload Hw pids [] Hp (Forall_nil _) ltac:(cbn [length]; lia)) as F.
  cbn [concat app] in F. rewrite app_nil_r in F.
  assert (Hlow : Forall low_word (rev (map pid_word pids))).
  { apply Forall_rev. apply Forall_forall. intros x Hx. apply in_map_iff in Hx as (q & <- & Hq).
    apply pid_word_low. rewrite Forall_forall in Hp. apply Hp, Hq. }
  eexists _, _. split; [exact F|]. split.
  - cbn [rx_model]. rewrite (bt_exact rep_params ttl [] payload w _ eq_refl Hw Hlow).
    rewrite rev_length, map_length.
    destruct (N.leb_spec (N.of_nat (length pids) + 1) ttl); [|lia]. reflexivity.
  - cbn [app]. rewrite <- map_rev, <- app_assoc, <- (rev_length pids).
    apply back_chain_exact. apply Forall_rev. exact Hp.
Qed.
