From MV Require Import Lib.Proto Model.Req Model.ReqOracle.
From Coq Require Import ZifyBool ZifyN ZifyNat.
Open Scope N_scope.

(* association-list facts *)
Lemma aget_aset_same {V} k (v : V) l : aget k (aset k v l) = Some v.
Proof.
  induction l as [|[k' v'] l IH]; cbn [aset aget].
  - rewrite N.eqb_refl. reflexivity.
  - destruct (N.eqb_spec k k'); cbn [aget].
    + rewrite N.eqb_refl. reflexivity.
    + destruct (N.eqb_spec k k'); [contradiction|exact IH].
Qed.

Lemma aget_aset_other {V} k k' (v : V) l : k <> k' -> aget k (aset k' v l) = aget k l.
Proof.
  intro H. induction l as [|[k2 v2] l IH]; cbn [aset aget].
  - destruct (N.eqb_spec k k'); [contradiction|reflexivity].
  - destruct (N.eqb_spec k' k2); cbn [aget].
    + subst. destruct (N.eqb_spec k k2); [contradiction|reflexivity].
    + destruct (N.eqb_spec k k2); [reflexivity|exact IH].
Qed.

(* keys are unique in the maps the model builds (aset never duplicates a key) *)
Fixpoint keys_nodup {V} (l : list (N * V)) : Prop :=
  match l with [] => True | (k, _) :: r => aget k r = None /\ keys_nodup r end.

Lemma aget_adel_same {V} k (l : list (N * V)) : keys_nodup l -> aget k (adel k l) = None.
Proof.
  induction l as [|[k' v'] l IH]; intro H; cbn [adel aget]; [reflexivity|].
  destruct H as [H1 H2]. destruct (N.eqb_spec k k').
  - subst. exact H1.
  - cbn [aget]. destruct (N.eqb_spec k k'); [contradiction|]. apply IH, H2.
Qed.

(* the wire word of a reply, as the receiver reads it *)
Definition wire_id (fixed : bool) (body : bytes) : option N :=
  match body with
  | a :: b :: c :: d :: _ => wire_key fixed (be_dec [a; b; c; d])
  | _ => None
  end.

(* a reply whose id is not registered (stale, foreign, duplicate, no request bit, short) changes no context,
   wakes nobody, produces no observation and leaves the id table alone *)
Lemma pipe_recv_unmatched fixed s p body :
  wire_id fixed body = None \/ (exists id, wire_id fixed body = Some id /\ aget id (ctxByID s) = None) ->
  ctxs (pipe_recv fixed s p body) = ctxs s /\ out (pipe_recv fixed s p body) = out s /\
  woken (pipe_recv fixed s p body) = woken s /\ threads (pipe_recv fixed s p body) = threads s /\
  ctxByID (pipe_recv fixed s p body) = ctxByID s.
Proof.
  intros H. unfold pipe_recv, wire_id in *.
  destruct body as [|a [|b [|c [|d payload]]]]; try (repeat split; reflexivity).
  set (w := be_dec [a; b; c; d]) in *.
  set (s1 := if existsb (N.eqb p) (readyQ s) then _ else s).
  assert (E : ctxs s1 = ctxs s /\ out s1 = out s /\ woken s1 = woken s /\ threads s1 = threads s /\ ctxByID s1 = ctxByID s).
  { subst s1. destruct (existsb (N.eqb p) (readyQ s)); repeat split; reflexivity. }
  destruct E as (E1 & E2 & E3 & E4 & E5).
  destruct (wire_key fixed w) as [id|] eqn:Ew.
  - destruct H as [H|(id' & Hid & Hn)]; [discriminate|]. inversion Hid; subst id'.
    rewrite E5, Hn. auto.
  - auto.
Qed.

Lemma cancel_send_byid s c : ctxByID (cancel_send s c) = ctxByID s.
Proof. unfold cancel_send. destruct (aget c (ctxs s)) as [y|]; [|reflexivity]. destruct (c_queued y); reflexivity. Qed.

Lemma cancel_send_ctx_some s c y : aget c (ctxs s) = Some y -> exists x, aget c (ctxs (cancel_send s c)) = Some x.
Proof.
  intro H. unfold cancel_send. rewrite H. destruct (c_queued y); [|eauto].
  cbn. rewrite aget_aset_same. eauto.
Qed.

Lemma stop_timer_byid s o : ctxByID (stop_timer s o) = ctxByID s.
Proof. destruct o; reflexivity. Qed.

(* a matched reply removes the id from the table: a second copy of it matches nothing *)
Lemma pipe_recv_consumes fixed s p body id c y :
  keys_nodup (ctxByID s) -> wire_id fixed body = Some id -> aget id (ctxByID s) = Some c -> aget c (ctxs s) = Some y ->
  aget id (ctxByID (pipe_recv fixed s p body)) = None.
Proof.
  intros Hk Hw Hg Hy. unfold pipe_recv, wire_id in *.
  destruct body as [|a [|b [|c' [|d payload]]]]; try discriminate.
  set (w := be_dec [a; b; c'; d]) in *.
  set (s1 := if existsb (N.eqb p) (readyQ s) then _ else s).
  assert (E : ctxByID s1 = ctxByID s /\ ctxs s1 = ctxs s).
  { subst s1. destruct (existsb (N.eqb p) (readyQ s)); split; reflexivity. }
  destruct E as (E5 & E1).
  rewrite Hw, E5, Hg.
  destruct (cancel_send_ctx_some s1 c y ltac:(rewrite E1; exact Hy)) as (x & Hx).
  rewrite Hx. cbn [wake set_ctx upd_ctxs log_match ctxByID]. rewrite !stop_timer_byid. cbn [upd_byid ctxByID].
  rewrite cancel_send_byid, E5. apply aget_adel_same, Hk.
Qed.

(* the repaired RecvMsg hands out a message only if the context's request is still the one this call
   waited for, and then it is that request's reply *)
Lemma recv_finish_current s t c id e b :
  In (ORet t (RMsg [] b)) (out (recv_finish true s t c id e)) -> ~ In (ORet t (RMsg [] b)) (out s) ->
  exists x i, aget c (ctxs s) = Some x /\ c_reqID x = id /\ c_repMsg x = Some (i, b).
Proof.
  unfold recv_finish. destruct (aget c (ctxs s)) as [x|] eqn:Ex; [|intros H Hn; contradiction].
  destruct (N.eqb_spec (c_reqID x) id) as [Heq|Hne]; cbn [andb negb].
  - destruct (c_repMsg x) as [[i m]|] eqn:Er; cbn; intros [H|H] Hn; try contradiction; try discriminate.
    inversion H; subst. eauto.
  - cbn. intros [H|H] Hn; [discriminate|contradiction].
Qed.

(* Recv with no request outstanding: protocol-state error at once, nobody becomes blocked *)
Lemma recv_without_request s t c x :
  aget c (ctxs s) = Some x -> sclosed s = false -> c_closed x = false -> (c_fnp x && no_pipes s) = false ->
  c_reqID x = 0 ->
  do_call s t (CRecv c) = emit s (ORet t (RErr EProtoState)).
Proof.
  intros Hx Hs Hc Hf Hr. cbn [do_call]. rewrite Hx, Hs, Hc, Hf, Hr. cbn [orb].
  rewrite orb_true_r. reflexivity.
Qed.

(* the schedule found while reading the code (DESIGN.md section 9 item 9), as stimuli *)
Definition defect9 : list stim :=
  [ SAddPipe 1;
    SCall 1 (CSend 0 [] (mkb 3 65793));          (* request 1 *)
    SCall 2 (CRecv 0);                           (* blocks *)
    SCall 3 (CSend 0 [] (mkb 3 131586));         (* request 2: cancels the Recv *)
    SCall 4 (CRecv 0);
    SCall 5 (CSend 0 [] (mkb 3 197379));         (* request 3 *)
    SDeliver 1 (be_enc 4 (2 ^ 31 + 2) ++ mkb 3 131586);   (* the reply to request 2 arrives late *)
    SCall 6 (CRecv 0) ].

Lemma defect9_old_model : c03_oracle (model_trace false init defect9) = Some 7.
Proof. vm_compute. reflexivity. Qed.
Lemma defect9_fixed_model : c03_oracle (model_trace true init defect9) = None.
Proof. vm_compute. reflexivity. Qed.
