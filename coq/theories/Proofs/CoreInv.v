(* The hook / protocol-notification language of every pipe, for EVERY history of stimuli on the repaired core
   (Model/Core.v with idfix = dialfix = true), provided the harness gives each new pipe a fresh name:
   the events concerning pipe p are, at every quiescent point, one of
       []                                                                     (never seen)
       [Attaching; TClose]                                                    (closed during the Attaching hook)
       [Attaching; PAdd false; TClose]                                        (refused by the protocol)
       [Attaching; PAdd true; Attached]                                       (attached, alive)
       [Attaching; PAdd true; Attached; TClose; PRemove; Detached]            (attached, then gone)
   and each of these satisfies the C13 oracle. *)
From MV Require Import Model.Core Model.CoreOracle.
From Coq Require Import Lia Arith.
Open Scope N_scope.

Definition E (p : N) (s : kstate) : list kobs := evs p (rev (kout s)).

Lemma evs_app p a b : evs p (a ++ b) = evs p a ++ evs p b.
Proof. unfold evs. apply filter_app. Qed.

Lemma E_emit p s o : E p (kemit s o) = E p s ++ (if about p o then [o] else []).
Proof. unfold E. cbn [kemit kout rev]. rewrite evs_app. unfold evs at 2. cbn [filter]. destruct (about p o); reflexivity. Qed.

(* the five words *)
Definition w_attach_closed p := [HAttaching p; TClose p].
Definition w_refused p := [HAttaching p; PAdd p false; TClose p].
Definition w_live p := [HAttaching p; PAdd p true; HAttached p].
Definition w_gone p := [HAttaching p; PAdd p true; HAttached p; TClose p; PRemove p; HDetached p].

Lemma words_ok p :
  c13_events_ok (w_attach_closed p) = true /\ c13_events_ok (w_refused p) = true /\
  c13_events_ok (w_live p) = true /\ c13_events_ok (w_gone p) = true.
Proof. repeat split; reflexivity. Qed.

(* flags of a pipe record vs. the word its events form *)
Definition ok_pipe (p : N) (x : option kpipe) (e : list kobs) : Prop :=
  match x with
  | None => e = []
  | Some x =>
    kp x = p /\
    if kadded x then (if ktclosed x then e = w_gone p /\ klisted x = false /\ kid x = false
                      else e = w_live p /\ klisted x = true /\ kid x = true)
    else ktclosed x = true /\ klisted x = false /\ kid x = false /\ (e = w_attach_closed p \/ e = w_refused p)
  end.

Lemma ok_pipe_oracle p x e : ok_pipe p x e -> e = [] \/ c13_events_ok e = true.
Proof.
  destruct (words_ok p) as (A & B & C & D).
  destruct x as [x|]; cbn; [|auto]. intros [_ H]. right.
  destruct (kadded x); [destruct (ktclosed x); destruct H as [-> _]; assumption|].
  destruct H as (_ & _ & _ & [->| ->]); assumption.
Qed.

(* ---- finding and replacing pipe records ---- *)
Lemma get_put_same s x : (exists y, get_p s (kp x) = Some y) -> get_p (put_p s x) (kp x) = Some x.
Proof.
  unfold get_p, put_p. cbn [kset_pipes kpipes]. intros (y & Hy).
  induction (kpipes s) as [|z l IH]; cbn in *; [discriminate|].
  destruct (N.eqb_spec (kp z) (kp x)) as [Ez|Ez].
  - cbn. rewrite N.eqb_refl. reflexivity.
  - cbn. destruct (N.eqb_spec (kp z) (kp x)); [contradiction|]. apply IH. exact Hy.
Qed.

Lemma get_put_other s x p : p <> kp x -> get_p (put_p s x) p = get_p s p.
Proof.
  unfold get_p, put_p. cbn [kset_pipes kpipes]. intro Hne.
  induction (kpipes s) as [|z l IH]; cbn; [reflexivity|].
  destruct (N.eqb_spec (kp z) (kp x)) as [Ez|Ez].
  - cbn. destruct (N.eqb_spec (kp x) p); [congruence|]. destruct (N.eqb_spec (kp z) p); [congruence|]. exact IH.
  - cbn. destruct (N.eqb_spec (kp z) p); [reflexivity|exact IH].
Qed.

Lemma get_p_kp s p x : get_p s p = Some x -> kp x = p.
Proof. unfold get_p. intro H. apply find_some in H as [_ H]. apply N.eqb_eq in H. exact H. Qed.

(* things that do not touch pipes or pipe events *)
Lemma get_p_put_d s x p : get_p (put_d s x) p = get_p s p. Proof. reflexivity. Qed.
Lemma get_p_timers s ts p : get_p (kset_timers s ts) p = get_p s p. Proof. reflexivity. Qed.
Lemma E_put_d s x p : E p (put_d s x) = E p s. Proof. reflexivity. Qed.
Lemma E_timers s ts p : E p (kset_timers s ts) = E p s. Proof. reflexivity. Qed.
Lemma E_put_p s x p : E p (put_p s x) = E p s. Proof. reflexivity. Qed.

Lemma pct_pipes s d p : get_p (pipe_closed_timer s d) p = get_p s p /\ E p (pipe_closed_timer s d) = E p s.
Proof. unfold pipe_closed_timer. destruct (get_d s d); split; reflexivity. Qed.

(* ---- pipe.Close() ---- *)
Lemma pipe_close_other s q p : p <> q -> get_p (pipe_close s q) p = get_p s p /\ E p (pipe_close s q) = E p s.
Proof.
  intro Hne. unfold pipe_close. destruct (get_p s q) as [x|] eqn:Ex; [|auto].
  destruct (ktclosed x); [auto|].
  assert (Hk : kp x = q) by (eapply get_p_kp; eauto).
  set (x1 := {| kp := q; kowner := kowner x; kadded := kadded x; kclosing := true; klisted := klisted x; kid := kid x; ktclosed := true |}).
  set (s1 := put_p (kemit s (TClose q)) x1).
  assert (A1 : get_p s1 p = get_p s p /\ E p s1 = E p s).
  { unfold s1. rewrite get_put_other by (cbn; congruence). rewrite E_put_p, E_emit. cbn [about].
    destruct (N.eqb_spec q p); [congruence|]. rewrite app_nil_r. auto. }
  set (s2 := if kadded x then _ else s1).
  assert (A2 : get_p s2 p = get_p s p /\ E p s2 = E p s).
  { unfold s2. destruct (kadded x); [|exact A1]. destruct A1 as [A B].
    rewrite E_emit. cbn [about]. destruct (N.eqb_spec q p); [congruence|]. rewrite app_nil_r.
    rewrite E_put_p, E_emit. cbn [about]. destruct (N.eqb_spec q p); [congruence|]. rewrite app_nil_r.
    split; [|exact B].
    change (get_p (put_p (kemit s1 (PRemove q)) {| kp := q; kowner := kowner x; kadded := true; kclosing := true; klisted := false; kid := false; ktclosed := true |}) p = get_p s p).
    rewrite get_put_other by (cbn; congruence). exact A. }
  destruct (kowner x) as [l|d]; [exact A2|].
  destruct (pct_pipes s2 d p) as [B1 B2]. destruct A2 as [A B]. split; congruence.
Qed.

Lemma pipe_close_same s p x e : get_p s p = Some x -> ok_pipe p (Some x) e ->
  (E p s = [] \/ True) ->
  exists x', get_p (pipe_close s p) p = Some x' /\
    ok_pipe p (Some x') (e ++ (if ktclosed x then [] else if kadded x then [TClose p; PRemove p; HDetached p] else [TClose p])) /\
    E p (pipe_close s p) = E p s ++ (if ktclosed x then [] else if kadded x then [TClose p; PRemove p; HDetached p] else [TClose p]).
Proof.
  intros Hx Hok _. unfold pipe_close. rewrite Hx.
  destruct (ktclosed x) eqn:Etc.
  { exists x. rewrite !app_nil_r. auto. }
  destruct Hok as [Hk Hok].
  set (x1 := {| kp := p; kowner := kowner x; kadded := kadded x; kclosing := true; klisted := klisted x; kid := kid x; ktclosed := true |}).
  set (s1 := put_p (kemit s (TClose p)) x1).
  assert (G1 : get_p s1 p = Some x1).
  { unfold s1. apply (get_put_same (kemit s (TClose p)) x1). exists x. exact Hx. }
  assert (E1 : E p s1 = E p s ++ [TClose p]).
  { unfold s1. rewrite E_put_p, E_emit. cbn [about]. rewrite N.eqb_refl. reflexivity. }
  destruct (kadded x) eqn:Ea.
  - (* attached: remPipe *)
    rewrite Etc in Hok. destruct Hok as (-> & _ & _).
    set (x2 := {| kp := p; kowner := kowner x; kadded := true; kclosing := true; klisted := false; kid := false; ktclosed := true |}).
    set (s2 := kemit (put_p (kemit s1 (PRemove p)) x2) (HDetached p)).
    assert (G2 : get_p s2 p = Some x2).
    { change (get_p (put_p (kemit s1 (PRemove p)) x2) p = Some x2).
      apply (get_put_same (kemit s1 (PRemove p)) x2). exists x1. exact G1. }
    assert (E2 : E p s2 = E p s ++ [TClose p; PRemove p; HDetached p]).
    { unfold s2. rewrite E_emit. cbn [about]. rewrite N.eqb_refl. rewrite E_put_p, E_emit. cbn [about]. rewrite N.eqb_refl.
      rewrite E1. rewrite <- !app_assoc. reflexivity. }
    destruct (kowner x) as [l|d].
    + exists x2. split; [exact G2|]. split; [|exact E2]. cbn. repeat split; reflexivity.
    + destruct (pct_pipes s2 d p) as [B1 B2]. exists x2. rewrite B1, B2. split; [exact G2|]. split; [|exact E2].
      cbn. repeat split; reflexivity.
  - (* never attached: cannot happen at a quiescent point (such pipes are already closed) *)
    destruct Hok as [Hc _]. congruence.
Qed.

(* ---- socket.addPipe for a fresh pipe name ---- *)
Lemma find_app_single {A} (f : A -> bool) l x :
  find f (l ++ [x]) = match find f l with Some y => Some y | None => if f x then Some x else None end.
Proof. induction l as [|z l IH]; cbn; [reflexivity|]. destruct (f z); [reflexivity|exact IH]. Qed.

Definition new_pipe p o := {| kp := p; kowner := o; kadded := false; kclosing := false; klisted := true; kid := true; ktclosed := false |}.

Lemma get_p_append s p o q :
  get_p (kset_pipes s (kpipes s ++ [new_pipe p o])) q =
  match get_p s q with Some y => Some y | None => if p =? q then Some (new_pipe p o) else None end.
Proof. unfold get_p. cbn [kset_pipes kpipes]. rewrite find_app_single. reflexivity. Qed.

Lemma add_pipe_other s p o q : get_p s p = None -> q <> p ->
  get_p (add_pipe true s p o) q = get_p s q /\ E q (add_pipe true s p o) = E q s.
Proof.
  intros Hf Hne. unfold add_pipe. fold (new_pipe p o).
  set (s1 := kset_pipes s (kpipes s ++ [new_pipe p o])).
  assert (G1 : get_p s1 q = get_p s q).
  { unfold s1. rewrite get_p_append. destruct (get_p s q); [reflexivity|]. destruct (N.eqb_spec p q); [congruence|reflexivity]. }
  set (s2 := kemit s1 (HAttaching p)).
  assert (A2 : get_p s2 q = get_p s q /\ E q s2 = E q s).
  { split; [exact G1|]. unfold s2. rewrite E_emit. cbn [about]. destruct (N.eqb_spec p q); [congruence|]. apply app_nil_r. }
  set (s3 := if kpolicy s2 =? 1 then pipe_close s2 p else s2).
  assert (A3 : get_p s3 q = get_p s q /\ E q s3 = E q s).
  { unfold s3. destruct (kpolicy s2 =? 1); [|exact A2].
    destruct (pipe_close_other s2 p q Hne) as [B1 B2]. destruct A2 as [A B]. split; congruence. }
  destruct (get_p s3 p) as [x|] eqn:Ex; [|exact A3].
  destruct (kclosing x).
  { rewrite get_put_other by (cbn; congruence). rewrite E_put_p. exact A3. }
  destruct (krefuse s3 || ksclosed s3).
  { set (s4 := put_p (kemit s3 (PAdd p false)) _).
    assert (A4 : get_p s4 q = get_p s q /\ E q s4 = E q s).
    { unfold s4. rewrite get_put_other by (cbn; congruence). rewrite E_put_p, E_emit. cbn [about].
      destruct (N.eqb_spec p q); [congruence|]. rewrite app_nil_r.
      split; [|apply A3]. change (get_p s3 q = get_p s q). apply A3. }
    destruct (pipe_close_other s4 p q Hne) as [B1 B2]. destruct A4 as [A B]. split; congruence. }
  set (s4 := put_p (kemit s3 (PAdd p true)) _).
  assert (A4 : get_p s4 q = get_p s q /\ E q s4 = E q s).
  { unfold s4. rewrite get_put_other by (cbn; congruence). rewrite E_put_p, E_emit. cbn [about].
    destruct (N.eqb_spec p q); [congruence|]. rewrite app_nil_r.
    split; [|apply A3]. change (get_p s3 q = get_p s q). apply A3. }
  set (s5 := match o with OwnD d => _ | OwnL _ => s4 end).
  assert (A5 : get_p s5 q = get_p s q /\ E q s5 = E q s).
  { unfold s5. destruct o as [l|d]; [exact A4|]. destruct (get_d s4 d); exact A4. }
  set (s6 := kemit s5 (HAttached p)).
  assert (A6 : get_p s6 q = get_p s q /\ E q s6 = E q s).
  { unfold s6. rewrite E_emit. cbn [about]. destruct (N.eqb_spec p q); [congruence|]. rewrite app_nil_r. exact A5. }
  destruct (kpolicy s6 =? 2); [|exact A6].
  destruct (pipe_close_other s6 p q Hne) as [B1 B2]. destruct A6 as [A B]. split; congruence.
Qed.

Lemma pipe_close_unadded s p x : get_p s p = Some x -> ktclosed x = false -> kadded x = false ->
  get_p (pipe_close s p) p =
    Some {| kp := p; kowner := kowner x; kadded := false; kclosing := true; klisted := klisted x; kid := kid x; ktclosed := true |} /\
  E p (pipe_close s p) = E p s ++ [TClose p].
Proof.
  intros Hx Ht Ha. unfold pipe_close. rewrite Hx, Ht, Ha.
  set (x1 := {| kp := p; kowner := kowner x; kadded := false; kclosing := true; klisted := klisted x; kid := kid x; ktclosed := true |}).
  set (s1 := put_p (kemit s (TClose p)) x1).
  assert (G1 : get_p s1 p = Some x1) by (apply (get_put_same (kemit s (TClose p)) x1); exists x; exact Hx).
  assert (E1 : E p s1 = E p s ++ [TClose p]).
  { unfold s1. rewrite E_put_p, E_emit. cbn [about]. rewrite N.eqb_refl. reflexivity. }
  destruct (kowner x) as [l|d]; [auto|].
  destruct (pct_pipes s1 d p) as [B1 B2]. rewrite B1, B2. auto.
Qed.

Lemma add_pipe_fresh s p o : get_p s p = None ->
  exists x' w, get_p (add_pipe true s p o) p = Some x' /\ ok_pipe p (Some x') w /\ E p (add_pipe true s p o) = E p s ++ w.
Proof.
  intros Hf. unfold add_pipe. fold (new_pipe p o).
  set (s1 := kset_pipes s (kpipes s ++ [new_pipe p o])).
  assert (G1 : get_p s1 p = Some (new_pipe p o)).
  { unfold s1. rewrite get_p_append, Hf, N.eqb_refl. reflexivity. }
  set (s2 := kemit s1 (HAttaching p)).
  assert (G2 : get_p s2 p = Some (new_pipe p o)) by exact G1.
  assert (E2 : E p s2 = E p s ++ [HAttaching p]).
  { unfold s2. rewrite E_emit. cbn [about]. rewrite N.eqb_refl. reflexivity. }
  destruct (kpolicy s2 =? 1) eqn:Epol.
  - (* the hook closes the pipe during Attaching *)
    destruct (pipe_close_unadded s2 p (new_pipe p o) G2 eq_refl eq_refl) as [G3 E3]. cbn [new_pipe kowner klisted kid] in G3.
    rewrite G3. cbn [kclosing ktclosed].
    eexists _, (w_attach_closed p). split; [apply (get_put_same (pipe_close s2 p)); eexists; exact G3|].
    split; [|rewrite E_put_p, E3, E2, <- app_assoc; reflexivity].
    cbn. repeat split; auto.
  - rewrite G2. cbn [new_pipe kclosing].
    destruct (krefuse s2 || ksclosed s2).
    + (* refused by the protocol *)
      set (x4 := {| kp := p; kowner := o; kadded := false; kclosing := false; klisted := false; kid := negb true; ktclosed := false |}).
      set (s4 := put_p (kemit s2 (PAdd p false)) x4).
      assert (G4 : get_p s4 p = Some x4) by (apply (get_put_same (kemit s2 (PAdd p false)) x4); exists (new_pipe p o); exact G2).
      assert (E4 : E p s4 = E p s ++ [HAttaching p; PAdd p false]).
      { unfold s4. rewrite E_put_p, E_emit. cbn [about]. rewrite N.eqb_refl, E2, <- app_assoc. reflexivity. }
      destruct (pipe_close_unadded s4 p x4 G4 eq_refl eq_refl) as [G5 E5].
      eexists _, (w_refused p). split; [exact G5|]. split; [cbn; repeat split; auto|].
      rewrite E5, E4, <- app_assoc. reflexivity.
    + (* accepted *)
      set (x4 := {| kp := p; kowner := o; kadded := true; kclosing := false; klisted := true; kid := true; ktclosed := false |}).
      set (s4 := put_p (kemit s2 (PAdd p true)) x4).
      assert (G4 : get_p s4 p = Some x4) by (apply (get_put_same (kemit s2 (PAdd p true)) x4); exists (new_pipe p o); exact G2).
      assert (E4 : E p s4 = E p s ++ [HAttaching p; PAdd p true]).
      { unfold s4. rewrite E_put_p, E_emit. cbn [about]. rewrite N.eqb_refl, E2, <- app_assoc. reflexivity. }
      set (s5 := match o with OwnD d => _ | OwnL _ => s4 end).
      assert (A5 : get_p s5 p = Some x4 /\ E p s5 = E p s4).
      { unfold s5. destruct o as [l|d]; [auto|]. destruct (get_d s4 d); auto. }
      destruct A5 as [G5 E5].
      set (s6 := kemit s5 (HAttached p)).
      assert (G6 : get_p s6 p = Some x4) by exact G5.
      assert (E6 : E p s6 = E p s ++ w_live p).
      { unfold s6. rewrite E_emit. cbn [about]. rewrite N.eqb_refl, E5, E4, <- app_assoc. reflexivity. }
      destruct (kpolicy s6 =? 2).
      * (* the hook closes it during Attached *)
        assert (Hok : ok_pipe p (Some x4) (w_live p)) by (cbn; repeat split; auto).
        destruct (pipe_close_same s6 p x4 (w_live p) G6 Hok (or_intror I)) as (x7 & G7 & O7 & E7).
        cbn [x4 ktclosed kadded] in O7, E7.
        exists x7, (w_live p ++ [TClose p; PRemove p; HDetached p]). split; [exact G7|]. split; [exact O7|].
        rewrite E7, E6, <- app_assoc. reflexivity.
      * exists x4, (w_live p). split; [exact G6|]. split; [|exact E6]. cbn. repeat split; auto.
Qed.

(* ---- the relation kept by every primitive of a step ---- *)
Definition R (ep : N -> list kobs) (s : kstate) : Prop := forall p, ok_pipe p (get_p s p) (ep p ++ E p s).

Lemma R_frame ep s s' : (forall p, get_p s' p = get_p s p /\ E p s' = E p s) -> R ep s -> R ep s'.
Proof. intros H HR p. destruct (H p) as [A B]. rewrite A, B. apply HR. Qed.

Lemma R_pipe_close ep s q : R ep s -> R ep (pipe_close s q).
Proof.
  intros HR p. destruct (N.eq_dec p q) as [->|Hne].
  - specialize (HR q). destruct (get_p s q) as [x|] eqn:Ex.
    + destruct (pipe_close_same s q x _ Ex HR (or_intror I)) as (x' & G & O & Ev).
      rewrite G, Ev, app_assoc. exact O.
    + unfold pipe_close. rewrite Ex, Ex. exact HR.
  - destruct (pipe_close_other s q p Hne) as [A B]. rewrite A, B. apply HR.
Qed.

Lemma R_add_pipe ep s p' o : get_p s p' = None -> R ep s -> R ep (add_pipe true s p' o).
Proof.
  intros Hf HR p. destruct (N.eq_dec p p') as [->|Hne].
  - destruct (add_pipe_fresh s p' o Hf) as (x' & w & G & O & Ev).
    specialize (HR p'). rewrite Hf in HR. cbn in HR.
    apply app_eq_nil in HR as [H1 H2]. rewrite G, Ev, H1, H2. exact O.
  - destruct (add_pipe_other s p' o p Hf Hne) as [A B]. rewrite A, B. apply HR.
Qed.

Lemma R_emit_other ep s o : (forall p, about p o = false) -> R ep s -> R ep (kemit s o).
Proof.
  intros Ho HR. apply (R_frame ep s); [|exact HR]. intro p. split; [reflexivity|].
  rewrite E_emit, Ho. apply app_nil_r.
Qed.

Lemma fold_R {A} ep (f : kstate -> A -> kstate) : (forall s a, R ep s -> R ep (f s a)) ->
  forall l s, R ep s -> R ep (fold_left f l s).
Proof. intros Hf l. induction l as [|a l IH]; intros s HR; cbn [fold_left]; [exact HR|]. apply IH, Hf, HR. Qed.

Lemma R_start_dial ep s d w : R ep s -> R ep (start_dial s d w).
Proof.
  intro HR. unfold start_dial. destruct (get_d s d) as [x|]; [|exact HR].
  destruct (kd_closed x).
  - destruct w; [apply R_emit_other; [reflexivity|exact HR]|exact HR].
  - apply R_emit_other; [reflexivity|]. apply (R_frame ep s); [|exact HR]. intro p. split; reflexivity.
Qed.

Lemma R_fire_timers ep : forall fuel s, R ep s -> R ep (fire_timers fuel s).
Proof.
  induction fuel as [|f IH]; intros s HR; [exact HR|].
  cbn [fire_timers]. destruct (filter _ (ktimers s)) as [|t ts]; [exact HR|].
  apply IH. apply R_start_dial. apply (R_frame ep s); [|exact HR]. intro p. split; reflexivity.
Qed.

(* new pipe names are fresh *)
Definition fresh_stim (s : kstate) (st : kstim) : Prop :=
  match st with
  | KConnect _ p => get_p s p = None
  | KResolve _ DOk p => get_p s p = None
  | _ => True
  end.

Lemma R_step_raw ep s st : fresh_stim s st -> R ep s -> R ep (kstep_raw true true s st).
Proof.
  intros Hf HR. destruct st; cbn [kstep_raw].
  - (* KListen *)
    destruct (ksclosed s); [apply R_emit_other; [reflexivity|exact HR]|].
    destruct fail; (apply R_emit_other; [reflexivity|]); (apply (R_frame ep s); [|exact HR]); intro p; split; reflexivity.
  - destruct (get_l s l) as [x|]; [|exact HR].
    destruct (kl_closed x); [apply R_emit_other; [reflexivity|exact HR]|].
    destruct (kl_active x); (apply R_emit_other; [reflexivity|]); [exact HR|].
    apply (R_frame ep s); [|exact HR]. intro p. split; reflexivity.
  - destruct (get_l s l) as [x|]; [|exact HR].
    destruct (kl_serving x && negb (kl_closed x)); [|exact HR]. apply R_add_pipe; [exact Hf|exact HR].
  - exact HR.
  - destruct (get_l s l) as [x|]; [|exact HR].
    destruct (kl_closed x); (apply R_emit_other; [reflexivity|]); [exact HR|].
    apply (R_frame ep s); [|exact HR]. intro p. split; reflexivity.
  - destruct (ksclosed s); [exact HR|]. apply (R_frame ep s); [|exact HR]. intro p. split; reflexivity.
  - (* KDial *)
    destruct (get_d s d) as [x|]; [|exact HR].
    destruct (kd_active x); [apply R_emit_other; [reflexivity|exact HR]|].
    destruct (kd_closed x); [apply R_emit_other; [reflexivity|exact HR]|].
    assert (HR1 : R ep (put_d s (with_d x false true (kd_min x * 10) (kd_min x * 10) (kd_pending x)))).
    { apply (R_frame ep s); [|exact HR]. intro p. split; reflexivity. }
    destruct (kd_asynch x); [apply R_emit_other; [reflexivity|]|]; apply R_start_dial; exact HR1.
  - (* KResolve *)
    unfold resolve. destruct (get_d s d) as [x|]; [|exact HR].
    destruct (kd_pending x) as [|w rest]; [exact HR|].
    set (s1 := put_d s (with_d x (kd_closed x) (kd_active x) (kd_lo x) (kd_hi x) rest)).
    assert (HR1 : R ep s1) by (apply (R_frame ep s); [|exact HR]; intro q; split; reflexivity).
    destruct r.
    + assert (HR2 : R ep (add_pipe true s1 p (OwnD d))) by (apply R_add_pipe; [exact Hf|exact HR1]).
      destruct w; [apply R_emit_other; [reflexivity|exact HR2]|exact HR2].
    + destruct w as [t|].
      * destruct (kd_asynch _); [exact HR1|].
        assert (HR2 : R ep (kemit s1 (KRet t KERefused))) by (apply R_emit_other; [reflexivity|exact HR1]).
        destruct (get_d _ d); [|exact HR2]. apply (R_frame ep _ _ (fun q => conj eq_refl eq_refl) HR2).
      * destruct (if kd_max _ =? 0 then _ else _) as [lo hi].
        apply (R_frame ep s1); [|exact HR1]. intro q. split; reflexivity.
  - destruct (get_d s d) as [x|]; [|exact HR].
    destruct (kd_closed x); (apply R_emit_other; [reflexivity|]); [exact HR|].
    apply (R_frame ep (kset_timers s (filter (fun tm => negb ((kt_d tm =? d) && kt_stoppable tm)) (ktimers s)))).
    + intro p. split; reflexivity.
    + apply (R_frame ep s); [|exact HR]. intro p. split; reflexivity.
  - apply R_pipe_close, HR.
  - apply R_pipe_close, HR.
  - apply (R_frame ep s); [|exact HR]. intro p. split; reflexivity.
  - apply (R_frame ep s); [|exact HR]. intro p. split; reflexivity.
  - (* KCloseSock *)
    apply R_emit_other; [reflexivity|].
    apply fold_R; [intros s0 x H0; destruct (klisted x); [apply R_pipe_close|]; exact H0|].
    apply fold_R.
    { intros s0 x H0. destruct (kd_closed x); [exact H0|]. apply (R_frame ep s0); [|exact H0]. intro q. split; reflexivity. }
    apply fold_R.
    { intros s0 x H0. destruct (kl_closed x); [exact H0|]. apply (R_frame ep s0); [|exact H0]. intro q. split; reflexivity. }
    apply (R_frame ep s); [|exact HR]. intro q. split; reflexivity.
  - (* KPass *)
    set (s1 := kset_misc s (ksclosed s) (kpolicy s) (krefuse s) until (kambig s)).
    assert (H1 : R ep s1) by (apply (R_frame ep s); [|exact HR]; intro q; split; reflexivity).
    apply (R_fire_timers ep 32) in H1. revert H1. generalize (fire_timers 32 s1). intros s2 H2.
    apply (R_frame ep s2); [|exact H2]. intro q. split; reflexivity.
  - apply (R_frame ep s); [|exact HR]. intro q. split; reflexivity.
Qed.

(* ---- whole steps and histories ---- *)
Definition PInv (ep : N -> list kobs) (s : kstate) : Prop := forall p, ok_pipe p (get_p s p) (ep p).

Lemma evs_step_obs p s : evs p (rev (kout s) ++ [Ids (count_ids s); Listed (count_listed s)]) = E p s.
Proof. rewrite evs_app. unfold E. cbn. apply app_nil_r. Qed.

Lemma PInv_step ep s st : fresh_stim s st -> PInv ep s ->
  PInv (fun p => ep p ++ evs p (snd (kstep true true s st))) (fst (kstep true true s st)).
Proof.
  intros Hf HP. unfold kstep. cbn [fst snd].
  assert (HR : R ep (kclear s)).
  { intro p. change (get_p (kclear s) p) with (get_p s p). change (E p (kclear s)) with (@nil kobs).
    rewrite app_nil_r. apply HP. }
  assert (Hf' : fresh_stim (kclear s) st) by (destruct st; try exact I; exact Hf).
  pose proof (R_step_raw ep (kclear s) st Hf' HR) as H. revert H.
  generalize (kstep_raw true true (kclear s) st). intros s' H p.
  rewrite evs_step_obs. apply H.
Qed.

(* every new pipe name in the history is fresh when it is used *)
Fixpoint fresh_hist (s : kstate) (h : list kstim) : Prop :=
  match h with
  | [] => True
  | st :: r => fresh_stim s st /\ fresh_hist (fst (kstep true true s st)) r
  end.

Fixpoint kfinal (s : kstate) (h : list kstim) : kstate :=
  match h with [] => s | st :: r => kfinal (fst (kstep true true s st)) r end.

Lemma all_obs_cons st os b r : all_obs ((st, os, b) :: r) = os ++ all_obs r.
Proof. reflexivity. Qed.

Lemma PInv_run : forall h s ep, fresh_hist s h -> PInv ep s ->
  PInv (fun p => ep p ++ evs p (all_obs (kmodel_trace true true s h))) (kfinal s h).
Proof.
  induction h as [|st r IH]; intros s ep Hf HP.
  - cbn. intro p. rewrite app_nil_r. apply HP.
  - destruct Hf as [Hf1 Hf2]. cbn [kmodel_trace kfinal].
    pose proof (PInv_step ep s st Hf1 HP) as H1.
    destruct (kstep true true s st) as [s' os] eqn:Ek. cbn [fst snd] in *.
    pose proof (IH s' _ Hf2 H1) as H2. intro p. specialize (H2 p). cbn beta in H2.
    rewrite all_obs_cons, evs_app, app_assoc. exact H2.
Qed.

Lemma PInv_init : PInv (fun _ => []) kinit.
Proof. intro p. reflexivity. Qed.

(* the hook language of every pipe, for every history of stimuli with fresh pipe names *)
Theorem hook_language_all_histories h p : fresh_hist kinit h ->
  let e := evs p (all_obs (kmodel_trace true true kinit h)) in
  e = [] \/ e = w_attach_closed p \/ e = w_refused p \/ e = w_live p \/ e = w_gone p.
Proof.
  intros Hf e. pose proof (PInv_run h kinit _ Hf PInv_init p) as H. cbn beta in H.
  change (ok_pipe p (get_p (kfinal kinit h) p) e) in H.
  destruct (get_p (kfinal kinit h) p) as [x|]; cbn in H; [|auto].
  destruct H as [_ H]. destruct (kadded x).
  - destruct (ktclosed x); destruct H as [H _]; auto.
  - destruct H as (_ & _ & _ & [H|H]); auto.
Qed.

Lemma in_pipes_of_evs l p : In p (pipes_of l) -> evs p l <> [].
Proof.
  unfold pipes_of. rewrite nodup_In, in_flat_map. intros (o & Ho & Hp) He.
  assert (Ha : about p o = true).
  { destruct o; cbn in Hp; try contradiction; destruct Hp as [<-|[]]; cbn; apply N.eqb_refl. }
  assert (Hi : In o (evs p l)) by (apply filter_In; auto).
  rewrite He in Hi. exact Hi.
Qed.

Theorem c13_pipes_ok_all_histories h : fresh_hist kinit h ->
  let l := all_obs (kmodel_trace true true kinit h) in
  forall p, In p (pipes_of l) -> c13_pipe_ok l p = true.
Proof.
  intros Hf l p Hp. unfold c13_pipe_ok.
  destruct (words_ok p) as (A & B & C & D).
  destruct (hook_language_all_histories h p Hf) as [H|[H|[H|[H|H]]]]; fold l in H.
  - exfalso. exact (in_pipes_of_evs l p Hp H).
  - rewrite H. exact A.
  - rewrite H. exact B.
  - rewrite H. exact C.
  - rewrite H. exact D.
Qed.

Example fresh_hist_witness :
  fresh_hist kinit [KListen 1 1 false; KHookPolicy 1; KConnect 1 1; KHookPolicy 0; KProtoRefuse true; KConnect 1 2;
                    KProtoRefuse false; KHookPolicy 2; KConnect 1 3; KHookPolicy 0; KConnect 1 4; KPipeFail 4;
                    KConnect 1 5; KCloseSock 2].
Proof. vm_compute. repeat split. Qed.
