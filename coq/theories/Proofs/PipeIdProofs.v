From MV Require Import Model.PipeId.
From Coq Require Import Lia Arith PeanoNat.
Open Scope N_scope.

Lemma existsb_eqb_in x l : existsb (N.eqb x) l = true <-> In x l.
Proof.
  rewrite existsb_exists. split.
  - intros (y & Hy & E). apply N.eqb_eq in E. subst. exact Hy.
  - intro H. exists x. split; [exact H|apply N.eqb_refl].
Qed.

(* whatever the counter and whatever is in use: an ID that is handed out is non-zero, fits in 31 bits and is not in use *)
Lemma get_fuel_sound : forall fuel used next id nx,
  get_fuel fuel used next = Some (id, nx) -> id <> 0 /\ id < M31 /\ ~ In id used.
Proof.
  induction fuel as [|f IH]; intros used next id nx H; [discriminate|].
  cbn [get_fuel] in H.
  destruct ((next mod M31 =? 0) || existsb (N.eqb (next mod M31)) used) eqn:E.
  - eapply IH. exact H.
  - injection H as <- _. apply orb_false_iff in E as [E1 E2].
    split; [apply N.eqb_neq, E1|]. split; [apply N.mod_lt; discriminate|].
    intro Hin. apply existsb_eqb_in in Hin. congruence.
Qed.

Theorem get_sound a id a' : get a = Some (id, a') ->
  id <> 0 /\ id < M31 /\ ~ In id (a_used a) /\ a_used a' = id :: a_used a.
Proof.
  unfold get. destruct (get_fuel _ _ _) as [[i nx]|] eqn:E; [|discriminate].
  intros [= <- <-]. destruct (get_fuel_sound _ _ _ _ _ E) as (A & B & C). auto.
Qed.

(* no two live pipes share an ID: the in-use list never holds a duplicate, a zero or a value of 32 bits *)
Definition wf (a : alloc) : Prop := NoDup (a_used a) /\ Forall (fun x => x <> 0 /\ x < M31) (a_used a).

Lemma wf_get a id a' : wf a -> get a = Some (id, a') -> wf a'.
Proof.
  intros [Hn Hf] Hg. destruct (get_sound a id a' Hg) as (A & B & C & D). unfold wf. rewrite D.
  split; [constructor; assumption|constructor; [split; assumption|exact Hf]].
Qed.

Lemma wf_free a id : wf a -> wf (free a id).
Proof.
  intros [Hn Hf]. unfold wf, free. cbn [a_used]. split.
  - apply NoDup_filter. exact Hn.
  - rewrite Forall_forall in *. intros x Hx. apply filter_In in Hx as [Hx _]. apply Hf, Hx.
Qed.

Lemma wf_step a o : wf a -> wf (fst (id_step a o)).
Proof.
  intro H. destruct o as [v| |k]; cbn [id_step fst].
  - exact H.
  - destruct (get a) as [[id a']|] eqn:E; [eapply wf_get; eauto|exact H].
  - destruct (nth_error _ k); [apply wf_free|]; exact H.
Qed.

Theorem wf_run : forall ops a, wf a -> wf (fold_left (fun a o => fst (id_step a o)) ops a).
Proof. induction ops as [|o r IH]; intros a H; [exact H|]. cbn [fold_left]. apply IH, wf_step, H. Qed.

(* every ID a history of operations hands out is non-zero and 31-bit (0 stands for "the loop did not find one", which
   get_total excludes) *)
Theorem run_ids_ok : forall ops a, wf a -> (forall x, In x (id_run a ops) -> x < M31).
Proof.
  induction ops as [|o r IH]; intros a H x Hx; [contradiction|].
  cbn [id_run] in Hx. destruct (id_step a o) as [a' out] eqn:E.
  assert (Hw : wf a') by (pose proof (wf_step a o H) as W; rewrite E in W; exact W).
  apply in_app_or in Hx as [Hx|Hx]; [|eapply IH; eauto].
  destruct out as [id|]; [|contradiction]. destruct Hx as [<-|[]].
  destruct o as [v| |k]; cbn [id_step] in E.
  - discriminate E.
  - destruct (get a) as [[i a2]|] eqn:G; injection E as _ <-.
    + destruct (get_sound a i a2 G) as (_ & B & _). exact B.
    + reflexivity.
  - destruct (nth_error _ k); discriminate E.
Qed.

(* ---- the loop always finds an ID: |used| + 2 candidates suffice while fewer than 2^31 - 1 IDs are in use ---- *)
Definition cand (next : N) (i : nat) : N := ((next + N.of_nat i) mod M32) mod M31.

Lemma mod32_mod31 x : (x mod M32) mod M31 = x mod M31.
Proof.
  unfold M32, M31. change (2 ^ 32) with (2 ^ 31 * 2).
  rewrite N.mod_mul_r by discriminate.
  set (r := x mod 2 ^ 31). set (k := (x / 2 ^ 31) mod 2).
  rewrite (N.mul_comm (2 ^ 31) k), N.mod_add by discriminate.
  unfold r. apply N.mod_mod. discriminate.
Qed.

Lemma cand_mod next i : cand next i = (next + N.of_nat i) mod M31.
Proof. unfold cand. apply mod32_mod31. Qed.

Lemma get_fuel_none : forall fuel used next, get_fuel fuel used next = None ->
  forall i, (i < fuel)%nat -> cand next i = 0 \/ In (cand next i) used.
Proof.
  induction fuel as [|f IH]; intros used next H i Hi; [lia|].
  cbn [get_fuel] in H.
  destruct ((next mod M31 =? 0) || existsb (N.eqb (next mod M31)) used) eqn:E; [|discriminate].
  destruct i as [|i].
  - unfold cand. rewrite N.add_0_r.
    rewrite mod32_mod31. apply orb_true_iff in E as [E|E]; [left; apply N.eqb_eq, E|right; apply existsb_eqb_in, E].
  - assert (Hc : cand next (S i) = cand ((next + 1) mod M32) i).
    { rewrite !cand_mod. rewrite Nat2N.inj_succ.
      replace (next + N.succ (N.of_nat i)) with ((next + 1) + N.of_nat i) by lia.
      rewrite <- (N.add_mod_idemp_l ((next + 1) mod M32)) by discriminate.
      rewrite mod32_mod31. rewrite N.add_mod_idemp_l by discriminate. reflexivity. }
    rewrite Hc. apply IH; [exact H|lia].
Qed.

Lemma cand_inj next i j : (i < j)%nat -> N.of_nat j < M31 -> cand next i <> cand next j.
Proof.
  intros Hij Hj. rewrite !cand_mod. intro E.
  set (A := next + N.of_nat i) in *. set (d := N.of_nat j - N.of_nat i).
  assert (Hd0 : 0 < d) by (unfold d; lia). assert (Hdlt : d < M31) by (unfold d; lia).
  assert (HA : next + N.of_nat j = A + d) by (unfold A, d; lia).
  rewrite HA in E. rewrite <- (N.add_mod_idemp_l A d) in E by discriminate.
  set (r := A mod M31) in *. assert (Hr : r < M31) by (apply N.mod_lt; discriminate).
  destruct (N.lt_ge_cases (r + d) M31) as [Hs|Hs].
  - rewrite (N.mod_small (r + d)) in E by exact Hs. lia.
  - assert (Hm : (r + d) mod M31 = r + d - M31).
    { symmetry. apply (N.mod_unique _ _ 1); [lia|lia]. }
    rewrite Hm in E. lia.
Qed.

Lemma nodup_map_inj {A B} (f : A -> B) (l : list A) :
  NoDup l -> (forall x y, In x l -> In y l -> f x = f y -> x = y) -> NoDup (map f l).
Proof.
  induction 1 as [|a l Ha Hn IH]; intro Hinj; cbn [map]; constructor.
  - intro Hin. apply in_map_iff in Hin as (y & Ey & Hy). apply Ha.
    rewrite (Hinj a y (or_introl eq_refl) (or_intror Hy) (eq_sym Ey)). exact Hy.
  - apply IH. intros x y Hx Hy. apply Hinj; right; assumption.
Qed.

Theorem get_total a : N.of_nat (length (a_used a)) + 2 <= M31 -> get a <> None.
Proof.
  intros Hlen Hg. unfold get in Hg.
  destruct (get_fuel (S (S (length (a_used a)))) (a_used a) (a_next a)) as [[id nx]|] eqn:E; [discriminate|].
  pose proof (get_fuel_none _ _ _ E) as Hall.
  set (n := S (S (length (a_used a)))) in *.
  set (l := map (cand (a_next a)) (seq 0 n)).
  assert (Hnd : NoDup l).
  { unfold l. apply nodup_map_inj; [apply seq_NoDup|].
    intros i j Hi Hj Eij. apply in_seq in Hi. apply in_seq in Hj.
    destruct (Nat.lt_trichotomy i j) as [H|[H|H]]; [|exact H|].
    - exfalso. apply (cand_inj (a_next a) i j H); [unfold n in *; unfold M31 in *; lia|exact Eij].
    - exfalso. apply (cand_inj (a_next a) j i H); [unfold n in *; unfold M31 in *; lia|symmetry; exact Eij]. }
  assert (Hincl : incl l (0 :: a_used a)).
  { intros x Hx. unfold l in Hx. apply in_map_iff in Hx as (i & <- & Hi). apply in_seq in Hi.
    destruct (Hall i ltac:(lia)) as [H|H]; [left; symmetry; exact H|right; exact H]. }
  pose proof (NoDup_incl_length Hnd Hincl) as Hl. unfold l in Hl. rewrite map_length, seq_length in Hl. cbn [length] in Hl. unfold n in Hl. lia.
Qed.
