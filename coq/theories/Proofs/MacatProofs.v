From MV Require Import Lib.Bytes Model.Macat.
From Coq Require Import ZifyBool ZifyN ZifyNat.
Open Scope N_scope.

(* ------------------------------------------------------------ quoted ---- *)
Lemma dec_quote_byte b rest :
  dec_quoted (quote_byte b ++ rest) = option_map (cons b) (dec_quoted rest).
Proof. destruct b; reflexivity. Qed.

Lemma dec_quoted_flat body : dec_quoted (flat_map quote_byte body) = Some body.
Proof.
  induction body as [|b body IH]; [reflexivity|].
  cbn [flat_map]. rewrite dec_quote_byte, IH. reflexivity.
Qed.

Definition no_nl (l : bytes) : bool := forallb (fun b => negb (byte_eqb b x0a)) l.

Lemma quote_byte_no_nl b : no_nl (quote_byte b) = true.
Proof. revert b. apply forall_bytes. vm_compute. reflexivity. Qed.

Lemma no_nl_app a b : no_nl (a ++ b) = no_nl a && no_nl b.
Proof. unfold no_nl. apply forallb_app. Qed.

Lemma quoted_line_no_nl body : no_nl (flat_map quote_byte body) = true.
Proof.
  induction body as [|b body IH]; [reflexivity|].
  cbn [flat_map]. rewrite no_nl_app, quote_byte_no_nl, IH. reflexivity.
Qed.

Lemma ascii_byte_no_nl b : negb (byte_eqb (ascii_byte b) x0a) = true.
Proof. revert b. apply forall_bytes. vm_compute. reflexivity. Qed.

Lemma ascii_line_no_nl body : no_nl (map ascii_byte body) = true.
Proof.
  induction body as [|b body IH]; [reflexivity|].
  cbn [map no_nl forallb]. rewrite ascii_byte_no_nl. exact IH.
Qed.

Lemma split_lines_acc_line l : forall acc r, no_nl l = true ->
  split_lines_acc acc (l ++ x0a :: r) = (rev acc ++ l) :: split_lines_acc [] r.
Proof.
  induction l as [|b l IH]; intros acc r H.
  - cbn [app split_lines_acc]. rewrite app_nil_r. reflexivity.
  - cbn [no_nl forallb] in H. apply andb_true_iff in H as [Hb Hl].
    cbn [app]. destruct b; try discriminate Hb;
    cbn [split_lines_acc]; rewrite IH by exact Hl; cbn [rev]; rewrite <- app_assoc; reflexivity.
Qed.

Lemma split_lines_records (line : bytes -> bytes) :
  (forall m, no_nl (line m) = true) ->
  forall msgs, split_lines (concat (map (fun m => line m ++ [x0a]) msgs)) = map line msgs.
Proof.
  intros Hl msgs. unfold split_lines. induction msgs as [|m msgs IH]; [reflexivity|].
  cbn [map concat]. rewrite <- app_assoc. cbn [app].
  rewrite split_lines_acc_line by apply Hl. cbn [rev app]. rewrite IH. reflexivity.
Qed.

Lemma quoted_roundtrip_stream msgs :
  map dec_quoted (split_lines (concat (map fmt_quoted msgs))) = map Some msgs.
Proof.
  unfold fmt_quoted. rewrite (split_lines_records (flat_map quote_byte)) by apply quoted_line_no_nl.
  rewrite map_map. apply map_ext. intro m. apply dec_quoted_flat.
Qed.

Lemma quoted_one_record body :
  split_lines (fmt_quoted body) = [flat_map quote_byte body] /\
  dec_quoted (flat_map quote_byte body) = Some body.
Proof.
  split; [|apply dec_quoted_flat].
  pose proof (split_lines_records (flat_map quote_byte) quoted_line_no_nl [body]) as H.
  cbn [map concat] in H. rewrite app_nil_r in H. exact H.
Qed.

(* ------------------------------------------------------------- ascii ---- *)
Lemma ascii_shape_lemma body :
  length (fmt_ascii body) = S (length body) /\
  (forall i, (i < length body)%nat ->
     nth i (fmt_ascii body) x00 = (if isprint (nth i body x00) then nth i body x00 else "."%byte)) /\
  nth (length body) (fmt_ascii body) x00 = x0a.
Proof.
  unfold fmt_ascii. repeat split.
  - rewrite app_length, map_length. simpl. lia.
  - intros i Hi. rewrite app_nth1 by (rewrite map_length; exact Hi).
    rewrite (nth_indep _ x00 (ascii_byte x00)) by (rewrite map_length; exact Hi).
    rewrite map_nth. reflexivity.
  - rewrite app_nth2 by (rewrite map_length; lia). rewrite map_length, Nat.sub_diag. reflexivity.
Qed.

Lemma ascii_records msgs :
  split_lines (concat (map fmt_ascii msgs)) = map (map ascii_byte) msgs.
Proof. unfold fmt_ascii. apply split_lines_records. apply ascii_line_no_nl. Qed.

(* strict 7-bit reading of "--ascii": refuted by the Latin-1 range of strconv.IsPrint *)
Lemma ascii_not_7bit : exists b, (127 <? b2n (ascii_byte b)) = true.
Proof. exists xe9. vm_compute. reflexivity. Qed.

Lemma ascii_7bit_on_ascii_input b : b2n b < 128 -> b2n (ascii_byte b) < 127 /\ 32 <= b2n (ascii_byte b).
Proof.
  intro H.
  assert (G : (if b2n b <? 128 then (b2n (ascii_byte b) <? 127) && (32 <=? b2n (ascii_byte b)) else true) = true).
  { revert b H. intros b _. revert b. apply forall_bytes. vm_compute. reflexivity. }
  destruct (N.ltb_spec (b2n b) 128); [|lia]. lia.
Qed.

(* ----------------------------------------------------------- msgpack ---- *)
Lemma be_enc2 n : be_enc 2 n = [n2b (n / 256); n2b n].
Proof. cbn [be_enc]. f_equal. f_equal. change (256 ^ N.of_nat 0) with 1. rewrite N.div_1_r. reflexivity. Qed.

Lemma be_enc4 n : exists a b c d, be_enc 4 n = [a; b; c; d].
Proof. cbn [be_enc]. eauto. Qed.

Lemma dec_msgpack_one_fmt body rest : blen body < 2 ^ 32 ->
  dec_msgpack_one (fmt_msgpack body ++ rest) = Some (body, rest).
Proof.
  intro H. unfold fmt_msgpack, msgpack_hdr.
  destruct (N.ltb_spec (blen body) 256) as [H1|H1].
  - cbn [app dec_msgpack_one]. rewrite b2n_n2b by exact H1. rewrite blen_nat. apply take_exact_app.
  - destruct (N.ltb_spec (blen body) 65536) as [H2|H2].
    + pose proof (be_dec_enc 2 (blen body) ltac:(change (256 ^ N.of_nat 2) with 65536; lia)) as E.
      rewrite be_enc2 in *. cbn [app dec_msgpack_one]. rewrite E, blen_nat. apply take_exact_app.
    + rewrite N.mod_small by exact H.
      pose proof (be_dec_enc 4 (blen body) ltac:(change (256 ^ N.of_nat 4) with (2 ^ 32); lia)) as E.
      destruct (be_enc4 (blen body)) as (a & b & c & d & Eq). rewrite Eq in *.
      cbn [app dec_msgpack_one]. rewrite E, blen_nat. apply take_exact_app.
Qed.

Lemma fmt_msgpack_nonempty body rest : fmt_msgpack body ++ rest <> [].
Proof.
  unfold fmt_msgpack, msgpack_hdr.
  destruct (blen body <? 256); [discriminate|]. destruct (blen body <? 65536); discriminate.
Qed.

Lemma msgpack_stream msgs : Forall (fun m => blen m < 2 ^ 32) msgs ->
  forall fuel, (length msgs <= fuel)%nat ->
  dec_msgpack_stream fuel (concat (map fmt_msgpack msgs)) = Some msgs.
Proof.
  induction 1 as [|m msgs Hm _ IH]; intros fuel Hf.
  - destruct fuel; reflexivity.
  - cbn [map concat]. destruct fuel as [|fuel]; [simpl in Hf; lia|].
    cbn [dec_msgpack_stream].
    destruct (fmt_msgpack m ++ concat (map fmt_msgpack msgs)) eqn:E.
    { exfalso. eapply fmt_msgpack_nonempty. exact E. }
    rewrite <- E. rewrite dec_msgpack_one_fmt by exact Hm.
    rewrite IH by (simpl in Hf; lia). reflexivity.
Qed.

Lemma msgpack_tag body :
  exists tag lenbytes, fmt_msgpack body = tag :: lenbytes ++ body /\
   ((blen body < 256 /\ tag = xc4 /\ lenbytes = [n2b (blen body)]) \/
    (256 <= blen body < 65536 /\ tag = xc5 /\ lenbytes = be_enc 2 (blen body)) \/
    (65536 <= blen body /\ tag = xc6 /\ lenbytes = be_enc 4 (blen body mod 2 ^ 32))).
Proof.
  unfold fmt_msgpack, msgpack_hdr.
  destruct (N.ltb_spec (blen body) 256) as [H1|H1].
  - exists xc4, [n2b (blen body)]. split; [reflexivity|]. left. auto.
  - destruct (N.ltb_spec (blen body) 65536) as [H2|H2].
    + exists xc5, (be_enc 2 (blen body)). split; [reflexivity|]. right; left. auto.
    + exists xc6, (be_enc 4 (blen body mod 2 ^ 32)). split; [reflexivity|]. right; right. auto.
Qed.

(* ---------------------------------------------------------- duration ---- *)
Definition digit_byte (d : N) : byte := n2b (48 + d).
Fixpoint dvalue (acc : Z) (ds : list N) : Z :=
  match ds with [] => acc | d :: r => dvalue (acc * 10 + Z.of_N d) r end.

Lemma digits_acc_map ds : Forall (fun d => d < 10) ds -> forall acc,
  digits_acc acc (map digit_byte ds) = Some (dvalue acc ds).
Proof.
  induction 1 as [|d ds Hd _ IH]; intro acc; [reflexivity|].
  cbn [map digits_acc dvalue]. unfold digit, digit_byte.
  rewrite b2n_n2b by lia.
  destruct (N.leb_spec 48 (48 + d)); [|lia]. destruct (N.leb_spec (48 + d) 57); [|lia].
  cbn [andb]. replace (48 + d - 48) with d by lia. apply IH.
Qed.

Lemma dvalue_nonneg ds : forall acc, (0 <= acc)%Z -> (0 <= dvalue acc ds)%Z.
Proof. induction ds as [|d ds IH]; intros acc H; cbn [dvalue]; [exact H|]. apply IH. lia. Qed.

Lemma bare_int_seconds ds : ds <> [] -> Forall (fun d => d < 10) ds ->
  (dvalue 0 ds * 1000000000 < 2 ^ 63)%Z ->
  unmarshal_duration (map digit_byte ds) = DurNanos (dvalue 0 ds * 1000000000).
Proof.
  intros Hne Hd Hb. unfold unmarshal_duration, atoi.
  destruct ds as [|d ds]; [congruence|].
  assert (Hfirst : exists c r, map digit_byte (d :: ds) = c :: r /\ c <> x2d /\ c <> x2b).
  { exists (digit_byte d), (map digit_byte ds). split; [reflexivity|].
    inversion Hd; subst. unfold digit_byte.
    assert (E1 : b2n x2d = 45) by reflexivity. assert (E2 : b2n x2b = 43) by reflexivity.
    split; intro E; apply (f_equal b2n) in E; rewrite b2n_n2b in E by lia; lia. }
  destruct Hfirst as (c & r & Emap & Hc1 & Hc2).
  pose proof (digits_acc_map (d :: ds) Hd 0%Z) as Hacc.
  pose proof (dvalue_nonneg (d :: ds) 0%Z ltac:(lia)) as Hnn.
  rewrite Emap in *.
  assert (Esign : split_sign (c :: r) = (false, c :: r)).
  { unfold split_sign. destruct c; try reflexivity; congruence. }
  rewrite Esign. rewrite Hacc.
  set (v := dvalue 0 (d :: ds)) in *.
  destruct ((- 2 ^ 63 <=? v) && (v <? 2 ^ 63))%Z eqn:Er; [|lia].
  f_equal. unfold wrap64. rewrite Z.mod_small by lia. lia.
Qed.

(* ------------------------------------------------- option validation ---- *)
Definition is_proto e := match e with OProto _ => true | _ => false end.
Definition is_fmt e := match e with OFormat _ => true | _ => false end.
Definition is_data e := match e with OData | OFile _ => true | _ => false end.
Definition is_addr e := match e with OAddr _ => true | _ => false end.
Definition is_subev e := match e with OSub => true | _ => false end.
Definition cnt (f : optev -> bool) (l : list optev) : nat := length (filter f l).

Definition b2nat (b : bool) : nat := if b then 1%nat else 0%nat.
Definition onat {A} (o : option A) : nat := match o with Some _ => 1%nat | None => 0%nat end.

Lemma parse_all_inv l : forall s s',
  parse_all s l = inl s' ->
  (onat (ps_proto s') = onat (ps_proto s) + cnt is_proto l)%nat /\
  (b2nat (ps_fmt s') = b2nat (ps_fmt s) + cnt is_fmt l)%nat /\
  (b2nat (ps_data s') = b2nat (ps_data s) + cnt is_data l)%nat /\
  (ps_addr s' = ps_addr s || existsb is_addr l) /\
  (ps_sub s' = ps_sub s || existsb is_subev l) /\
  (ps_proto s = None -> forall p, ps_proto s' = Some p -> In (OProto p) l) /\
  (forall q, ps_proto s = Some q -> ps_proto s' = Some q).
Proof.
  unfold cnt. induction l as [|e l IH]; intros s s' H.
  - cbn in H. inversion H; subst. cbn. rewrite !orb_false_r. repeat split; auto; try lia. congruence.
  - cbn [parse_all] in H. destruct (parse_step s e) as [s1|v] eqn:E; [|discriminate].
    specialize (IH s1 s' H) as (I1 & I2 & I3 & I4 & I5 & I6 & I7).
    destruct e; cbn [parse_step] in E;
      repeat match type of E with
             | context [match ?c with _ => _ end] => destruct c eqn:?
             end; try discriminate; inversion E; subst; clear E; cbn in *;
      rewrite ?I4, ?I5, ?orb_true_l, ?orb_false_l;
      (repeat split; auto; try lia; try congruence;
       try (destruct (ps_addr s); reflexivity); try (destruct (ps_sub s); reflexivity);
       try solve [intros Hn pp Hpp; right; apply I6; auto]).
    intros _ pp Hpp. left. specialize (I7 p eq_refl). congruence.
Qed.

Lemma parse_all_err l : forall s v, parse_all s l = inr v -> forall p d, v <> VRun p d.
Proof.
  induction l as [|e l IH]; intros s v H p d; cbn [parse_all] in H; [discriminate|].
  destruct (parse_step s e) as [s1|v1] eqn:E; [eapply IH; exact H|].
  inversion H; subst; clear H.
  destruct e; cbn [parse_step] in E;
    repeat match type of E with context [match ?c with _ => _ end] => destruct c eqn:? end;
    inversion E; subst; discriminate.
Qed.

Lemma decide_run_sound l p d : decide l = VRun p d ->
  cnt is_proto l = 1%nat /\ In (OProto p) l /\
  (cnt is_fmt l <= 1)%nat /\ (cnt is_data l <= 1)%nat /\ (d = true <-> cnt is_data l = 1%nat) /\
  existsb is_addr l = true /\ Forall (fun e => e <> OAddr false) l /\
  (existsb is_subev l = true -> p = PSub).
Proof.
  unfold decide. destruct (parse_all ps0 l) as [s|v] eqn:E;
    [|intro Hv; exfalso; exact (parse_all_err l ps0 v E p d Hv)].
  pose proof (parse_all_inv l ps0 s E) as (I1 & I2 & I3 & I4 & I5 & I6 & _).
  cbn in I1, I2, I3, I4, I5.
  destruct (ps_proto s) as [q|] eqn:Ep; [|discriminate].
  destruct (ps_addr s) eqn:Ea; cbn [negb]; [|discriminate].
  destruct (negb (is_sub q) && ps_sub s) eqn:Es; [discriminate|].
  intro H; inversion H; subst; clear H.
  cbn in I1. unfold cnt in *.
  split; [lia|]. split; [apply I6; reflexivity|].
  split; [destruct (ps_fmt s); cbn in I2; lia|].
  split; [destruct (ps_data s); cbn in I3; lia|].
  split; [destruct (ps_data s); cbn in I3; split; intro; try lia; try reflexivity; try discriminate|].
  split; [symmetry; exact I4|].
  split.
  - (* no malformed address survives parsing *)
    clear -E. revert E. generalize ps0. induction l as [|e l IH]; intros s0 E; [constructor|].
    cbn [parse_all] in E. destruct (parse_step s0 e) as [s1|] eqn:E1; [|discriminate].
    constructor; [|eapply IH; exact E].
    intros ->. cbn in E1. discriminate.
  - intro Hs. rewrite Hs in I5. rewrite I5 in Es. destruct p; cbn in Es; try discriminate. reflexivity.
Qed.

(* conversely: every conflict is rejected (the verdict is an error) *)
Lemma decide_conflict l :
  (cnt is_proto l <> 1%nat \/ (2 <= cnt is_fmt l)%nat \/ (2 <= cnt is_data l)%nat \/ existsb is_addr l = false
   \/ In (OAddr false) l \/ In (OFormat false) l \/ In (OFile false) l) ->
  forall p d, decide l <> VRun p d.
Proof.
  intros H p d Hd. pose proof (decide_run_sound l p d Hd) as (A1 & _ & A3 & A4 & _ & A6 & A7 & _).
  destruct H as [H|[H|[H|[H|[H|[H|H]]]]]]; try lia; try congruence.
  - rewrite Forall_forall in A7. apply (A7 _ H). reflexivity.
  - (* invalid format: parse fails at that event or earlier *)
    clear -H Hd. unfold decide in Hd. destruct (parse_all ps0 l) as [s|v] eqn:E;
      [|exact (parse_all_err l ps0 v E p d Hd)].
    exfalso. clear Hd. revert E. generalize ps0. induction l as [|e l IH]; intros s0 E; [inversion H|].
    cbn [parse_all] in E. destruct (parse_step s0 e) as [s1|] eqn:E1; [|discriminate].
    destruct H as [->|H]; [|eapply IH; eauto].
    cbn in E1. destruct (ps_fmt s0); discriminate.
  - clear -H Hd. unfold decide in Hd. destruct (parse_all ps0 l) as [s|v] eqn:E;
      [|exact (parse_all_err l ps0 v E p d Hd)].
    exfalso. clear Hd. revert E. generalize ps0. induction l as [|e l IH]; intros s0 E; [inversion H|].
    cbn [parse_all] in E. destruct (parse_step s0 e) as [s1|] eqn:E1; [|discriminate].
    destruct H as [->|H]; [|eapply IH; eauto].
    cbn in E1. destruct (ps_data s0); discriminate.
Qed.

(* -------------------------------------------------------------- send ---- *)
Lemma send_loop_exact n data :
  length (send_loop n data) = n /\ forall m, In m (send_loop n data) -> m = data.
Proof. unfold send_loop. split. apply repeat_length. intros m H. apply repeat_spec in H. exact H. Qed.
