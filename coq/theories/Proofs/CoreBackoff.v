(* C14 over EVERY history of stimuli on the model of the repaired core: the reconnect delay of every dialer stays within
   [ReconnectTime, MaxReconnectTime] (or stays at ReconnectTime when no maximum is set) -- for every draw of the random
   back-off factor (the model carries the interval [lo, hi] that encloses all of them), whatever is refused, attached,
   lost, closed or timed out in between.  Configurations: MaxReconnectTime zero or not below ReconnectTime. *)
From MV Require Import Model.Core Model.CoreOracle Proofs.CoreProofs Proofs.CoreClose.
From Coq Require Import Lia ZifyBool ZifyN ZifyNat.
Open Scope N_scope.

Definition bnd (x : kdialer) : Prop :=
  if kd_max x =? 0 then kd_lo x = kd_min x * 10 /\ kd_hi x = kd_min x * 10
  else kd_min x <= kd_max x /\ kd_min x * 10 <= kd_lo x /\ kd_lo x <= kd_hi x /\ kd_hi x <= kd_max x * 10.

Definition DB (s : kstate) : Prop := forall x, In x (kdialers s) -> bnd x.

Lemma DB_get s d x : DB s -> get_d s d = Some x -> bnd x.
Proof. intros H Hg. apply H. unfold get_d in Hg. apply find_some in Hg. tauto. Qed.

Lemma DB_frame s s' : kdialers s' = kdialers s -> DB s -> DB s'.
Proof. intros Hd H x. rewrite Hd. apply H. Qed.

Lemma DB_put_d s y : bnd y -> DB s -> DB (put_d s y).
Proof.
  intros Hy H x Hx. unfold put_d in Hx. cbn [kset_dialers kdialers] in Hx. apply in_map_iff in Hx as (z & Ez & Hz).
  destruct (kd z =? kd y); subst; [exact Hy|exact (H _ Hz)].
Qed.

(* resetting the delay to the reconnect time *)
Lemma bnd_reset x c a p : bnd x -> bnd (with_d x c a (kd_min x * 10) (kd_min x * 10) p).
Proof.
  unfold bnd. cbn [with_d kd_max kd_min kd_lo kd_hi]. destruct (kd_max x =? 0); [auto|]. intros (A & _). lia.
Qed.
Lemma bnd_same x c a p : bnd x -> bnd (with_d x c a (kd_lo x) (kd_hi x) p).
Proof. unfold bnd. cbn [with_d kd_max kd_min kd_lo kd_hi]. auto. Qed.

(* growing it after a refused redial *)
Lemma bnd_grow x c a p lo hi :
  (if kd_max x =? 0 then (kd_lo x, kd_hi x)
   else (N.min (kd_max x * 10) (kd_lo x * 11 / 10), N.min (kd_max x * 10) (ceil_mul (kd_hi x) 15 10))) = (lo, hi) ->
  bnd x -> bnd (with_d x c a lo hi p).
Proof.
  unfold bnd. cbn [with_d kd_max kd_min kd_lo kd_hi]. destruct (N.eqb_spec (kd_max x) 0) as [E|E].
  - intros [= <- <-]. auto.
  - intros Hi (A & B & C & D).
    pose proof (backoff_bounds (kd_min x) (kd_max x) (kd_lo x) (kd_hi x) A B C D) as Hb.
    unfold next_interval in Hb. destruct (N.eqb_spec (kd_max x) 0); [contradiction|].
    injection Hi as <- <-. cbv beta iota in Hb. tauto.
Qed.

Lemma DB_start_dial s d w : DB s -> DB (start_dial s d w).
Proof.
  intro H. unfold start_dial. destruct (get_d s d) as [x|] eqn:E; [|exact H].
  destruct (kd_closed x); [destruct w; exact H|].
  apply (DB_frame (put_d s (with_d x false (kd_active x) (kd_lo x) (kd_hi x) (kd_pending x ++ [w])))); [reflexivity|].
  apply DB_put_d; [apply bnd_same, (DB_get s d x H E)|exact H].
Qed.

Lemma DB_pct s d : DB s -> DB (pipe_closed_timer s d).
Proof. intro H. unfold pipe_closed_timer. destruct (get_d s d); [|exact H]. revert H. apply DB_frame. reflexivity. Qed.

Lemma dialers_pipe_close s p : kdialers (pipe_close s p) = kdialers s.
Proof.
  unfold pipe_close. destruct (get_p s p) as [x|]; [|reflexivity]. destruct (ktclosed x); [reflexivity|].
  assert (H : forall s0 d, kdialers (pipe_closed_timer s0 d) = kdialers s0) by (intros s0 d; unfold pipe_closed_timer; destruct (get_d s0 d); reflexivity).
  destruct (kowner x); [|rewrite H]; destruct (kadded x); reflexivity.
Qed.

Lemma DB_pipe_close s p : DB s -> DB (pipe_close s p).
Proof. apply DB_frame, dialers_pipe_close. Qed.

Lemma DB_add_pipe s p o : DB s -> DB (add_pipe true s p o).
Proof.
  intro H. unfold add_pipe.
  set (s1 := kemit (kset_pipes s _) (HAttaching p)).
  assert (H1 : DB s1) by (revert H; apply DB_frame; reflexivity).
  set (s2 := if kpolicy s1 =? 1 then _ else s1).
  assert (H2 : DB s2) by (unfold s2; destruct (kpolicy s1 =? 1); [apply DB_pipe_close|]; exact H1).
  destruct (get_p s2 p) as [x|]; [|exact H2].
  destruct (kclosing x); [revert H2; apply DB_frame; reflexivity|].
  destruct (krefuse s2 || ksclosed s2).
  - apply DB_pipe_close. revert H2. apply DB_frame. reflexivity.
  - set (s3 := put_p (kemit s2 (PAdd p true)) _).
    assert (H3 : DB s3) by (revert H2; apply DB_frame; reflexivity).
    set (s4 := match o with OwnD d => _ | OwnL _ => s3 end).
    assert (H4 : DB s4).
    { unfold s4. destruct o as [l|d]; [exact H3|]. destruct (get_d s3 d) as [dx|] eqn:Ed; [|exact H3].
      apply DB_put_d; [apply bnd_reset, (DB_get s3 d dx H3 Ed)|exact H3]. }
    assert (H5 : DB (kemit s4 (HAttached p))) by (revert H4; apply DB_frame; reflexivity).
    destruct (kpolicy _ =? 2); [apply DB_pipe_close|]; exact H5.
Qed.

Lemma DB_resolve s d r p : DB s -> DB (resolve true true s d r p).
Proof.
  intro H. unfold resolve. destruct (get_d s d) as [x|] eqn:Ex; [|exact H].
  assert (Hk : kd x = d) by (eapply get_d_kd; eauto).
  destruct (kd_pending x) as [|w rest]; [exact H|].
  set (x1 := with_d x (kd_closed x) (kd_active x) (kd_lo x) (kd_hi x) rest).
  assert (Hb1 : bnd x1) by (apply bnd_same, (DB_get s d x H Ex)).
  assert (H1 : DB (put_d s x1)) by (apply DB_put_d; assumption).
  destruct r.
  - assert (H2 : DB (add_pipe true (put_d s x1) p (OwnD d))) by (apply DB_add_pipe, H1).
    destruct w; [revert H2; apply DB_frame; reflexivity|exact H2].
  - destruct w as [t|].
    + destruct (kd_asynch x1); [exact H1|].
      assert (H2 : DB (kemit (put_d s x1) (KRet t KERefused))) by (revert H1; apply DB_frame; reflexivity).
      destruct (get_d (kemit (put_d s x1) (KRet t KERefused)) d) as [y|] eqn:Ey; [|exact H2].
      apply DB_put_d; [apply bnd_same, (DB_get _ d y H2 Ey)|exact H2].
    + destruct (if kd_max x1 =? 0 then _ else _) as [lo hi] eqn:Ei.
      apply DB_put_d; [|revert H1; apply DB_frame; reflexivity].
      change (bnd (with_d x1 (kd_closed x1) (kd_active x1) lo hi rest)).
      apply bnd_grow; [exact Ei|exact Hb1].
Qed.

Lemma DB_fire : forall fuel s, DB s -> DB (fire_timers fuel s).
Proof.
  induction fuel as [|f IH]; intros s H; [exact H|]. cbn [fire_timers]. destruct (filter _ (ktimers s)); [exact H|].
  apply IH, DB_start_dial. revert H. apply DB_frame. reflexivity.
Qed.

Lemma DB_fold {A} (f : kstate -> A -> kstate) : (forall s a, DB s -> DB (f s a)) -> forall l s, DB s -> DB (fold_left f l s).
Proof. intros Hf l. induction l as [|a l IH]; intros s H; cbn [fold_left]; [exact H|]. apply IH, Hf, H. Qed.

Lemma DB_fold_in {A} (f : kstate -> A -> kstate) (l : list A) :
  (forall s a, In a l -> DB s -> DB (f s a)) -> forall s, DB s -> DB (fold_left f l s).
Proof.
  induction l as [|a l IH]; intros Hf s H; cbn [fold_left]; [exact H|].
  apply IH; [intros s0 a0 Hin; apply Hf; right; exact Hin|apply Hf; [left; reflexivity|exact H]].
Qed.

(* the configurations the property quantifies over *)
Definition cfg_ok (st : kstim) : Prop :=
  match st with KNewDialer _ _ dmin dmax => dmax = 0 \/ dmin <= dmax | _ => True end.

Lemma DB_step_raw s st : cfg_ok st -> DB s -> DB (kstep_raw true true s st).
Proof.
  intros Hc H. destruct st; [cbn [kstep_raw]..|rewrite kpass_eq|cbn [kstep_raw]].
  - destruct (ksclosed s); [exact H|]. destruct fail; exact H.
  - destruct (get_l s l) as [x|]; [|exact H]. destruct (kl_closed x); [exact H|]. destruct (kl_active x); exact H.
  - destruct (get_l s l) as [x|]; [|exact H]. destruct (_ && _); [apply DB_add_pipe|]; exact H.
  - exact H.
  - destruct (get_l s l) as [x|]; [|exact H]. destruct (kl_closed x); exact H.
  - (* KNewDialer *)
    destruct (ksclosed s); [exact H|]. intros x0 Hx0. cbn [kset_dialers kdialers] in Hx0.
    apply in_app_or in Hx0 as [Hx0|[<-|[]]]; [exact (H _ Hx0)|]. unfold bnd. cbn [kd_max kd_min kd_lo kd_hi].
    destruct (N.eqb_spec dmax 0); [auto|]. cbn in Hc. lia.
  - (* KDial *)
    destruct (get_d s d) as [x|] eqn:Ex; [|exact H].
    destruct (kd_active x); [exact H|]. destruct (kd_closed x); [exact H|].
    assert (H1 : DB (put_d s (with_d x false true (kd_min x * 10) (kd_min x * 10) (kd_pending x)))).
    { apply DB_put_d; [apply bnd_reset, (DB_get s d x H Ex)|exact H]. }
    destruct (kd_asynch x); [match goal with |- DB (kemit ?X _) => apply (DB_frame X); [reflexivity|] end|]; apply DB_start_dial, H1.
  - apply DB_resolve, H.
  - destruct (get_d s d) as [x|] eqn:Ex; [|exact H]. destruct (kd_closed x); [exact H|].
    apply (DB_frame (put_d (kset_timers s (filter (fun tm => negb ((kt_d tm =? d) && kt_stoppable tm)) (ktimers s))) (with_d x true (kd_active x) (kd_lo x) (kd_hi x) (kd_pending x)))); [reflexivity|].
    apply DB_put_d; [apply bnd_same, (DB_get s d x H Ex)|revert H; apply DB_frame; reflexivity].
  - apply DB_pipe_close, H.
  - apply DB_pipe_close, H.
  - exact H.
  - exact H.
  - (* KCloseSock *)
    match goal with |- DB (kemit ?X _) => apply (DB_frame X); [reflexivity|] end.
    apply DB_fold; [intros s0 x H0; destruct (klisted x); [apply DB_pipe_close|]; exact H0|].
    match goal with |- DB (fold_left _ (kdialers ?S1) ?S1) =>
      assert (H1 : DB S1) by (apply DB_fold; [intros s0 x H0; destruct (kl_closed x); [exact H0|revert H0; apply DB_frame; reflexivity]|revert H; apply DB_frame; reflexivity]);
      revert H1; generalize S1 end.
    intros s1 H1. apply DB_fold_in; [|exact H1].
    intros s0 x Hin H0. destruct (kd_closed x); [exact H0|].
    apply DB_put_d; [apply bnd_same, (H1 x Hin)|revert H0; apply DB_frame; reflexivity].
  - unfold kpass_body. cbv zeta.
    match goal with |- DB (kset_misc ?X _ _ _ _ _) =>
      assert (H1 : DB X) by (apply DB_fire; revert H; apply DB_frame; reflexivity); revert H1; generalize X end.
    intros s2 H2. revert H2. apply DB_frame. reflexivity.
  - exact H.
Qed.

(* ---- histories ---- *)
Fixpoint cfg_hist (h : list kstim) : Prop := match h with [] => True | st :: r => cfg_ok st /\ cfg_hist r end.
Definition krun (s : kstate) (h : list kstim) : kstate := fold_left (fun s st => fst (kstep true true s st)) h s.

Lemma DB_run : forall h s, cfg_hist h -> DB s -> DB (krun s h).
Proof.
  induction h as [|st r IH]; intros s Hc H; [exact H|]. destruct Hc as [Hc1 Hc2]. unfold krun. cbn [fold_left].
  apply IH; [exact Hc2|]. change (fst (kstep true true s st)) with (kstep_raw true true (kclear s) st).
  apply DB_step_raw; [exact Hc1|]. revert H. apply DB_frame. reflexivity.
Qed.

Theorem backoff_within_bounds_all_histories h : cfg_hist h ->
  forall d x, get_d (krun kinit h) d = Some x ->
  if kd_max x =? 0 then kd_lo x = kd_min x * 10 /\ kd_hi x = kd_min x * 10
  else kd_min x * 10 <= kd_lo x /\ kd_lo x <= kd_hi x /\ kd_hi x <= kd_max x * 10.
Proof.
  intros Hc d x Hx. assert (H0 : DB kinit) by (intros y []).
  pose proof (DB_get _ d x (DB_run h kinit Hc H0) Hx) as Hb. unfold bnd in Hb.
  destruct (kd_max x =? 0); [exact Hb|tauto].
Qed.

(* the redial timer armed after a refused attempt is due exactly one current delay from now (for every draw: within
   [now + lo, now + hi]); the one armed when an attached pipe is lost likewise *)
Lemma pipe_closed_timer_due s d x : get_d s d = Some x ->
  ktimers (pipe_closed_timer s d) = ktimers s ++ [{| kt_d := d; kt_lo := know s * 10 + kd_lo x; kt_hi := know s * 10 + kd_hi x; kt_stoppable := false |}].
Proof. intro H. unfold pipe_closed_timer. rewrite H. reflexivity. Qed.
