(* Lemmas behind Props/C19.v -- the uniform option contract of Model/Options.v. *)
From Coq Require Import List NArith ZArith Bool String Ascii Lia.
From MV Require Import Model.Options.
Import ListNotations.
Open Scope string_scope.
Open Scope list_scope.

(* ---- unknown / unsupported names ---- *)

Lemma unknown_name_bad_option : forall k name v,
  lookup name = None -> expected k name v = RBadOption /\ expected_exc k name v = Some RBadOption.
Proof. intros k name v H. unfold expected, expected_exc, expected_exc_o. rewrite H. split; reflexivity. Qed.

Lemma unsupported_id_bad_option : forall k o v,
  can_set k o = false -> expected_id k o v = RBadOption.
Proof. intros k o v H. unfold expected_id. rewrite H. reflexivity. Qed.

Lemma unsupported_name_bad_option : forall k name o v,
  lookup name = Some o -> can_set k o = false ->
  expected k name v = RBadOption /\ expected_exc k name v = Some RBadOption.
Proof.
  intros k name o v Hl Hc. unfold expected, expected_exc, expected_exc_o. rewrite Hl.
  rewrite (unsupported_id_bad_option k o v Hc). split; reflexivity.
Qed.

(* a name is known exactly when it is one of the table's strings *)
Lemma lookup_in_none : forall t s, lookup_in t s = None <-> ~ In s (map fst t).
Proof.
  induction t as [|[n o] t IH]; intros s; cbn [lookup_in map fst In].
  - tauto.
  - destruct (String.eqb_spec n s) as [E|E].
    + split; [discriminate | intros H; exfalso; apply H; left; exact E].
    + rewrite IH. tauto.
Qed.

Lemma unknown_is_bad_option_lemma : forall k name v,
  ~ In name (map fst name_table) -> expected k name v = RBadOption.
Proof.
  intros k name v H. apply unknown_name_bad_option. apply lookup_in_none. exact H.
Qed.

(* pipes have no SetOption at all; nothing can be set on them *)
Lemma pipes_set_nothing : forall t s name v, expected (KPipe t s) name v = RBadOption.
Proof.
  intros t s name v. unfold expected. destruct (lookup name); [|reflexivity].
  apply unsupported_id_bad_option. reflexivity.
Qed.

(* ---- wrong type / out of range ---- *)

Lemma out_of_domain_bad_value : forall k o v,
  can_set k o = true -> domain o v = false -> expected_id k o v = RBadValue.
Proof. intros k o v Hc Hd. unfold expected_id. rewrite Hc, Hd. reflexivity. Qed.

Lemma in_domain_ok : forall k o v,
  can_set k o = true -> domain o v = true -> expected_id k o v = ROk.
Proof. intros k o v Hc Hd. unfold expected_id. rewrite Hc, Hd. reflexivity. Qed.

(* with the exception list: still BadValue unless the triple is a recorded widening / state-dependent case *)
Lemma out_of_domain_bad_value_exc : forall k name o v,
  lookup name = Some o -> can_set k o = true -> domain o v = false ->
  exception k o v = ENone \/ exception k o v = ENarrow ->
  expected_exc k name v = Some RBadValue.
Proof.
  intros k name o v Hl Hc Hd He. unfold expected_exc, expected_exc_o. rewrite Hl.
  rewrite (out_of_domain_bad_value k o v Hc Hd). destruct He as [-> | ->]; reflexivity.
Qed.

(* no option except the xpull test hook takes nil or a value of a foreign dynamic type *)
Lemma foreign_type_outside_every_domain : forall o t,
  o <> OResizeDiscards -> domain o (VOther t) = false /\ domain o VNil = false.
Proof. intros o t H. destruct o; try (split; reflexivity). contradiction. Qed.

Lemma wrong_type_lemma : forall o,
  o <> OResizeDiscards ->
  (forall z, domain o (VInt z) = true -> forall d b n, domain o (VDur d) = false /\ domain o (VBool b) = false /\ domain o (VBytes n) = false /\ domain o VString = false) /\
  (forall d, domain o (VDur d) = true -> forall z b n, domain o (VInt z) = false /\ domain o (VBool b) = false /\ domain o (VBytes n) = false /\ domain o VString = false) /\
  (forall b, domain o (VBool b) = true -> forall z d n, domain o (VInt z) = false /\ domain o (VDur d) = false /\ domain o (VBytes n) = false /\ domain o VString = false).
Proof.
  intros o H. destruct o; try contradiction; cbn [domain];
    (split; [|split]); intros; try discriminate; repeat split; reflexivity.
Qed.

Lemma ranges_lemma :
  (forall z, domain OTtl (VInt z) = true <-> (1 <= z <= 255)%Z) /\
  (forall z, domain OReadQLen (VInt z) = true <-> (0 <= z)%Z) /\
  (forall z, domain OWriteQLen (VInt z) = true <-> (0 <= z)%Z) /\
  (forall z, domain OMaxRecvSize (VInt z) = true <-> (0 <= z)%Z) /\
  (forall d, domain OReconnectTime (VDur d) = true <-> (0 <= d)%Z) /\
  (forall d, domain OMaxReconnectTime (VDur d) = true <-> (0 <= d)%Z) /\
  (forall d, domain ORecvDeadline (VDur d) = true /\ domain OSendDeadline (VDur d) = true).
Proof.
  cbn [domain]. repeat split; intros; try reflexivity;
    rewrite ?andb_true_iff, ?Z.leb_le in *; lia.
Qed.

(* ---- never crashes: the contract has exactly three outcomes, and the exceptions only trade Ok for BadValue ---- *)

Lemma three_outcomes : forall k name v,
  expected k name v = ROk \/ expected k name v = RBadOption \/ expected k name v = RBadValue.
Proof. intros. destruct (expected k name v); auto. Qed.

Lemma exceptions_keep_bad_option : forall k name v,
  expected k name v = RBadOption <-> expected_exc k name v = Some RBadOption.
Proof.
  intros k name v. unfold expected, expected_exc, expected_exc_o. destruct (lookup name) as [o|]; [|tauto].
  destruct (expected_id k o v) eqn:E; destruct (exception k o v); split; intros H; try discriminate; reflexivity.
Qed.

Lemma exceptions_are_ok_or_bad_value : forall k name v r,
  expected k name v <> RBadOption -> expected_exc k name v = Some r -> r = ROk \/ r = RBadValue.
Proof.
  intros k name v r. unfold expected, expected_exc, expected_exc_o. destruct (lookup name) as [o|]; [|congruence].
  destruct (expected_id k o v) eqn:E; destruct (exception k o v); intros H1 H2;
    try congruence; injection H2 as <-; auto.
Qed.

(* the checker refuses a panic or a foreign error whatever the model expected *)
Lemma panic_never_accepted : forall e, set_matches e SPanic = false /\ set_matches e SOtherErr = false.
Proof. intros [[| |]|]; split; reflexivity. Qed.
Lemma get_panic_never_accepted : forall k o s pr,
  get_ok k o s pr GPanic = false /\ get_ok k o s pr GOtherErr = false.
Proof.
  intros k o s pr. unfold get_ok. destruct o as [o|]; [|split; reflexivity].
  destruct (negb (can_get k o)); [split; reflexivity|]. destruct (negb pr); [split; reflexivity|].
  destruct s; destruct (get_is_constant o); split; reflexivity.
Qed.

(* ---- get after set ---- *)

Lemma get_after_set_lemma : forall k o g,
  can_get k o = true -> get_is_constant o = false ->
  (get_ok k (Some o) SOk true g = true <-> g = GSet \/ g = GBoth).
Proof.
  intros k o g Hc Hk. unfold get_ok. rewrite Hc, Hk. cbn [negb].
  destruct g; split; intros H; try discriminate; auto; destruct H; discriminate.
Qed.

Lemma refused_set_changes_nothing : forall k o s g,
  can_get k o = true -> s <> SOk ->
  (get_ok k (Some o) s true g = true <-> g = GUnchanged \/ g = GBoth).
Proof.
  intros k o s g Hc Hs. unfold get_ok. rewrite Hc. cbn [negb].
  destruct s; try contradiction; destruct g; split; intros H; try discriminate; auto; destruct H; discriminate.
Qed.

(* ---- zero durations ---- *)

Lemma zero_deadline_never_ready : forall e, deadline_ready 0 e = false.
Proof. reflexivity. Qed.
Lemma positive_deadline : forall d e, (0 < d)%N -> (deadline_ready d e = true <-> (d <= e)%N).
Proof.
  intros d e H. unfold deadline_ready. rewrite andb_true_iff, negb_true_iff, N.eqb_neq, N.leb_le. lia.
Qed.
Lemma zero_survey_time_always_open : forall e, survey_open 0 e = true.
Proof. reflexivity. Qed.
Lemma positive_survey_time : forall t e, (0 < t)%N -> (survey_open t e = true <-> (e < t)%N).
Proof.
  intros t e H. unfold survey_open. rewrite orb_true_iff, N.eqb_eq, N.ltb_lt. lia.
Qed.
Lemma zero_retry_never : forall e, retry_due 0 e = false.
Proof. reflexivity. Qed.
Lemma zero_effects_expected :
  (forall p w, effect_expected (ERecvBlock p 0 w) = "blocked") /\
  (forall p w, effect_expected (ESendBlock p 0 w) = "blocked") /\
  (forall a, effect_expected (ESurvey 0 a) = "accepted") /\
  (forall w, effect_expected (ERetry 0 w) = "noretry").
Proof. repeat split. Qed.

(* ---- queue resize ---- *)

Lemma settle_retry_ids : forall ps items cap,
  map fst (fst (settle Retry ps items cap)) = map fst ps.
Proof.
  induction ps as [|[id st] ps IH]; intros items cap; cbn [settle]; [reflexivity|].
  destruct st as [|m].
  - specialize (IH items cap). destruct (settle Retry ps items cap) as [r' it]. cbn [fst map] in *. now rewrite IH.
  - destruct (room items cap).
    + specialize (IH (items ++ [m]) cap). destruct (settle Retry ps (items ++ [m]) cap) as [r' it]. cbn [fst map] in *. now rewrite IH.
    + specialize (IH items cap). destruct (settle Retry ps items cap) as [r' it]. cbn [fst map] in *. now rewrite IH.
Qed.

Lemma resize_keeps_pipes_lemma : forall s n, pipe_ids (resize Retry s n) = pipe_ids s.
Proof.
  intros s n. unfold resize, pipe_ids.
  pose proof (settle_retry_ids (q_pipes s) [] n) as H.
  destruct (settle Retry (q_pipes s) [] n) as [ps it]. cbn [q_pipes fst] in *. exact H.
Qed.

Lemma settle_bounded : forall pol ps items cap,
  (N.of_nat (List.length items) <= cap)%N ->
  (N.of_nat (List.length (snd (settle pol ps items cap))) <= cap)%N.
Proof.
  induction ps as [|[id st] ps IH]; intros items cap H; cbn [settle]; [exact H|].
  destruct st as [|m].
  - specialize (IH items cap H). destruct (settle pol ps items cap). exact IH.
  - destruct pol.
    + destruct (room items cap) eqn:R.
      * assert (H' : (N.of_nat (List.length (items ++ [m])) <= cap)%N).
        { unfold room in R. apply N.ltb_lt in R. rewrite app_length. cbn [List.length]. lia. }
        specialize (IH (items ++ [m]) cap H'). destruct (settle Retry ps (items ++ [m]) cap). exact IH.
      * specialize (IH items cap H). destruct (settle Retry ps items cap). exact IH.
    + apply IH. exact H.
Qed.

Lemma resize_capacity : forall pol s n,
  q_cap (resize pol s n) = n /\ (N.of_nat (List.length (q_items (resize pol s n))) <= n)%N.
Proof.
  intros pol s n. unfold resize.
  pose proof (settle_bounded pol (q_pipes s) [] n) as H.
  destruct (settle pol (q_pipes s) [] n) as [ps it]. cbn [q_cap q_items snd] in *.
  split; [reflexivity|]. apply H. cbn. lia.
Qed.

(* the code as found in xbus: a receiver blocked on the full queue closes its pipe on the resize signal *)
Lemma break_outer_drops_a_pipe :
  exists s n, pipe_ids (resize BreakOuter s n) <> pipe_ids s.
Proof.
  exists {| q_pipes := [(1%N, RBlocked 7%N)]; q_items := [1%N; 2%N]; q_cap := 2%N |}, 8%N.
  vm_compute. discriminate.
Qed.

Lemma only_bus_breaks : forall p, code_policy p = BreakOuter <-> (p = Pbus \/ p = Pxbus).
Proof. intros p. destruct p; cbn; split; intros H; try discriminate; auto; destruct H; discriminate. Qed.

(* ---- inheritance ---- *)

Lemma inherited_is_readable : forall s o,
  inherits s o = true ->
  match s with
  | ICtx p => can_get (KCtx p) o = true /\ can_set (KSock p) o = true
  | IDialer t => can_get (KDialer t) o = true
  | IListener t => can_get (KListener t) o = true
  end.
Proof.
  intros s o H. destruct s as [p|t|t].
  - destruct p; try discriminate; destruct o; try discriminate; split; reflexivity.
  - destruct t; destruct o; try discriminate; reflexivity.
  - destruct t; destruct o; try discriminate; reflexivity.
Qed.

Lemma dialer_inherits_core : forall t o, mem o core_dialer_rw = true -> inherits (IDialer t) o = true.
Proof. intros t o H. cbn [inherits]. rewrite H. reflexivity. Qed.

(* ---- unsupported operations ---- *)

Lemma unsupported_ops_lemma :
  (forall p, can_recv p = false -> unsup_expected (URecv p) = Some OpProtoOp) /\
  (forall p, can_send p = false -> unsup_expected (USend p) = Some OpProtoOp) /\
  (forall p, has_contexts p = false -> unsup_expected (UOpenCtx p) = Some OpProtoOp) /\
  (forall p, can_recv p = false <-> In p [Ppub; Pxpub; Ppush; Pxpush]) /\
  (forall p, can_send p = false <-> In p [Psub; Pxsub; Ppull; Pxpull]).
Proof.
  split; [|split; [|split; [|split]]].
  - intros p H. cbn. rewrite H. reflexivity.
  - intros p H. cbn. rewrite H. reflexivity.
  - intros p H. cbn. rewrite H. reflexivity.
  - intros p. destruct p; cbn; split; intros H; try discriminate; try tauto;
      repeat (destruct H as [H|H]; try discriminate); try contradiction.
  - intros p. destruct p; cbn; split; intros H; try discriminate; try tauto;
      repeat (destruct H as [H|H]; try discriminate); try contradiction.
Qed.

Lemma device_lemma : forall a b,
  (device_result (Some a) (Some b) = OpOk <->
     (self_num a = peer_num b /\ self_num b = peer_num a /\ is_raw a = true /\ is_raw b = true)) /\
  ((self_num a <> peer_num b \/ self_num b <> peer_num a) -> device_result (Some a) (Some b) = OpBadProto) /\
  (self_num a = peer_num b -> self_num b = peer_num a -> (is_raw a = false \/ is_raw b = false) ->
     device_result (Some a) (Some b) = OpNotRaw).
Proof.
  intros a b. unfold device_result.
  destruct (N.eqb_spec (self_num a) (peer_num b)) as [E1|E1];
  destruct (N.eqb_spec (self_num b) (peer_num a)) as [E2|E2]; cbn [andb negb];
  destruct (is_raw a); destruct (is_raw b); cbn [andb negb orb];
  repeat split; intros; try discriminate; try tauto; try reflexivity;
  repeat match goal with H : _ /\ _ |- _ => destruct H end; try discriminate; try contradiction;
  repeat match goal with H : _ \/ _ |- _ => destruct H end; try discriminate; try contradiction.
Qed.

Lemma device_nil : device_result None None = OpClosed /\
  (forall p, device_result None (Some p) = device_result (Some p) (Some p)) /\
  (forall p, device_result (Some p) None = device_result (Some p) (Some p)).
Proof. repeat split. Qed.

(* ---- combined statements, as stated in Props/C19.v ---- *)

Lemma never_crashes_combined : forall k name v,
  (expected k name v = ROk \/ expected k name v = RBadOption \/ expected k name v = RBadValue) /\
  (expected k name v = RBadOption <-> expected_exc k name v = Some RBadOption) /\
  (forall r, expected k name v <> RBadOption -> expected_exc k name v = Some r -> r = ROk \/ r = RBadValue).
Proof.
  intros k name v. split; [exact (three_outcomes k name v)|].
  split; [exact (exceptions_keep_bad_option k name v)|]. intros r. exact (exceptions_are_ok_or_bad_value k name v r).
Qed.

Lemma panic_never_accepted_combined : forall e k o s pr,
  set_matches e SPanic = false /\ set_matches e SOtherErr = false /\
  get_ok k o s pr GPanic = false /\ get_ok k o s pr GOtherErr = false.
Proof.
  intros e k o s pr. destruct (panic_never_accepted e) as [A B]. destruct (get_panic_never_accepted k o s pr) as [C D].
  repeat split; assumption.
Qed.

Lemma zero_duration_is_no_limit_combined :
  (forall e, deadline_ready 0 e = false) /\
  (forall e, survey_open 0 e = true) /\
  (forall e, retry_due 0 e = false) /\
  (forall d e, (0 < d)%N -> (deadline_ready d e = true <-> (d <= e)%N)) /\
  (forall t e, (0 < t)%N -> (survey_open t e = true <-> (e < t)%N)).
Proof.
  split; [exact zero_deadline_never_ready|]. split; [exact zero_survey_time_always_open|].
  split; [exact zero_retry_never|]. split; [exact positive_deadline | exact positive_survey_time].
Qed.

Lemma resize_keeps_pipes_combined : forall s n,
  pipe_ids (resize Retry s n) = pipe_ids s /\
  q_cap (resize Retry s n) = n /\ (N.of_nat (List.length (q_items (resize Retry s n))) <= n)%N.
Proof.
  intros s n. split; [exact (resize_keeps_pipes_lemma s n) | exact (resize_capacity Retry s n)].
Qed.

Lemma resize_refuted_for_bus_combined :
  (exists s n, pipe_ids (resize BreakOuter s n) <> pipe_ids s) /\
  (forall p, code_policy p = BreakOuter <-> (p = Pbus \/ p = Pxbus)).
Proof. split; [exact break_outer_drops_a_pipe | exact only_bus_breaks]. Qed.
