(* C17: soundness of the ledger monitor and the balance of the library's clone/free paths. *)
From MV Require Import Lib.Bytes Model.Wire Model.Refcnt Proofs.WireProofs.
From Coq Require Import FMapPositive ZifyBool ZifyN ZifyNat FinFun.
Open Scope N_scope.

(* ------------------------------------------------------------------ heap ---- *)
Lemma hget_empty m : hget hempty m = dead.
Proof. unfold hget, hempty. rewrite PositiveMap.gempty. reflexivity. Qed.

Lemma succ_pos_inj a b : N.succ_pos a = N.succ_pos b -> a = b.
Proof. intro H. apply (f_equal Npos) in H. rewrite !N.succ_pos_spec in H. lia. Qed.

Lemma hget_hset h k v m : hget (hset h k v) m = if m =? k then v else hget h m.
Proof.
  unfold hget, hset. destruct (N.eqb_spec m k) as [->|Hne].
  - rewrite PositiveMap.gss. reflexivity.
  - rewrite PositiveMap.gso; [reflexivity|]. intro H. apply succ_pos_inj in H. contradiction.
Qed.

Lemma hget_hset_same h k v : hget (hset h k v) k = v.
Proof. rewrite hget_hset, N.eqb_refl. reflexivity. Qed.

Lemma hget_hset_other h k v m : m <> k -> hget (hset h k v) m = hget h m.
Proof. intro H. rewrite hget_hset. destruct (N.eqb_spec m k); [contradiction|reflexivity]. Qed.

(* ------------------------------------------------------------------ run ---- *)
Lemma run_app h a b : run h (a ++ b) = match run h a with Some h' => run h' b | None => None end.
Proof.
  revert h; induction a as [|o a IH]; intro h; cbn [app run]; [reflexivity|].
  destruct (step h o); [apply IH|reflexivity].
Qed.

Lemma run_app_some h a b h' : run h (a ++ b) = Some h' -> exists h1, run h a = Some h1 /\ run h1 b = Some h'.
Proof. rewrite run_app. destruct (run h a) as [h1|]; [eauto|discriminate]. Qed.

Lemma run_cons_some h o b h' : run h (o :: b) = Some h' -> exists h1, step h o = Some h1 /\ run h1 b = Some h'.
Proof. cbn [run]. destruct (step h o) as [h1|]; [eauto|discriminate]. Qed.

Lemma ledger_ok_run tr : ledger_ok tr = true <-> exists h, run hempty tr = Some h.
Proof.
  unfold ledger_ok. destruct (run hempty tr) as [h|]; split; intro H; try eauto; try discriminate.
  destruct H as [? H]; discriminate.
Qed.

Lemma ledger_bad_from_nil i h tr : ledger_bad_from i h tr = [] <-> exists h', run h tr = Some h'.
Proof.
  revert i h; induction tr as [|o r IH]; intros i h; cbn [ledger_bad_from run].
  - split; eauto.
  - destruct (step h o) as [h1|]; [apply IH|]. split; [discriminate|]. intros [? H]; discriminate.
Qed.

(* ------------------------------------------------------------------ one step ---- *)
Ltac stepinv H :=
  cbn [step] in H;
  repeat match type of H with
         | (let c := _ in _) = _ => cbv zeta in H
         | (if ?b then _ else _) = Some _ => let E := fresh "E" in destruct b eqn:E; [|discriminate]
         end;
  try (injection H as H; subst);
  unfold usable in *.
Ltac stepcases H := match type of H with step _ ?o = _ => destruct o end; stepinv H.

Lemma names_id m o : names m o = true <-> op_id o = Some m.
Proof.
  unfold names. destruct (op_id o) as [x|]; [|split; discriminate].
  destruct (N.eqb_spec x m); split; intro H; try congruence; try discriminate; try (inversion H; contradiction).
Qed.

(* events that do not name m leave its cell alone *)
Lemma step_frame h o h' m : step h o = Some h' -> names m o = false -> hget h' m = hget h m.
Proof.
  intros H Hn. unfold names in Hn.
  stepcases H; cbn [op_id] in Hn; try reflexivity;
    apply hget_hset_other; intro; subst; rewrite N.eqb_refl in Hn; discriminate.
Qed.

Lemma run_frame h tr h' m : run h tr = Some h' -> (forall o, In o tr -> names m o = false) -> hget h' m = hget h m.
Proof.
  revert h; induction tr as [|o r IH]; intros h H Hn.
  - cbn in H. inversion H. reflexivity.
  - apply run_cons_some in H as (h1 & Hs & Hr).
    rewrite (IH h1 Hr) by (intros o' Ho'; apply Hn; right; exact Ho').
    apply (step_frame _ _ _ _ Hs). apply Hn. left. reflexivity.
Qed.

(* every event other than the allocator's needs the object allocated *)
Lemma step_uses_live h o h' m : step h o = Some h' -> uses m o = true -> live (hget h m) = true.
Proof.
  intros H Hu. unfold uses in Hu. apply andb_true_iff in Hu as [Hn Hnn]. apply names_id in Hn.
  unfold usable in *.
  stepcases H; cbn [op_id is_new] in *; try discriminate; inversion Hn; subst; lia.
Qed.

(* the only accepted event that leaves the object unallocated is its release *)
Lemma step_to_dead h o h' m : step h o = Some h' -> names m o = true -> live (hget h' m) = false -> o = MRelease m.
Proof.
  intros H Hn Hd. apply names_id in Hn. unfold usable in *.
  stepcases H; cbn [op_id] in Hn; inversion Hn; subst; try rewrite hget_hset_same in Hd; cbn in Hd; try discriminate; try reflexivity; lia.
Qed.

Lemma step_release_dead h m h' : step h (MRelease m) = Some h' -> live (hget h' m) = false.
Proof. intro H. stepinv H. rewrite hget_hset_same. reflexivity. Qed.

(* in the application's hands: only the application's free is accepted *)
Lemma out_blocks h o h' m : live (hget h m) = true -> out (hget h m) = true -> step h o = Some h' -> names m o = true -> o = MAppFree m.
Proof.
  intros Hl Ho H Hn. apply names_id in Hn. unfold usable in *.
  stepcases H; cbn [op_id] in Hn; inversion Hn; subst; try reflexivity; lia.
Qed.

(* at zero, awaiting release: only the release is accepted *)
Lemma zero_blocks h o h' m : hget h m = owned 0 -> step h o = Some h' -> names m o = true -> o = MRelease m.
Proof.
  intros Hc H Hn. apply names_id in Hn. unfold usable in *.
  stepcases H; cbn [op_id] in Hn; inversion Hn; subst; try reflexivity; rewrite Hc in *; cbn in *; lia.
Qed.

(* the monitor's count is the count the events define *)
Lemma step_rc h o h' m : step h o = Some h' -> Z.of_N (rc (hget h' m)) = rc_step m (Z.of_N (rc (hget h m))) o.
Proof.
  intro H. unfold usable in *.
  stepcases H; cbn [rc_step]; try reflexivity;
    rewrite hget_hset; (destruct (N.eqb_spec m m0) as [->|Hne];
      [rewrite ?N.eqb_refl; cbn; lia | try replace (m0 =? m) with false by lia; reflexivity]).
Qed.

Lemma run_rc h tr h' m : run h tr = Some h' -> Z.of_N (rc (hget h' m)) = fold_left (rc_step m) tr (Z.of_N (rc (hget h m))).
Proof.
  revert h; induction tr as [|o r IH]; intros h H.
  - cbn in H. inversion H. reflexivity.
  - apply run_cons_some in H as (h1 & Hs & Hr). cbn [fold_left]. rewrite (IH h1 Hr), (step_rc _ _ _ m Hs). reflexivity.
Qed.

Lemma run_refcount tr h m : run hempty tr = Some h -> Z.of_N (rc (hget h m)) = refcount_of m tr.
Proof. intro H. rewrite (run_rc _ _ _ m H), hget_empty. reflexivity. Qed.

(* ------------------------------------------------------------------ ledger_sound ---- *)
(* while nobody re-issues it, a released object stays released -- so nothing can have used it *)
Lemma dead_stays h b h' m : live (hget h m) = false -> run h b = Some h' ->
  (forall o', In o' b -> reissues m o' = false) -> live (hget h' m) = false.
Proof.
  revert h; induction b as [|o b IH]; intros h Hd H Hn.
  - cbn in H. inversion H; subst. exact Hd.
  - apply run_cons_some in H as (h1 & Hs & Hr).
    apply (IH h1); [|exact Hr|intros o' Ho'; apply Hn; right; exact Ho'].
    destruct (names m o) eqn:En.
    + assert (Hu : uses m o = true).
      { unfold uses. rewrite En. specialize (Hn o (or_introl eq_refl)). unfold reissues in Hn. rewrite En in Hn. cbn in *. rewrite Hn. reflexivity. }
      rewrite (step_uses_live _ _ _ _ Hs Hu) in Hd. discriminate.
    + rewrite (step_frame _ _ _ _ Hs En). exact Hd.
Qed.

Lemma exists_reissue_dec m b : (exists o', In o' b /\ reissues m o' = true) \/ (forall o', In o' b -> reissues m o' = false).
Proof.
  induction b as [|o b [IH|IH]].
  - right. intros o' [].
  - left. destruct IH as (o' & Hi & Hr). exists o'. split; [right; exact Hi|exact Hr].
  - destruct (reissues m o) eqn:E.
    + left. exists o. split; [left; reflexivity|exact E].
    + right. intros o' [<-|Hi]; [exact E|apply IH; exact Hi].
Qed.

Lemma sound_use_after_release tr : ledger_ok tr = true -> no_use_after_release tr.
Proof.
  intros Hok a m b o c -> Hu. apply ledger_ok_run in Hok as [hf Hrun].
  apply run_app_some in Hrun as (ha & _ & Hrun).
  apply run_cons_some in Hrun as (h1 & Hrel & Hrun).
  apply run_app_some in Hrun as (hb & Hb & Hrun).
  apply run_cons_some in Hrun as (h2 & Ho & _).
  destruct (exists_reissue_dec m b) as [He|Hne]; [exact He|exfalso].
  pose proof (dead_stays _ _ _ _ (step_release_dead _ _ _ Hrel) Hb Hne) as Hd.
  rewrite (step_uses_live _ _ _ _ Ho Hu) in Hd. discriminate.
Qed.

Lemma sound_double_release tr : ledger_ok tr = true -> no_double_release tr.
Proof.
  intros Hok a m b c E. apply (sound_use_after_release tr Hok a m b (MRelease m) c E).
  unfold uses, names. cbn. rewrite N.eqb_refl. reflexivity.
Qed.

Lemma sound_nonneg tr : ledger_ok tr = true -> refcount_never_negative tr.
Proof.
  intros Hok a c m ->. apply ledger_ok_run in Hok as [hf Hrun].
  apply run_app_some in Hrun as (ha & Ha & _). rewrite <- (run_refcount _ _ m Ha). lia.
Qed.

Lemma sound_release_at_zero tr : ledger_ok tr = true -> release_exactly_at_zero tr.
Proof.
  intro Hok. apply ledger_ok_run in Hok as [hf Hrun]. split.
  - intros a m c ->. apply run_app_some in Hrun as (ha & Ha & Hrun).
    apply run_cons_some in Hrun as (h1 & Hs & _). rewrite <- (run_refcount _ _ m Ha).
    stepinv Hs. lia.
  - intros a m b o c -> Hone Hn Hb.
    apply run_app_some in Hrun as (ha & Ha & Hrun).
    apply run_cons_some in Hrun as (h1 & Hs & Hrun).
    apply run_app_some in Hrun as (hb & Hrb & Hrun).
    apply run_cons_some in Hrun as (h2 & Ho & _).
    rewrite <- (run_refcount _ _ m Ha) in Hone.
    assert (Hc : hget h1 m = owned 0).
    { stepinv Hs. rewrite hget_hset_same. unfold owned. f_equal. lia. }
    apply (zero_blocks hb o h2 m); [|exact Ho|exact Hn].
    rewrite (run_frame _ _ _ m Hrb Hb). exact Hc.
Qed.

Lemma sound_exclusive tr : ledger_ok tr = true -> exclusive_handout tr.
Proof.
  intros Hok a m c ->. apply ledger_ok_run in Hok as [hf Hrun].
  apply run_app_some in Hrun as (ha & Ha & Hrun).
  apply run_cons_some in Hrun as (h1 & Hs & Hrun). split.
  - rewrite <- (run_refcount _ _ m Ha). stepinv Hs. lia.
  - intros b o c' -> Hn Hb.
    apply run_app_some in Hrun as (hb & Hrb & Hrun).
    apply run_cons_some in Hrun as (h2 & Ho & _).
    assert (Hc : hget h1 m = {| rc := 1; live := true; out := true |}) by (stepinv Hs; apply hget_hset_same).
    apply (out_blocks hb o h2 m); try exact Ho; try exact Hn; rewrite (run_frame _ _ _ m Hrb Hb), Hc; reflexivity.
Qed.

Lemma sound_new_fresh tr : ledger_ok tr = true -> new_is_fresh tr.
Proof.
  intros Hok a m sz cap bl hl c ->. apply ledger_ok_run in Hok as [hf Hrun].
  apply run_app_some in Hrun as (ha & Ha & Hrun).
  apply run_cons_some in Hrun as (h1 & Hs & _).
  cbn [step] in Hs. destruct (_ && _) eqn:E in Hs; [|discriminate].
  repeat split; try lia.
  intros a1 o a2 -> Hn Hq.
  apply run_app_some in Ha as (h0 & _ & Ha).
  apply run_cons_some in Ha as (h2 & Ho & Ha2).
  apply (step_to_dead _ _ _ _ Ho Hn). rewrite <- (run_frame _ _ _ m Ha2 Hq). lia.
Qed.

Lemma sound_failed_send tr : ledger_ok tr = true -> failed_send_keeps tr.
Proof.
  intros Hok a m c E. split.
  - subst tr. apply ledger_ok_run in Hok as [hf Hrun].
    apply run_app_some in Hrun as (ha & Ha & Hrun).
    apply run_cons_some in Hrun as (h1 & Hs & _). rewrite <- (run_refcount _ _ m Ha).
    stepinv Hs. lia.
  - intros a1 a2 ->. rewrite <- app_assoc in E. cbn [app] in E.
    apply (sound_use_after_release tr Hok a1 m a2 (MSendErr m) c E).
    unfold uses, names. cbn. rewrite N.eqb_refl. reflexivity.
Qed.

Theorem ledger_sound_all tr : ledger_ok tr = true ->
  no_double_release tr /\ no_use_after_release tr /\ exclusive_handout tr /\
  refcount_never_negative tr /\ release_exactly_at_zero tr /\ new_is_fresh tr /\ failed_send_keeps tr.
Proof.
  intro H.
  split; [apply sound_double_release; exact H|]. split; [apply sound_use_after_release; exact H|].
  split; [apply sound_exclusive; exact H|]. split; [apply sound_nonneg; exact H|].
  split; [apply sound_release_at_zero; exact H|]. split; [apply sound_new_fresh; exact H|apply sound_failed_send; exact H].
Qed.

Lemma ledger_bad_nil tr : ledger_bad tr = [] <-> ledger_ok tr = true.
Proof. unfold ledger_bad. rewrite ledger_bad_from_nil, ledger_ok_run. reflexivity. Qed.

(* ------------------------------------------------------------------ fan-out ---- *)
Lemma step_clone h m n : hget h m = owned n -> 1 <= n -> step h (MClone m) = Some (hset h m (owned (n + 1))).
Proof. intros Hc Hn. cbn [step]. rewrite Hc. unfold usable. cbn. replace (1 <=? n) with true by lia. reflexivity. Qed.
Lemma step_free h m n : hget h m = owned n -> 1 <= n -> step h (MFree m) = Some (hset h m (owned (n - 1))).
Proof. intros Hc Hn. cbn [step]. rewrite Hc. unfold usable. cbn. replace (1 <=? n) with true by lia. reflexivity. Qed.
Lemma step_release h m : hget h m = owned 0 -> step h (MRelease m) = Some (hset h m dead).
Proof. intros Hc. cbn [step]. rewrite Hc. reflexivity. Qed.
Lemma step_new h m sz cap : live (hget h m) = false -> sz <= cap -> step h (MNew m sz cap 0 0) = Some (hset h m (owned 1)).
Proof. intros Hc Hs. cbn [step]. rewrite Hc. replace (sz <=? cap) with true by lia. reflexivity. Qed.

Lemma queued_cons f r : queued (f :: r) = (if f then 0 else 1) + queued r.
Proof. unfold queued. cbn [filter]. destruct f; cbn [negb length]; lia. Qed.

(* the loop: accepted from any count n >= 1, ends with n + queued *)
Lemma fanout_loop_run m full : forall h n, hget h m = owned n -> 1 <= n ->
  exists h', run h (fanout_loop m full) = Some h' /\ hget h' m = owned (n + queued full).
Proof.
  induction full as [|f r IH]; intros h n Hc Hn.
  - exists h. split; [reflexivity|]. rewrite Hc. unfold queued. cbn. f_equal. lia.
  - cbn [fanout_loop run]. rewrite (step_clone _ _ _ Hc Hn).
    set (h1 := hset h m (owned (n + 1))).
    assert (Hc1 : hget h1 m = owned (n + 1)) by apply hget_hset_same.
    rewrite queued_cons. destruct f; cbn [app run].
    + rewrite (step_free _ _ _ Hc1) by lia.
      destruct (IH (hset h1 m (owned (n + 1 - 1))) n) as (h' & Hr & Hg); [rewrite hget_hset_same; f_equal; lia|exact Hn|].
      exists h'. split; [exact Hr|]. rewrite Hg. f_equal.
    + destruct (IH h1 (n + 1) Hc1) as (h' & Hr & Hg); [lia|].
      exists h'. split; [exact Hr|]. rewrite Hg. f_equal. lia.
Qed.

(* every proper prefix of the send path is accepted and leaves the count at one or more *)
Lemma fanout_prefix_pos m full : forall h n pre suf, hget h m = owned n -> 1 <= n ->
  fanout_send m full = pre ++ suf -> suf <> [] ->
  exists hp k, run h pre = Some hp /\ hget hp m = owned k /\ 1 <= k.
Proof.
  unfold fanout_send. induction full as [|f r IH]; intros h n pre suf Hc Hn E Hs.
  - destruct pre as [|o pre].
    + exists h, n. auto.
    + cbn in E. inversion E as [[E1 E2]]. destruct pre; [|discriminate]. cbn in E2. subst suf. contradiction.
  - destruct pre as [|o pre]; [exists h, n; auto|].
    cbn [fanout_loop app] in E. inversion E as [[E1 E2]]. subst o. cbn [run]. rewrite (step_clone _ _ _ Hc Hn).
    set (h1 := hset h m (owned (n + 1))) in *.
    assert (Hc1 : hget h1 m = owned (n + 1)) by apply hget_hset_same.
    destruct f; cbn [app] in E2.
    + destruct pre as [|o pre]; [exists h1, (n + 1); repeat split; [exact Hc1|lia]|].
      inversion E2 as [[E3 E4]]. subst o. cbn [run]. rewrite (step_free _ _ _ Hc1) by lia.
      apply (IH _ n pre suf); [rewrite hget_hset_same; f_equal; lia|exact Hn|exact E4|exact Hs].
    + apply (IH h1 (n + 1) pre suf Hc1); [lia|exact E2|exact Hs].
Qed.

Lemma fanout_send_run m full h n : hget h m = owned n -> 1 <= n ->
  exists h', run h (fanout_send m full) = Some h' /\ hget h' m = owned (n - 1 + queued full).
Proof.
  intros Hc Hn. unfold fanout_send. rewrite run_app.
  destruct (fanout_loop_run m full h n Hc Hn) as (h1 & -> & Hg). cbn [run].
  rewrite (step_free _ _ _ Hg) by lia. eexists. split; [reflexivity|]. rewrite hget_hset_same. f_equal. lia.
Qed.

Lemma run_frees h m : forall k n, hget h m = owned n -> N.of_nat k <= n ->
  exists h', run h (repeat (MFree m) k) = Some h' /\ hget h' m = owned (n - N.of_nat k).
Proof.
  intro k; revert h; induction k as [|k IH]; intros h n Hc Hk.
  - exists h. split; [reflexivity|]. rewrite Hc. f_equal. lia.
  - cbn [repeat run]. rewrite (step_free _ _ _ Hc) by lia.
    destruct (IH (hset h m (owned (n - 1))) (n - 1)) as (h' & Hr & Hg); [apply hget_hset_same|lia|].
    exists h'. split; [exact Hr|]. rewrite Hg. f_equal. lia.
Qed.

(* for ALL numbers of pipes and ALL full/non-full patterns *)
Theorem fanout_balanced_thm m full h : hget h m = owned 1 ->
  (* accepted, and at the end the count is the number of queued copies (the object is still allocated) *)
  (exists h', run h (fanout_send m full) = Some h' /\ hget h' m = owned (queued full)) /\
  (* never at zero before the end: after every proper prefix at least one reference is left *)
  (forall pre suf, fanout_send m full = pre ++ suf -> suf <> [] ->
     exists hp k, run h pre = Some hp /\ hget hp m = owned k /\ 1 <= k) /\
  (* so only a publication nobody queued is released by the sender itself, and then exactly once, at the end *)
  (queued full = 0 -> exists h', run h (fanout_send m full ++ [MRelease m]) = Some h' /\ hget h' m = dead).
Proof.
  intro Hc. destruct (fanout_send_run m full h 1 Hc ltac:(lia)) as (h' & Hr & Hg).
  replace (1 - 1 + queued full) with (queued full) in Hg by lia.
  split; [eauto|]. split.
  - intros pre suf E Hs. apply (fanout_prefix_pos m full h 1 pre suf Hc); [lia|exact E|exact Hs].
  - intro Hq. rewrite run_app, Hr. cbn [run]. rewrite Hq in Hg. rewrite (step_release _ _ Hg).
    eexists. split; [reflexivity|apply hget_hset_same].
Qed.

Theorem fanout_life_ok m sz cap full : sz <= cap -> ledger_ok (fanout_life m sz cap full) = true.
Proof.
  intro Hs. apply ledger_ok_run. unfold fanout_life. cbn [run].
  rewrite (step_new hempty m sz cap) by (rewrite ?hget_empty; auto).
  set (h0 := hset hempty m (owned 1)).
  destruct (fanout_send_run m full h0 1 (hget_hset_same _ _ _) ltac:(lia)) as (h1 & Hr & Hg).
  rewrite run_app, Hr.
  destruct (run_frees h1 m (N.to_nat (queued full)) _ Hg ltac:(lia)) as (h2 & Hr2 & Hg2).
  rewrite run_app, Hr2. cbn [run]. rewrite step_release; [eauto|]. rewrite Hg2. f_equal. lia.
Qed.

(* all interleavings of the loop with the pipes' senders *)
Lemma fanout_il_run m sched : forall outst h ops o', hget h m = owned (1 + N.of_nat outst) ->
  fanout_il m outst sched = (ops, o') ->
  exists h', run h ops = Some h' /\ hget h' m = owned (1 + N.of_nat o').
Proof.
  induction sched as [|[full k] r IH]; intros outst h ops o' Hc E; cbn [fanout_il] in E.
  - inversion E; subst. exists h. auto.
  - set (o1 := if full then outst else S outst) in *.
    set (k' := Nat.min k o1) in *.
    destruct (fanout_il m (o1 - k') r) as [ops1 o2] eqn:E1. inversion E; subst ops o'. clear E.
    cbn [run]. rewrite (step_clone _ _ _ Hc) by lia.
    set (h1 := hset h m (owned (1 + N.of_nat outst + 1))).
    assert (Hc1 : hget h1 m = owned (1 + N.of_nat outst + 1)) by apply hget_hset_same.
    assert (exists h2, run h1 (if full then [MFree m] else []) = Some h2 /\ hget h2 m = owned (1 + N.of_nat o1)) as (h2 & Hr2 & Hg2).
    { subst o1. destruct full; cbn [run].
      - rewrite (step_free _ _ _ Hc1) by lia. eexists. split; [reflexivity|]. rewrite hget_hset_same. f_equal. lia.
      - exists h1. split; [reflexivity|]. rewrite Hc1. f_equal. lia. }
    rewrite run_app, Hr2.
    destruct (run_frees h2 m k' _ Hg2) as (h3 & Hr3 & Hg3); [subst k'; lia|].
    rewrite run_app, Hr3.
    apply (IH (o1 - k')%nat h3 ops1 o2); [|exact E1]. rewrite Hg3. f_equal. subst k'. lia.
Qed.

Theorem fanout_any_ok m sz cap sched : sz <= cap -> ledger_ok (fanout_any m sz cap sched) = true.
Proof.
  intro Hs. apply ledger_ok_run. unfold fanout_any.
  destruct (fanout_il m 0 sched) as [ops o] eqn:E. cbn [run].
  rewrite (step_new hempty m sz cap) by (rewrite ?hget_empty; auto).
  set (h0 := hset hempty m (owned 1)).
  destruct (fanout_il_run m sched 0%nat h0 ops o) as (h1 & Hr & Hg); [apply hget_hset_same|exact E|].
  rewrite run_app, Hr. cbn [app run]. rewrite (step_free _ _ _ Hg) by lia.
  set (h2 := hset h1 m _).
  destruct (run_frees h2 m o (N.of_nat o)) as (h3 & Hr3 & Hg3); [unfold h2; rewrite hget_hset_same; f_equal; lia|lia|].
  rewrite run_app, Hr3. cbn [run]. rewrite step_release; [eauto|]. rewrite Hg3. f_equal. lia.
Qed.

(* ------------------------------------------------------------------ REQ ---- *)
Lemma req_txs_run m n : forall h c, hget h m = owned c -> 1 <= c ->
  exists h', run h (req_txs m n) = Some h' /\ hget h' m = owned c.
Proof.
  induction n as [|n IH]; intros h c Hc Hn; [exists h; auto|].
  cbn [req_txs run]. rewrite (step_clone _ _ _ Hc Hn).
  rewrite (step_free _ m (c + 1)) by (try apply hget_hset_same; lia).
  apply IH; [|exact Hn]. rewrite hget_hset_same. f_equal. lia.
Qed.

(* any number of (re)transmissions, the last one possibly still in flight when the request is dropped: the
   request is released exactly once, after its last holder let go, and never while a transmission holds it *)
Theorem req_retain_balanced m sz cap ntx late : sz <= cap -> ledger_ok (req_life m sz cap ntx late) = true.
Proof.
  intro Hs. apply ledger_ok_run. unfold req_life. cbn [run].
  rewrite (step_new hempty m sz cap) by (rewrite ?hget_empty; auto).
  destruct (req_txs_run m ntx (hset hempty m (owned 1)) 1 (hget_hset_same _ _ _) ltac:(lia)) as (h1 & Hr & Hg).
  rewrite run_app, Hr. destruct late; cbn [app run].
  - rewrite (step_clone _ _ _ Hg) by lia.
    rewrite (step_free _ m 2) by (try apply hget_hset_same; lia).
    rewrite (step_free _ m 1) by (try apply hget_hset_same; lia).
    rewrite step_release by apply hget_hset_same. eauto.
  - rewrite (step_free _ _ _ Hg) by lia. rewrite step_release by apply hget_hset_same. eauto.
Qed.

(* ------------------------------------------------------------------ send outcomes ---- *)
(* whatever the failing outcome, the caller still holds a usable message (and may free it: exactly one release) *)
Theorem send_error_keeps_thm m o h n : hget h m = owned n -> 1 <= n -> send_is_error o = true ->
  send_ops m o = [] /\ step h (MSendErr m) = Some h /\
  exists h', run h (send_ops m o ++ [MSendErr m]) = Some h' /\ hget h' m = owned n.
Proof.
  intros Hc Hn He.
  assert (Hs : step h (MSendErr m) = Some h) by (cbn [step]; rewrite Hc; unfold usable; cbn; replace (1 <=? n) with true by lia; reflexivity).
  destruct o; try discriminate; cbn [send_ops app run]; rewrite Hs; eauto.
Qed.

Theorem send_call_ok m sz cap o : sz <= cap -> ledger_ok (MNew m sz cap 0 0 :: send_call m o) = true.
Proof. intro Hs. unfold ledger_ok. cbn [run]. rewrite (step_new hempty m sz cap) by (rewrite ?hget_empty; auto).
  destruct o; cbn [send_call send_ops send_is_error app run];
    repeat first [rewrite (step_free _ m 1) by (try apply hget_hset_same; lia)
                 | rewrite step_release by (rewrite hget_hset_same; reflexivity)
                 | (cbn [step]; rewrite hget_hset_same; cbn) ]; reflexivity.
Qed.

Theorem fanout_call_closed_keeps m full h n : hget h m = owned n -> 1 <= n ->
  exists h', run h (fanout_call m true full) = Some h' /\ hget h' m = owned n.
Proof. intros Hc Hn. cbn [fanout_call run step]. rewrite Hc. unfold usable. cbn. replace (1 <=? n) with true by lia. eauto. Qed.

(* ------------------------------------------------------------------ NewMessage ---- *)
Theorem new_message_fresh_thm p sz h m : pool_ok p = true -> live (hget h m) = false ->
  let cap := new_message_cap p sz in
  sz <= cap /\ exists h', step h (MNew m sz cap 0 0) = Some h' /\ hget h' m = owned 1 /\
  (forall x, x <> m -> hget h' x = hget h x).
Proof.
  intros Hp Hd cap. pose proof (new_message_cap_ge p sz Hp) as Hge. split; [exact Hge|].
  rewrite (step_new h m sz cap Hd Hge). eexists. split; [reflexivity|]. split; [apply hget_hset_same|].
  intros x Hx. apply hget_hset_other. exact Hx.
Qed.

(* and an object that is still owned is never issued again *)
Theorem new_refuses_owned h m sz cap bl hl : live (hget h m) = true -> step h (MNew m sz cap bl hl) = None.
Proof. intro H. cbn [step]. rewrite H. reflexivity. Qed.

(* ------------------------------------------------------------------ SUB ---- *)
Definition handed : cell := {| rc := 1; live := true; out := true |}.

Lemma step_handout h m : hget h m = owned 1 -> step h (MHandOut m) = Some (hset h m handed).
Proof. intro Hc. cbn [step]. rewrite Hc. reflexivity. Qed.
Lemma step_unique h m n : hget h m = owned n -> 1 <= n -> step h (MUnique m) = Some h.
Proof. intros Hc Hn. cbn [step]. rewrite Hc. unfold usable. cbn. replace (1 <=? n) with true by lia. reflexivity. Qed.
Lemma step_appfree h m : hget h m = handed -> step h (MAppFree m) = Some (hset h m (owned 1)).
Proof. intro Hc. cbn [step]. rewrite Hc. reflexivity. Qed.

Lemma run_clones h m : forall k n, hget h m = owned n -> 1 <= n ->
  exists h', run h (repeat (MClone m) k) = Some h' /\ hget h' m = owned (n + N.of_nat k) /\ (forall x, x <> m -> hget h' x = hget h x).
Proof.
  intro k; revert h; induction k as [|k IH]; intros h n Hc Hn.
  - exists h. split; [reflexivity|]. split; [rewrite Hc; f_equal; lia|auto].
  - cbn [repeat run]. rewrite (step_clone _ _ _ Hc Hn).
    destruct (IH (hset h m (owned (n + 1))) (n + 1)) as (h' & Hr & Hg & Hf); [apply hget_hset_same|lia|].
    exists h'. split; [exact Hr|]. split; [rewrite Hg; f_equal; lia|].
    intros x Hx. rewrite (Hf x Hx). apply hget_hset_other. exact Hx.
Qed.

(* the contexts' MakeUnique calls, in order: every context ends up with a message of its own *)
Lemma sub_recvs_run sz cap : sz <= cap -> forall cnt h next, 1 <= next ->
  hget h 0 = owned (N.of_nat (S cnt)) ->
  (forall d, next <= d -> live (hget h d) = false) ->
  (forall d, 1 <= d < next -> hget h d = handed) ->
  exists h', run h (sub_recvs 0 (S cnt) next sz cap) = Some h' /\ hget h' 0 = handed /\
    (forall d, 1 <= d < next + N.of_nat cnt -> hget h' d = handed).
Proof.
  intro Hs. induction cnt as [|cnt IH]; intros h next Hn H0 Hdead Hout.
  - cbn [sub_recvs run]. rewrite (step_handout _ _ H0). eexists. split; [reflexivity|].
    split; [apply hget_hset_same|]. intros d Hd. rewrite hget_hset_other by lia. apply Hout. lia.
  - cbn [sub_recvs app run].
    rewrite (step_new h next sz cap) by (try apply Hdead; lia).
    set (h1 := hset h next (owned 1)).
    assert (H01 : hget h1 0 = owned (N.of_nat (S (S cnt)))) by (unfold h1; rewrite hget_hset_other by lia; exact H0).
    rewrite (step_unique _ _ _ H01) by lia.
    rewrite (step_free _ _ _ H01) by lia.
    set (h2 := hset h1 0 _).
    assert (Hn2 : hget h2 next = owned 1) by (unfold h2, h1; rewrite hget_hset_other by lia; apply hget_hset_same).
    rewrite (step_handout _ _ Hn2).
    set (h3 := hset h2 next handed).
    destruct (IH h3 (next + 1)) as (h' & Hr & Hg0 & Hgd).
    + lia.
    + unfold h3, h2. rewrite hget_hset_other by lia. rewrite hget_hset_same. f_equal. lia.
    + intros d Hd. unfold h3, h2, h1. rewrite !hget_hset_other by lia. apply Hdead. lia.
    + intros d Hd. unfold h3. destruct (N.eq_dec d next) as [->|Hne]; [apply hget_hset_same|].
      unfold h2, h1. rewrite !hget_hset_other by lia. apply Hout. lia.
    + exists h'. split; [exact Hr|]. split; [exact Hg0|]. intros d Hd. apply Hgd. lia.
Qed.

Lemma app_done_run : forall l h, NoDup l -> (forall d, In d l -> hget h d = handed) ->
  exists h', run h (flat_map app_done l) = Some h'.
Proof.
  induction l as [|d l IH]; intros h Hnd Hh; [exists h; reflexivity|].
  inversion Hnd as [|? ? Hnotin Hnd']; subst.
  cbn [flat_map app_done app run].
  rewrite (step_appfree h d) by (apply Hh; left; reflexivity).
  rewrite (step_free _ d 1) by (try apply hget_hset_same; lia).
  rewrite step_release by (rewrite hget_hset_same; reflexivity).
  apply IH; [exact Hnd'|]. intros x Hx.
  assert (x <> d) by (intro; subst; contradiction).
  rewrite !hget_hset_other by assumption. apply Hh. right. exact Hx.
Qed.

(* SUB, for ALL patterns of matching contexts: every matching context is handed a message nobody else holds
   (the shared one only to the last), and after the applications' frees everything has been released once *)
Theorem sub_exclusive_thm matches sz cap : sz <= cap -> ledger_ok (sub_trace matches sz cap) = true.
Proof.
  intro Hs. apply ledger_ok_run. unfold sub_trace.
  set (k := length (filter (fun b : bool => b) matches)). cbn [run].
  rewrite (step_new hempty 0 sz cap) by (rewrite ?hget_empty; auto).
  set (h0 := hset hempty 0 (owned 1)).
  destruct (run_clones h0 0 k 1 (hget_hset_same _ _ _) ltac:(lia)) as (h1 & Hr1 & Hg1 & Hf1).
  rewrite run_app, Hr1. cbn [app run]. rewrite (step_free _ _ _ Hg1) by lia.
  set (h2 := hset h1 0 _).
  assert (Hg2 : hget h2 0 = owned (N.of_nat k)) by (unfold h2; rewrite hget_hset_same; f_equal; lia).
  destruct k as [|k'].
  - cbn [run]. rewrite step_release by exact Hg2. eauto.
  - destruct (sub_recvs_run sz cap Hs k' h2 1 ltac:(lia) Hg2) as (h3 & Hr3 & Hg30 & Hg3d).
    + intros d Hd. unfold h2. rewrite hget_hset_other by lia. rewrite Hf1 by lia. unfold h0.
      rewrite hget_hset_other by lia. rewrite hget_empty. reflexivity.
    + intros d Hd. lia.
    + rewrite run_app, Hr3. apply app_done_run.
      * apply FinFun.Injective_map_NoDup; [intros a b Hab; lia|apply seq_NoDup].
      * intros d Hd. apply in_map_iff in Hd as (i & <- & Hi). apply in_seq in Hi.
        destruct i as [|i]; [exact Hg30|]. apply Hg3d. lia.
Qed.
