From Coq Require Import Arith Lia.
From MV Require Import Model.RaceCfg.
From MV Require Import Model.LockOrder Proofs.SplitCsSound.
Open Scope N_scope.

Lemma emem_in e l : emem e l = true <-> In e l.
Proof.
  unfold emem. rewrite existsb_exists. split.
  - intros (x & Hx & E). apply andb_true_iff in E. destruct E as [E1 E2]. apply N.eqb_eq in E1, E2.
    destruct x as [x1 x2], e as [e1 e2]. cbn in *. subst. exact Hx.
  - intro H. exists e. split; [exact H|]. rewrite !N.eqb_refl. reflexivity.
Qed.

Lemma eadd_keeps e x l : In e l -> In e (eadd x l).
Proof. unfold eadd. destruct (emem x l); [auto|right; assumption]. Qed.
Lemma eadd_has x l : In x (eadd x l).
Proof. unfold eadd. destruct (emem x l) eqn:E; [apply emem_in, E|left; reflexivity]. Qed.

Lemma inner_keeps ab base : forall acc e, In e acc ->
  In e (fold_left (fun acc bc => if snd ab =? fst bc then eadd (fst ab, snd bc) acc else acc) base acc).
Proof.
  induction base as [|bc base IH]; intros acc e H; cbn; [exact H|].
  apply IH. destruct (snd ab =? fst bc); [apply eadd_keeps, H|exact H].
Qed.
Lemma inner_adds ab bc base : In bc base -> snd ab = fst bc -> forall acc,
  In (fst ab, snd bc) (fold_left (fun acc bc => if snd ab =? fst bc then eadd (fst ab, snd bc) acc else acc) base acc).
Proof.
  induction base as [|x base IH]; intros Hin E acc; [destruct Hin|]. cbn. destruct Hin as [Hx|Hin].
  - subst x. destruct (snd ab =? fst bc) eqn:Q; [apply inner_keeps; apply eadd_has|apply N.eqb_neq in Q; contradiction].
  - apply IH; assumption.
Qed.

Lemma outer_keeps base : forall cur acc e, In e acc ->
  In e (fold_left (fun acc ab => fold_left (fun acc bc => if snd ab =? fst bc then eadd (fst ab, snd bc) acc else acc) base acc) cur acc).
Proof.
  intros cur. induction cur as [|ab cur IH]; intros acc e H; cbn; [exact H|]. apply IH. apply inner_keeps. exact H.
Qed.
Lemma outer_adds base ab bc : In bc base -> snd ab = fst bc -> forall cur acc, In ab cur ->
  In (fst ab, snd bc) (fold_left (fun acc ab => fold_left (fun acc bc => if snd ab =? fst bc then eadd (fst ab, snd bc) acc else acc) base acc) cur acc).
Proof.
  intros Hbc E cur. induction cur as [|x cur IH]; intros acc Hin; [destruct Hin|]. cbn. destruct Hin as [Hx|Hin].
  - subst x. apply outer_keeps. apply inner_adds; assumption.
  - apply IH. exact Hin.
Qed.

Lemma close_step_keeps base cur e : In e cur -> In e (close_step base cur).
Proof. intro H. unfold close_step. apply outer_keeps. exact H. Qed.
Lemma close_step_adds base cur a b c : In (a, b) cur -> In (b, c) base -> In (a, c) (close_step base cur).
Proof. intros H1 H2. unfold close_step. apply (outer_adds base (a, b) (b, c) H2 eq_refl cur cur H1). Qed.

Lemma riter_succ {X} n (g : X -> X) x : riter (S n) g x = g (riter n g x).
Proof. revert x. induction n as [|n IH]; intro x; [reflexivity|]. change (riter (S (S n)) g x) with (riter (S n) g (g x)). rewrite IH. reflexivity. Qed.

Lemma closure_keeps fuel E e : In e E -> In e (closure fuel E).
Proof.
  unfold closure. induction fuel as [|n IH]; intro H; [exact H|]. rewrite riter_succ. apply close_step_keeps. apply IH. exact H.
Qed.
Lemma closure_mono fuel E e : In e (closure fuel E) -> In e (closure (S fuel) E).
Proof. unfold closure. intro H. rewrite riter_succ. apply close_step_keeps. exact H. Qed.

(* a walk of n >= 1 edges from a to b *)
Inductive walk (E : list (N * N)) : N -> N -> nat -> Prop :=
| walk1 a b : In (a, b) E -> walk E a b 1
| walkS a b c n : walk E a b n -> In (b, c) E -> walk E a c (S n).

Lemma closure_walk E : forall n a b, walk E a b n -> forall fuel, (n <= S fuel)%nat -> In (a, b) (closure fuel E).
Proof.
  intros n a b W. induction W as [a b H|a b c n W IH H]; intros fuel Hn.
  - apply closure_keeps. exact H.
  - destruct fuel as [|fuel]; [inversion W; subst; lia|].
    unfold closure. rewrite riter_succ. apply (close_step_adds E _ a b c); [|exact H]. apply IH. lia.
Qed.

(* what the check guarantees: no cycle of at most ncl+1 nested acquisitions among distinct classes (a simple cycle
   over ncl classes has at most ncl edges) *)
Theorem order_ok_no_cycle ncl edges : order_ok ncl edges = true ->
  forall a n, walk (strict_edges edges) a a n -> (n <= S ncl)%nat -> False.
Proof.
  unfold order_ok, cycles. intros H a n W Hn.
  pose proof (closure_walk _ n a a W ncl Hn) as Hin.
  assert (Hf : In (a, a) (filter (fun e => fst e =? snd e) (closure ncl (strict_edges edges)))).
  { apply filter_In. split; [exact Hin|]. cbn. apply N.eqb_refl. }
  destruct (filter (fun e => fst e =? snd e) (closure ncl (strict_edges edges))); [destruct Hf|discriminate].
Qed.

(* ---- the acquisition table ---- *)
Inductive calls (prog : list rfunc) : N -> N -> Prop :=
| calls_refl g : calls prog g g
| calls_step g f h k : nth_error prog (N.to_nat g) = Some f -> In h (callees f) -> calls prog h k -> calls prog g k.

Theorem acq_closed_sound prog A : acq_closed prog A = true ->
  forall g k, calls prog g k -> forall fk c, nth_error prog (N.to_nat k) = Some fk -> cmem c (direct_acq fk) = true ->
  cmem c (nth (N.to_nat g) A []) = true.
Proof.
  unfold acq_closed. intro H. apply andb_true_iff in H. destruct H as [_ H]. rewrite forallb_forall in H.
  assert (Hf : forall i f, nth_error prog i = Some f ->
            sub (direct_acq f) (nth i A []) /\ forall g, In g (callees f) -> sub (nth (N.to_nat g) A []) (nth i A [])).
  { intros i f Hi. specialize (H (i, f) (in_combine_seq prog i f 0%nat Hi)). cbn in H. apply andb_true_iff in H. destruct H as [H1 H2].
    split; [apply csub_sub, H1|]. intros g Hg. rewrite forallb_forall in H2. apply csub_sub, H2, Hg. }
  intros g k Hc. induction Hc as [g|g f h k Hg Hh Hc IH]; intros fk c Hk Hcm.
  - destruct (Hf _ _ Hk) as [H1 _]. apply H1. exact Hcm.
  - destruct (Hf _ _ Hg) as [_ H2]. apply (H2 h Hh). apply (IH fk c Hk Hcm).
Qed.

(* ---- what acyclicity means for goroutines waiting for each other ---- *)
(* a chain of nested acquisitions: each pair is (class held, class being acquired); consecutive pairs link up *)
Fixpoint chained (first : N) (l : list (N * N)) : option N :=   (* where the chain ends, starting at [first] *)
  match l with
  | [] => Some first
  | (h, w) :: r => if h =? first then chained w r else None
  end.

Lemma chained_snoc : forall l a h w, chained a (l ++ [(h, w)]) = match chained a l with Some m => if h =? m then Some w else None | None => None end.
Proof.
  induction l as [|[h1 w1] l IH]; intros a h w; cbn.
  - destruct (h =? a); reflexivity.
  - destruct (h1 =? a); [apply IH|reflexivity].
Qed.

Lemma chain_walk E : forall l a b, l <> [] -> (forall e, In e l -> In e E) -> chained a l = Some b -> walk E a b (length l).
Proof.
  induction l as [|[h w] r IH] using rev_ind; intros a b Hne Hin Hch; [congruence|].
  rewrite chained_snoc in Hch. destruct (chained a r) as [m|] eqn:Hm; [|discriminate].
  destruct (h =? m) eqn:Q; [|discriminate]. apply N.eqb_eq in Q. subst h. inversion Hch; subst w.
  rewrite app_length. cbn [length]. rewrite Nat.add_1_r.
  destruct r as [|x r'].
  - cbn in Hm. inversion Hm; subst m. cbn. apply walk1. apply Hin. left. reflexivity.
  - apply walkS with (b := m).
    + apply IH; [discriminate| |exact Hm]. intros e He. apply Hin. apply in_or_app. left. exact He.
    + apply Hin. apply in_or_app. right. left. reflexivity.
Qed.

(* what the lock-order check means for waiting goroutines: suppose goroutines g1 .. gk each hold a mutex of class h_i and
   are blocked acquiring one of class w_i -- a nested acquisition, so (h_i, w_i) is one of the program's order edges -- and
   the one g_i waits for is held by g_(i+1), the last one's by g1.  With order_ok there is no such circle of at most
   ncl + 1 goroutines. *)
Theorem no_wait_circle ncl edges : order_ok ncl edges = true ->
  forall (waits : list (N * N)) a, waits <> [] -> (length waits <= S ncl)%nat ->
  (forall e, In e waits -> In e (strict_edges edges)) -> chained a waits = Some a -> False.
Proof.
  intros H waits a Hne Hlen Hin Hch.
  apply (order_ok_no_cycle ncl edges H a (length waits)); [|exact Hlen].
  apply chain_walk; assumption.
Qed.
