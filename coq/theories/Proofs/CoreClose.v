(* C14 / C10 over EVERY history of stimuli on the model of the repaired core: once a dialer (or the socket) has been
   closed, no step ever starts a connection attempt for it again -- whatever timers are still pending, whatever
   pipes come and go.  (The trace oracle c14_oracle, which the correspondence check applies to the implementation's
   traces, accepts every trace of the model.) *)
From MV Require Import Model.Core Model.CoreOracle.
From Coq Require Import Lia.
Open Scope N_scope.

(* ---- replacing a dialer record ---- *)
Lemma get_put_d s y d :
  get_d (put_d s y) d = match get_d s d with Some x => if kd x =? kd y then Some y else Some x | None => None end.
Proof.
  unfold get_d, put_d. cbn [kset_dialers kdialers].
  induction (kdialers s) as [|z l IH]; cbn [map find]; [reflexivity|].
  destruct (N.eqb_spec (kd z) (kd y)) as [Ezy|Ezy].
  - destruct (N.eqb_spec (kd y) d) as [Eyd|Eyd].
    + assert (Hz : kd z =? d = true) by (apply N.eqb_eq; congruence). rewrite Hz.
      destruct (N.eqb_spec (kd z) (kd y)); [reflexivity|contradiction].
    + assert (Hz : kd z =? d = false) by (apply N.eqb_neq; congruence). rewrite Hz. exact IH.
  - destruct (N.eqb_spec (kd z) d) as [Ezd|Ezd].
    + destruct (N.eqb_spec (kd z) (kd y)); [contradiction|reflexivity].
    + exact IH.
Qed.

Lemma get_d_kd s d x : get_d s d = Some x -> kd x = d.
Proof. unfold get_d. intro H. apply find_some in H as [_ H]. apply N.eqb_eq in H. exact H. Qed.

Section Closed.
Variable C : N -> Prop.     (* the dialers that were closed when the step began (all of them once the socket is closed) *)

Definition P (s : kstate) : Prop :=
  (forall d x, C d -> get_d s d = Some x -> kd_closed x = true) /\
  (forall d, C d -> ~ In (DialAttempt d) (kout s)).

Lemma P_frame s s' : kdialers s' = kdialers s -> kout s' = kout s -> P s -> P s'.
Proof. intros Hd Ho [A B]. split; intros d; unfold get_d; rewrite ?Hd, ?Ho; [apply A|apply B]. Qed.

Lemma P_emit s o : (forall d, o <> DialAttempt d) -> P s -> P (kemit s o).
Proof.
  intros Ho [A B]. split; [exact A|]. intros d Hc [H|H]; [exact (Ho d H)|exact (B d Hc H)].
Qed.

Lemma P_put_d s y : (forall x, get_d s (kd y) = Some x -> kd_closed x = true -> kd_closed y = true) -> P s -> P (put_d s y).
Proof.
  intros Hy [A B]. split; [|exact B].
  intros d x' Hc. rewrite get_put_d. destruct (get_d s d) as [x|] eqn:Ex; [|discriminate].
  destruct (N.eqb_spec (kd x) (kd y)) as [E|E]; intro H; injection H as <-.
  - apply (Hy x); [|exact (A d x Hc Ex)]. rewrite <- E, (get_d_kd s d x Ex). exact Ex.
  - exact (A d x Hc Ex).
Qed.

Lemma P_with_same s x lo hi pend : get_d s (kd x) = Some x -> P s -> P (put_d s (with_d x (kd_closed x) (kd_active x) lo hi pend)).
Proof.
  intros Hx HP. apply P_put_d; [|exact HP]. cbn [with_d kd kd_closed]. intros x' Hx' Hc. congruence.
Qed.

Lemma P_start_dial s d w : P s -> P (start_dial s d w).
Proof.
  intro HP. unfold start_dial. destruct (get_d s d) as [x|] eqn:Ex; [|exact HP].
  destruct (kd_closed x) eqn:Ec.
  - destruct w; [apply P_emit; [discriminate|exact HP]|exact HP].
  - assert (Hk : kd x = d) by (eapply get_d_kd; eauto).
    assert (Hnc : ~ C d). { intro Hc. destruct HP as [A _]. rewrite (A d x Hc Ex) in Ec. discriminate. }
    assert (HP1 : P (put_d s (with_d x false (kd_active x) (kd_lo x) (kd_hi x) (kd_pending x ++ [w])))).
    { apply P_put_d; [|exact HP]. cbn [with_d kd kd_closed]. rewrite Hk, Ex. intros x' [= <-] Hc. congruence. }
    destruct HP1 as [A B]. split; [exact A|].
    intros d' Hc [H|H]; [injection H as <-; exact (Hnc Hc)|exact (B d' Hc H)].
Qed.

Lemma P_pct s d : P s -> P (pipe_closed_timer s d).
Proof. intro HP. unfold pipe_closed_timer. destruct (get_d s d); [|exact HP]. apply (P_frame s); auto. Qed.

Lemma P_put_p s x : P s -> P (put_p s x).
Proof. apply P_frame; reflexivity. Qed.

Lemma P_pipe_close s p : P s -> P (pipe_close s p).
Proof.
  intro HP. unfold pipe_close. destruct (get_p s p) as [x|]; [|exact HP].
  destruct (ktclosed x); [exact HP|].
  set (s1 := put_p (kemit s (TClose p)) _).
  assert (H1 : P s1) by (apply P_put_p, P_emit; [discriminate|exact HP]).
  set (s2 := if kadded x then _ else s1).
  assert (H2 : P s2).
  { unfold s2. destruct (kadded x); [|exact H1]. apply P_emit; [discriminate|]. apply P_put_p, P_emit; [discriminate|exact H1]. }
  destruct (kowner x); [exact H2|apply P_pct, H2].
Qed.

Lemma P_add_pipe s p o : P s -> P (add_pipe true s p o).
Proof.
  intro HP. unfold add_pipe.
  set (s1 := kset_pipes s _).
  assert (H1 : P (kemit s1 (HAttaching p))) by (apply P_emit; [discriminate|]; apply (P_frame s); auto).
  set (s2 := if kpolicy _ =? 1 then _ else _).
  assert (H2 : P s2) by (unfold s2; destruct (kpolicy _ =? 1); [apply P_pipe_close|]; exact H1).
  destruct (get_p s2 p) as [x|]; [|exact H2].
  destruct (kclosing x); [apply P_put_p, H2|].
  destruct (krefuse s2 || ksclosed s2).
  - apply P_pipe_close, P_put_p, P_emit; [discriminate|exact H2].
  - set (s3 := put_p (kemit s2 (PAdd p true)) _).
    assert (H3 : P s3) by (apply P_put_p, P_emit; [discriminate|exact H2]).
    set (s4 := match o with OwnD d => _ | OwnL _ => s3 end).
    assert (H4 : P s4).
    { unfold s4. destruct o as [l|d]; [exact H3|]. destruct (get_d s3 d) as [dx|] eqn:Ed; [|exact H3].
      assert (Hk : kd dx = d) by (eapply get_d_kd; eauto).
      apply P_with_same; [rewrite Hk; exact Ed|exact H3]. }
    assert (H5 : P (kemit s4 (HAttached p))) by (apply P_emit; [discriminate|exact H4]).
    destruct (kpolicy _ =? 2); [apply P_pipe_close|]; exact H5.
Qed.

Lemma P_resolve s d r p : P s -> P (resolve true true s d r p).
Proof.
  intro HP. unfold resolve. destruct (get_d s d) as [x|] eqn:Ex; [|exact HP].
  assert (Hk : kd x = d) by (eapply get_d_kd; eauto).
  destruct (kd_pending x) as [|w rest]; [exact HP|].
  set (x1 := with_d x (kd_closed x) (kd_active x) (kd_lo x) (kd_hi x) rest).
  assert (H1 : P (put_d s x1)) by (apply P_with_same; [rewrite Hk; exact Ex|exact HP]).
  destruct r.
  - assert (H2 : P (add_pipe true (put_d s x1) p (OwnD d))) by (apply P_add_pipe, H1).
    destruct w; [apply P_emit; [discriminate|exact H2]|exact H2].
  - destruct w as [t|].
    + destruct (kd_asynch x1); [exact H1|].
      assert (H2 : P (kemit (put_d s x1) (KRet t KERefused))) by (apply P_emit; [discriminate|exact H1]).
      destruct (get_d (kemit (put_d s x1) (KRet t KERefused)) d) as [y|] eqn:Ey; [|exact H2].
      assert (Hky : kd y = d) by (eapply get_d_kd; eauto).
      apply P_put_d; [|exact H2]. cbn [with_d kd kd_closed]. rewrite Hky, Ey. intros x' [= <-] Hc. exact Hc.
    + destruct (if kd_max x1 =? 0 then _ else _) as [lo hi].
      set (s2 := kset_timers (put_d s x1) _).
      assert (H2 : P s2) by (apply (P_frame (put_d s x1)); auto).
      assert (Ex1 : get_d s2 d = Some x1).
      { change (get_d s2 d) with (get_d (put_d s x1) d). rewrite get_put_d, Ex. cbn [x1 with_d kd]. rewrite N.eqb_refl. reflexivity. }
      change (with_d x1 (kd_closed x1) (kd_active x1) lo hi rest) with (with_d x1 (kd_closed x1) (kd_active x1) lo hi rest).
      apply P_with_same; [|exact H2]. cbn [x1 with_d kd]. rewrite Hk. exact Ex1.
Qed.

Lemma P_fire_timers : forall fuel s, P s -> P (fire_timers fuel s).
Proof.
  induction fuel as [|f IH]; intros s HP; [exact HP|].
  cbn [fire_timers]. destruct (filter _ (ktimers s)) as [|t ts]; [exact HP|].
  apply IH, P_start_dial. apply (P_frame s); auto.
Qed.

Lemma fold_P {A} (f : kstate -> A -> kstate) : (forall s a, P s -> P (f s a)) -> forall l s, P s -> P (fold_left f l s).
Proof. intros Hf l. induction l as [|a l IH]; intros s HP; cbn [fold_left]; [exact HP|]. apply IH, Hf, HP. Qed.

(* a new dialer may not reuse the name of one that was closed (harness names are fresh); once the socket is closed
   NewDialer is refused anyway *)
Definition new_ok (s : kstate) (st : kstim) : Prop :=
  match st with KNewDialer d _ _ _ => C d -> ksclosed s = true | _ => True end.

Lemma get_d_app s x d : get_d (kset_dialers s (kdialers s ++ [x])) d =
  match get_d s d with Some y => Some y | None => if kd x =? d then Some x else None end.
Proof.
  unfold get_d. cbn [kset_dialers kdialers]. induction (kdialers s) as [|z l IH]; cbn [app find]; [reflexivity|].
  destruct (kd z =? d); [reflexivity|exact IH].
Qed.

Lemma P_step_raw s st : new_ok s st -> P s -> P (kstep_raw true true s st).
Proof.
  intros Hn HP. destruct st; cbn [kstep_raw].
  - destruct (ksclosed s); [apply P_emit; [discriminate|exact HP]|].
    destruct fail; (apply P_emit; [discriminate|]); apply (P_frame s); auto.
  - destruct (get_l s l) as [x|]; [|exact HP].
    destruct (kl_closed x); [apply P_emit; [discriminate|exact HP]|].
    destruct (kl_active x); (apply P_emit; [discriminate|]); [exact HP|]. apply (P_frame s); auto.
  - destruct (get_l s l) as [x|]; [|exact HP].
    destruct (kl_serving x && negb (kl_closed x)); [apply P_add_pipe|]; exact HP.
  - exact HP.
  - destruct (get_l s l) as [x|]; [|exact HP].
    destruct (kl_closed x); (apply P_emit; [discriminate|]); [exact HP|]. apply (P_frame s); auto.
  - (* KNewDialer *)
    destruct (ksclosed s) eqn:Esc; [exact HP|]. destruct HP as [A B]. split; [|exact B].
    intros d0 x0 Hc. rewrite get_d_app. destruct (get_d s d0) as [y|] eqn:Ey.
    + intros [= <-]. exact (A d0 y Hc Ey).
    + cbn [kd]. destruct (N.eqb_spec d d0) as [->|]; [|discriminate].
      specialize (Hn Hc). cbn [new_ok] in Hn. rewrite Esc in Hn. discriminate.
  - (* KDial *)
    destruct (get_d s d) as [x|] eqn:Ex; [|exact HP].
    assert (Hk : kd x = d) by (eapply get_d_kd; eauto).
    destruct (kd_active x); [apply P_emit; [discriminate|exact HP]|].
    destruct (kd_closed x) eqn:Ec; [apply P_emit; [discriminate|exact HP]|].
    assert (H1 : P (put_d s (with_d x false true (kd_min x * 10) (kd_min x * 10) (kd_pending x)))).
    { apply P_put_d; [|exact HP]. cbn [with_d kd kd_closed]. rewrite Hk, Ex. intros x' [= <-] Hc. congruence. }
    destruct (kd_asynch x); [apply P_emit; [discriminate|]|]; apply P_start_dial, H1.
  - apply P_resolve, HP.
  - (* KCloseDialer *)
    destruct (get_d s d) as [x|] eqn:Ex; [|exact HP].
    destruct (kd_closed x); (apply P_emit; [discriminate|]); [exact HP|].
    apply P_put_d; [reflexivity|]. apply (P_frame s); auto.
  - apply P_pipe_close, HP.
  - apply P_pipe_close, HP.
  - apply (P_frame s); auto.
  - apply (P_frame s); auto.
  - (* KCloseSock *)
    apply P_emit; [discriminate|].
    apply fold_P; [intros s0 x H0; destruct (klisted x); [apply P_pipe_close|]; exact H0|].
    apply fold_P.
    { intros s0 x H0. destruct (kd_closed x); [exact H0|]. apply P_put_d; [reflexivity|]. apply (P_frame s0); auto. }
    apply fold_P.
    { intros s0 x H0. destruct (kl_closed x); [exact H0|]. apply (P_frame s0); auto. }
    apply (P_frame s); auto.
  - (* KPass *)
    set (s1 := kset_misc s (ksclosed s) (kpolicy s) (krefuse s) until (kambig s)).
    assert (H1 : P s1) by (apply (P_frame s); auto).
    apply (P_fire_timers 32) in H1. revert H1. generalize (fire_timers 32 s1). intros s2 H2.
    apply (P_frame s2); auto.
  - apply (P_frame s); auto.
Qed.
End Closed.

(* ---- the socket stays closed ---- *)
Lemma sclosed_put_p s x : ksclosed (put_p s x) = ksclosed s. Proof. reflexivity. Qed.

Lemma sclosed_pipe_close s p : ksclosed (pipe_close s p) = ksclosed s.
Proof.
  unfold pipe_close. destruct (get_p s p) as [x|]; [|reflexivity]. destruct (ktclosed x); [reflexivity|].
  assert (H : forall s0 d, ksclosed (pipe_closed_timer s0 d) = ksclosed s0) by (intros s0 d; unfold pipe_closed_timer; destruct (get_d s0 d); reflexivity).
  destruct (kowner x); [|rewrite H]; destruct (kadded x); reflexivity.
Qed.

Lemma sclosed_add_pipe s p o : ksclosed (add_pipe true s p o) = ksclosed s.
Proof.
  unfold add_pipe.
  set (s1 := kemit _ (HAttaching p)).
  set (s2 := if kpolicy s1 =? 1 then _ else _).
  assert (H2 : ksclosed s2 = ksclosed s) by (unfold s2; destruct (kpolicy s1 =? 1); [rewrite sclosed_pipe_close|]; reflexivity).
  destruct (get_p s2 p) as [x|]; [|exact H2].
  destruct (kclosing x); [exact H2|].
  destruct (krefuse s2 || ksclosed s2); [rewrite sclosed_pipe_close; exact H2|].
  set (s4 := match o with OwnD d => _ | OwnL _ => _ end).
  assert (H4 : ksclosed s4 = ksclosed s) by (unfold s4; destruct o as [l|d]; [exact H2|]; destruct (get_d _ d); exact H2).
  destruct (kpolicy _ =? 2); [rewrite sclosed_pipe_close|]; exact H4.
Qed.

Lemma sclosed_start_dial s d w : ksclosed (start_dial s d w) = ksclosed s.
Proof. unfold start_dial. destruct (get_d s d) as [x|]; [|reflexivity]. destruct (kd_closed x); [destruct w|]; reflexivity. Qed.

Lemma sclosed_fire : forall fuel s, ksclosed (fire_timers fuel s) = ksclosed s.
Proof.
  induction fuel as [|f IH]; intro s; [reflexivity|]. cbn [fire_timers]. destruct (filter _ (ktimers s)); [reflexivity|].
  rewrite IH, sclosed_start_dial. reflexivity.
Qed.

Lemma sclosed_fold {A} (f : kstate -> A -> kstate) : (forall s a, ksclosed (f s a) = ksclosed s) ->
  forall l s, ksclosed (fold_left f l s) = ksclosed s.
Proof. intros Hf l. induction l as [|a l IH]; intro s; cbn [fold_left]; [reflexivity|]. rewrite IH. apply Hf. Qed.

Definition kpass_body (s : kstate) (until : N) : kstate :=
    let s := kset_misc s (ksclosed s) (kpolicy s) (krefuse s) until (kambig s) in
    let s := fire_timers 32 s in
    kset_misc s (ksclosed s) (kpolicy s) (krefuse s) (know s) (kambig s || timers_uncertain s).
Lemma kpass_eq s until : kstep_raw true true s (KPass until) = kpass_body s until.
Proof. reflexivity. Qed.
Lemma sclosed_kset_misc s c p r n a : ksclosed (kset_misc s c p r n a) = c.
Proof. reflexivity. Qed.

Lemma sclosed_step_raw s st : ksclosed s = true -> ksclosed (kstep_raw true true s st) = true.
Proof.
  intro H. destruct st; [cbn [kstep_raw]..|rewrite kpass_eq|cbn [kstep_raw]].
  - rewrite H. exact H.
  - destruct (get_l s l) as [x|]; [|exact H]. destruct (kl_closed x); [exact H|]. destruct (kl_active x); exact H.
  - destruct (get_l s l) as [x|]; [|exact H]. destruct (_ && _); [rewrite sclosed_add_pipe|]; exact H.
  - exact H.
  - destruct (get_l s l) as [x|]; [|exact H]. destruct (kl_closed x); exact H.
  - rewrite H. exact H.
  - destruct (get_d s d) as [x|]; [|exact H]. destruct (kd_active x); [exact H|]. destruct (kd_closed x); [exact H|].
    destruct (kd_asynch x); cbn [kemit ksclosed]; rewrite sclosed_start_dial; exact H.
  - unfold resolve. destruct (get_d s d) as [x|]; [|exact H]. destruct (kd_pending x) as [|w rest]; [exact H|].
    destruct r.
    + destruct w; cbn [kemit ksclosed]; rewrite sclosed_add_pipe; exact H.
    + destruct w as [t|].
      * destruct (kd_asynch _); [exact H|]. destruct (get_d _ d); exact H.
      * destruct (if kd_max _ =? 0 then _ else _). exact H.
  - destruct (get_d s d) as [x|]; [|exact H]. destruct (kd_closed x); exact H.
  - rewrite sclosed_pipe_close. exact H.
  - rewrite sclosed_pipe_close. exact H.
  - exact H.
  - exact H.
  - cbn [kemit ksclosed]. rewrite sclosed_fold; [|intros s0 x; destruct (klisted x); [apply sclosed_pipe_close|reflexivity]].
    rewrite sclosed_fold; [|intros s0 x; destruct (kd_closed x); reflexivity].
    rewrite sclosed_fold; [|intros s0 x; destruct (kl_closed x); reflexivity]. reflexivity.
  - unfold kpass_body. rewrite sclosed_kset_misc, sclosed_fire, sclosed_kset_misc. exact H.
  - exact H.
Qed.

(* ---- Close closes every dialer ---- *)
Definition all_closed (s : kstate) : Prop := forall x, In x (kdialers s) -> kd_closed x = true.

Lemma all_closed_get s : all_closed s -> forall d x, get_d s d = Some x -> kd_closed x = true.
Proof. intros H d x Hx. apply H. unfold get_d in Hx. apply find_some in Hx. tauto. Qed.

Lemma close_fold_dialers : forall (rem : list kdialer) (s : kstate),
  (forall y, In y (kdialers s) -> kd_closed y = true \/ exists x, In x rem /\ kd x = kd y /\ kd_closed x = false) ->
  all_closed (fold_left (fun s x =>
     if kd_closed x then s
     else put_d (kset_timers s (filter (fun tm => negb ((kt_d tm =? kd x) && kt_stoppable tm)) (ktimers s)))
                (with_d x true (kd_active x) (kd_lo x) (kd_hi x) (kd_pending x))) rem s).
Proof.
  induction rem as [|x rem IH]; intros s H; cbn [fold_left].
  - intros y Hy. destruct (H y Hy) as [Hc|(x & [] & _)]. exact Hc.
  - apply IH. destruct (kd_closed x) eqn:Ec.
    + intros y Hy. destruct (H y Hy) as [Hc|(x0 & [->|Hin] & Hk & Ho)]; [left; exact Hc|congruence|].
      right. exists x0. auto.
    + intros y' Hy'. unfold put_d in Hy'. cbn [kset_dialers kdialers kset_timers] in Hy'.
      apply in_map_iff in Hy' as (y & Ey & Hy). cbn [with_d kd] in Ey.
      destruct (N.eqb_spec (kd y) (kd x)) as [E|E].
      * subst y'. left. reflexivity.
      * subst y'. destruct (H y Hy) as [Hc|(x0 & [->|Hin] & Hk & Ho)]; [left; exact Hc|congruence|].
        right. exists x0. auto.
Qed.

Lemma pipes_fold_dialers : forall (l : list kpipe) s, kdialers (fold_left (fun s x => if klisted x then pipe_close s (kp x) else s) l s) = kdialers s.
Proof.
  assert (Hpc : forall s p, kdialers (pipe_close s p) = kdialers s).
  { intros s p. unfold pipe_close. destruct (get_p s p) as [x|]; [|reflexivity]. destruct (ktclosed x); [reflexivity|].
    assert (H : forall s0 d, kdialers (pipe_closed_timer s0 d) = kdialers s0) by (intros s0 d; unfold pipe_closed_timer; destruct (get_d s0 d); reflexivity).
    destruct (kowner x); [|rewrite H]; destruct (kadded x); reflexivity. }
  induction l as [|x l IH]; intro s; cbn [fold_left]; [reflexivity|]. rewrite IH. destruct (klisted x); [apply Hpc|reflexivity].
Qed.

Lemma listeners_fold_dialers : forall (l : list klistener) s,
  kdialers (fold_left (fun s x => if kl_closed x then s else put_l s {| kl := kl x; kl_closed := true; kl_active := kl_active x; kl_serving := false |}) l s) = kdialers s.
Proof. induction l as [|x l IH]; intro s; cbn [fold_left]; [reflexivity|]. rewrite IH. destruct (kl_closed x); reflexivity. Qed.

Lemma close_sock_all_closed s t : all_closed (kstep_raw true true s (KCloseSock t)).
Proof.
  cbn [kstep_raw]. intros x Hx. cbn [kemit kdialers] in Hx. rewrite pipes_fold_dialers in Hx. revert x Hx.
  set (s1 := fold_left _ (klisteners _) _).
  change (all_closed (fold_left (fun s x => if kd_closed x then s else
     put_d (kset_timers s (filter (fun tm => negb ((kt_d tm =? kd x) && kt_stoppable tm)) (ktimers s)))
           (with_d x true (kd_active x) (kd_lo x) (kd_hi x) (kd_pending x))) (kdialers s1) s1)).
  apply close_fold_dialers. intros y Hy.
  destruct (kd_closed y) eqn:Ec; [left; reflexivity|right]. exists y. auto.
Qed.

(* ---- histories ---- *)
Definition Inv (s : kstate) (dc : list N) (sc : bool) : Prop :=
  (forall d x, In d dc -> get_d s d = Some x -> kd_closed x = true) /\
  (sc = true -> ksclosed s = true /\ forall d x, get_d s d = Some x -> kd_closed x = true).

(* dialer names are not reused after the dialer was closed *)
Fixpoint wf_from (dc : list N) (h : list kstim) : Prop :=
  match h with
  | [] => True
  | st :: r =>
    match st with KNewDialer d _ _ _ => ~ In d dc | _ => True end /\
    wf_from (match st with KCloseDialer _ d => d :: dc | _ => dc end) r
  end.

Lemma no_attempt_exists dc sc os :
  (forall d, In d dc \/ sc = true -> ~ In (DialAttempt d) os) ->
  existsb (fun o => match o with DialAttempt d => sc || existsb (N.eqb d) dc | _ => false end) os = false.
Proof.
  intro H. apply Bool.not_true_is_false. intro E. apply existsb_exists in E as (o & Ho & E).
  destruct o; try discriminate. apply (H d); [|exact Ho].
  apply Bool.orb_true_iff in E as [E|E]; [right; exact E|left].
  apply existsb_exists in E as (d' & Hd & E). apply N.eqb_eq in E. subst. exact Hd.
Qed.

Lemma step_closed s st dc sc : Inv s dc sc ->
  match st with KNewDialer d _ _ _ => ~ In d dc | _ => True end ->
  let '(s', os) := kstep true true s st in
  (forall d, In d dc \/ sc = true -> ~ In (DialAttempt d) os) /\
  Inv s' (match st with KCloseDialer _ d => d :: dc | _ => dc end) (sc || match st with KCloseSock _ => true | _ => false end).
Proof.
  intros [I1 I2] Hwf. unfold kstep.
  set (C := fun d => In d dc \/ sc = true).
  assert (HP0 : P C (kclear s)).
  { split; [|intros d _ []]. intros d x [Hc|Hc] Hx; [exact (I1 d x Hc Hx)|]. destruct (I2 Hc) as [_ A]. exact (A d x Hx). }
  assert (Hn : new_ok C (kclear s) st).
  { destruct st; try exact I. intros [Hc|Hc]; [contradiction|]. destruct (I2 Hc) as [A _]. exact A. }
  pose proof (P_step_raw C (kclear s) st Hn HP0) as HP.
  assert (Hsc : sc = true -> ksclosed (kstep_raw true true (kclear s) st) = true).
  { intro Hc. apply sclosed_step_raw. destruct (I2 Hc) as [A _]. exact A. }
  assert (Hcs : forall t, st = KCloseSock t -> ksclosed (kstep_raw true true (kclear s) st) = true /\ all_closed (kstep_raw true true (kclear s) st)).
  { intros t ->. split; [|apply close_sock_all_closed]. cbn [kstep_raw kemit ksclosed].
    rewrite sclosed_fold; [|intros s0 x; destruct (klisted x); [apply sclosed_pipe_close|reflexivity]].
    rewrite sclosed_fold; [|intros s0 x; destruct (kd_closed x); reflexivity].
    rewrite sclosed_fold; [|intros s0 x; destruct (kl_closed x); reflexivity]. reflexivity. }
  assert (Hcd : forall t d, st = KCloseDialer t d -> forall x, get_d (kstep_raw true true (kclear s) st) d = Some x -> kd_closed x = true).
  { intros t d -> x. cbn [kstep_raw]. destruct (get_d (kclear s) d) as [x0|] eqn:Ex0; [|intro H; rewrite Ex0 in H; discriminate].
    assert (Hk : kd x0 = d) by (eapply get_d_kd; eauto).
    destruct (kd_closed x0) eqn:Ec.
    - change (get_d (kemit (kclear s) (KRet t KEClosed)) d) with (get_d (kclear s) d). rewrite Ex0. intros [= <-]. exact Ec.
    - match goal with |- get_d (kemit (put_d ?s0 ?y) _) d = _ -> _ => change (get_d (kemit (put_d s0 y) (KRet t 0)) d) with (get_d (put_d s0 y) d);
        rewrite get_put_d; change (get_d s0 d) with (get_d (kclear s) d) end.
      rewrite Ex0. cbn [with_d kd]. rewrite N.eqb_refl. intros [= <-]. reflexivity. }
  revert HP Hsc Hcs Hcd. generalize (kstep_raw true true (kclear s) st). intros s' [PA PB] Hsc Hcs Hcd.
  split.
  - intros d Hc Hin. apply in_app_or in Hin as [Hin|[Hin|[Hin|[]]]]; try discriminate.
    apply in_rev in Hin. exact (PB d Hc Hin).
  - split.
    + intros d x Hin Hx. destruct st; try (apply (PA d x); [left; exact Hin|exact Hx]).
      destruct Hin as [<-|Hin]; [exact (Hcd t d0 eq_refl x Hx)|apply (PA d x); [left; exact Hin|exact Hx]].
    + intro Hc. apply Bool.orb_true_iff in Hc as [Hc|Hc].
      * split; [exact (Hsc Hc)|]. intros d x Hx. apply (PA d x); [right; exact Hc|exact Hx].
      * destruct st; try discriminate. destruct (Hcs t eq_refl) as [A B]. split; [exact A|]. apply all_closed_get, B.
Qed.

Theorem no_attempt_after_close_from : forall h s dc sc i, Inv s dc sc -> wf_from dc h ->
  c14_from dc sc i (kmodel_trace true true s h) = None.
Proof.
  induction h as [|st r IH]; intros s dc sc i HI Hwf; [reflexivity|].
  destruct Hwf as [Hw1 Hw2]. cbn [kmodel_trace].
  pose proof (step_closed s st dc sc HI Hw1) as Hs.
  destruct (kstep true true s st) as [s' os]. destruct Hs as [Hno HI'].
  cbn [c14_from]. rewrite (no_attempt_exists dc sc os Hno).
  apply IH; assumption.
Qed.

Theorem no_attempt_after_close_all_histories h : wf_from [] h -> c14_oracle (kmodel_trace true true kinit h) = None.
Proof.
  intro Hwf. apply no_attempt_after_close_from; [|exact Hwf].
  split; [intros d x []|discriminate].
Qed.

(* a decidable form of the premise *)
Fixpoint wf_fromb (dc : list N) (h : list kstim) : bool :=
  match h with
  | [] => true
  | st :: r =>
    match st with KNewDialer d _ _ _ => negb (existsb (N.eqb d) dc) | _ => true end &&
    wf_fromb (match st with KCloseDialer _ d => d :: dc | _ => dc end) r
  end.

Lemma wf_fromb_sound : forall h dc, wf_fromb dc h = true -> wf_from dc h.
Proof.
  induction h as [|st r IH]; intros dc H; [exact I|].
  cbn [wf_fromb] in H. apply Bool.andb_true_iff in H as [H1 H2]. split; [|apply IH, H2].
  destruct st; try exact I. intro Hin. apply Bool.negb_true_iff in H1.
  assert (E : existsb (N.eqb d) dc = true) by (apply existsb_exists; exists d; split; [exact Hin|apply N.eqb_refl]).
  congruence.
Qed.
