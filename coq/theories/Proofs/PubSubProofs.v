From MV Require Import Lib.Proto Model.PubSub Model.PubSubOracle.
From Coq Require Import ZifyBool ZifyN ZifyNat.
Open Scope N_scope.

(* ---------------------------------------------------------------------------------------------- *)
(*  matching                                                                                        *)
(* ---------------------------------------------------------------------------------------------- *)
Lemma matches_spec subs body : matches subs body = true <-> exists t r, In t subs /\ body = t ++ r.
Proof.
  unfold matches. rewrite existsb_exists. split.
  - intros (t & Hin & Hp). apply is_prefix_spec in Hp as (r & ->). eauto.
  - intros (t & r & Hin & ->). exists t. split; [exact Hin|]. apply is_prefix_spec. eauto.
Qed.

Lemma matches_none body : matches [] body = false.
Proof. reflexivity. Qed.

Lemma matches_empty_topic subs body : In [] subs -> matches subs body = true.
Proof. intro H. apply matches_spec. exists [], body. auto. Qed.

Lemma matches_false_spec subs body : matches subs body = false <-> ~ exists t r, In t subs /\ body = t ++ r.
Proof.
  rewrite <- matches_spec. destruct (matches subs body); split; intro H.
  - discriminate.
  - exfalso. apply H. reflexivity.
  - intro; discriminate.
  - reflexivity.
Qed.

Lemma subscribe_in subs topic t : In t (subscribe subs topic) <-> In t subs \/ (t = topic).
Proof.
  unfold subscribe. destruct (existsb (bytes_eqb topic) subs) eqn:E.
  - split; [auto|]. intros [H| ->]; [exact H|].
    apply existsb_exists in E as (y & Hy & Ey). apply bytes_eqb_eq in Ey. subst. exact Hy.
  - rewrite in_app_iff. cbn [In]. split; intros [H|H]; auto. destruct H as [H|[]]; auto.
Qed.

Lemma matches_subscribe_mono subs topic m : matches subs m = true -> matches (subscribe subs topic) m = true.
Proof.
  rewrite !matches_spec. intros (t & r & Hin & ->). exists t, r. split; [|reflexivity].
  apply subscribe_in. auto.
Qed.

(* ---------------------------------------------------------------------------------------------- *)
(*  association lists                                                                               *)
(* ---------------------------------------------------------------------------------------------- *)
Lemma kget_kset_same {V} k (v : V) l : kget k (kset k v l) = Some v.
Proof.
  induction l as [|[k' v'] l IH]; cbn [kset kget].
  - rewrite N.eqb_refl. reflexivity.
  - destruct (N.eqb_spec k k'); cbn [kget].
    + rewrite N.eqb_refl. reflexivity.
    + destruct (N.eqb_spec k k'); [contradiction|exact IH].
Qed.

Lemma kget_kset_other {V} k k' (v : V) l : k <> k' -> kget k (kset k' v l) = kget k l.
Proof.
  intro H. induction l as [|[k2 v2] l IH]; cbn [kset kget].
  - destruct (N.eqb_spec k k'); [contradiction|reflexivity].
  - destruct (N.eqb_spec k' k2); cbn [kget].
    + subst. destruct (N.eqb_spec k k2); [contradiction|reflexivity].
    + destruct (N.eqb_spec k k2); [reflexivity|exact IH].
Qed.

Lemma kget_In {V} k (v : V) l : kget k l = Some v -> In (k, v) l.
Proof.
  induction l as [|[k' v'] l IH]; cbn [kget]; [discriminate|].
  destruct (N.eqb_spec k k'); intro H.
  - inversion H; subst. left; reflexivity.
  - right. apply IH, H.
Qed.

Lemma In_kget {V} k (v : V) l : NoDup (map fst l) -> In (k, v) l -> kget k l = Some v.
Proof.
  induction l as [|[k' v'] l IH]; cbn [map fst kget]; intros Hn Hin; [destruct Hin|].
  inversion Hn as [|? ? Hni Hn']; subst. destruct Hin as [Hin|Hin].
  - inversion Hin; subst. rewrite N.eqb_refl. reflexivity.
  - destruct (N.eqb_spec k k').
    + subst. exfalso. apply Hni. apply (in_map fst) in Hin. exact Hin.
    + apply IH; assumption.
Qed.

(* a key-preserving map acts on the value found under each key *)
Lemma kget_map {V} (f : N * V -> N * V) k l :
  (forall cx, fst (f cx) = fst cx) ->
  kget k (map f l) = match kget k l with Some v => Some (snd (f (k, v))) | None => None end.
Proof.
  intro Hf. induction l as [|[k' v'] l IH]; cbn [map kget]; [reflexivity|].
  pose proof (Hf (k', v')) as E. destruct (f (k', v')) as [k2 v2] eqn:Ef. cbn [fst] in E. subst k2.
  destruct (N.eqb_spec k k').
  - subst. rewrite Ef. reflexivity.
  - exact IH.
Qed.

Lemma Forall_kset {V} (P : N * V -> Prop) k v l : Forall P l -> P (k, v) -> Forall P (kset k v l).
Proof.
  intros Hl Hp. induction l as [|[k' v'] l IH]; cbn [kset].
  - constructor; [exact Hp|constructor].
  - inversion Hl; subst. destruct (k =? k'); constructor; auto.
Qed.

Lemma kget_Forall {V} (P : N * V -> Prop) k v l : Forall P l -> kget k l = Some v -> P (k, v).
Proof. intros Hl Hg. apply kget_In in Hg. rewrite Forall_forall in Hl. apply Hl, Hg. Qed.

Lemma filter_filter_absorb {A} (f g : A -> bool) l :
  (forall x, f x = true -> g x = true) -> filter f (filter g l) = filter f l.
Proof.
  intro H. induction l as [|a l IH]; cbn [filter]; [reflexivity|].
  destruct (g a) eqn:Eg; cbn [filter].
  - rewrite IH. reflexivity.
  - destruct (f a) eqn:Ef; [|exact IH]. apply H in Ef. congruence.
Qed.

Lemma NoDup_map_inj {A B} (f : A -> B) l a b : NoDup (map f l) -> In a l -> In b l -> f a = f b -> a = b.
Proof.
  induction l as [|x l IH]; cbn [map]; intros Hn Ha Hb E; [destruct Ha|].
  inversion Hn as [|? ? Hni Hn']; subst.
  destruct Ha as [->|Ha], Hb as [->|Hb]; auto.
  - exfalso. apply Hni. rewrite E. apply in_map, Hb.
  - exfalso. apply Hni. rewrite <- E. apply in_map, Ha.
Qed.

(* ---------------------------------------------------------------------------------------------- *)
(*  SUB: arrival                                                                                    *)
(* ---------------------------------------------------------------------------------------------- *)
Lemma dl_ctx_key ths body cx : fst (dl_ctx ths body cx) = fst cx.
Proof.
  destruct cx as [c x]. unfold dl_ctx. destruct (blocked_on ths c); [|reflexivity].
  destruct (wants x body && (0 <? x_qlen x)); reflexivity.
Qed.

(* what an arriving message does to context c depends on c's own record and c's own parked calls only *)
Lemma deliver_local fixed s p body c :
  pipe_up (sb_pipes s) p = true -> sb_wedged s = false ->
  kget c (sb_ctxs (fst (sb_step fixed s (SDeliver p body)))) =
  match kget c (sb_ctxs s) with Some x => Some (snd (dl_ctx (sb_threads s) body (c, x))) | None => None end.
Proof.
  intros Hp Hw. unfold sb_step. cbn [fst sb_step_raw sb_clear sb_with sb_pipes sb_wedged sb_ctxs sb_threads].
  rewrite Hp, Hw. cbn [negb]. unfold sb_deliver.
  cbn [sb_flags sb_with sb_ctxs sb_threads]. apply kget_map. intro cx. apply dl_ctx_key.
Qed.

(* the observations of a delivery step are exactly the hand-overs *)
Lemma deliver_obs fixed s p body :
  pipe_up (sb_pipes s) p = true -> sb_wedged s = false ->
  snd (sb_step fixed s (SDeliver p body)) = map (fun t => ORet t (RMsg [] body)) (flat_map (dl_handed (sb_threads s) body) (sb_ctxs s)).
Proof.
  intros Hp Hw. unfold sb_step. cbn [snd sb_step_raw sb_clear sb_with sb_pipes sb_wedged sb_ctxs sb_threads sb_out].
  rewrite Hp, Hw. cbn [negb]. unfold sb_deliver.
  cbn [sb_flags sb_with sb_ctxs sb_threads sb_out]. rewrite app_nil_r, rev_involutive. reflexivity.
Qed.

(* sub_iff, queue form: with nobody parked on c and room to queue at all, the message is enqueued on c
   (dropping the oldest when full) iff one of c's CURRENT subscriptions is a prefix of its body *)
Lemma sub_iff fixed s p body c x :
  pipe_up (sb_pipes s) p = true -> sb_wedged s = false ->
  kget c (sb_ctxs s) = Some x -> x_closed x = false ->
  blocked_on (sb_threads s) c = [] -> 0 < x_qlen x ->
  ((exists t r, In t (x_subs x) /\ body = t ++ r) ->
     kget c (sb_ctxs (fst (sb_step fixed s (SDeliver p body)))) = Some (push x body)) /\
  (~ (exists t r, In t (x_subs x) /\ body = t ++ r) ->
     kget c (sb_ctxs (fst (sb_step fixed s (SDeliver p body)))) = Some x).
Proof.
  intros Hp Hw Hx Hc Hb Hq. rewrite deliver_local by assumption. rewrite Hx.
  unfold dl_ctx. rewrite Hb. unfold wants. rewrite Hc. cbn [negb andb].
  assert (Hq' : (0 <? x_qlen x) = true) by lia. rewrite Hq', andb_true_r.
  split; intro H.
  - apply matches_spec in H. rewrite H. reflexivity.
  - apply matches_false_spec in H. rewrite H. reflexivity.
Qed.

(* sub_iff, hand-over form: a Recv parked on c returns the arriving message iff it matches c's subscriptions *)
Lemma sub_iff_parked fixed s p body c x th :
  pipe_up (sb_pipes s) p = true -> sb_wedged s = false ->
  NoDup (map fst (sb_ctxs s)) -> NoDup (map th_id (sb_threads s)) ->
  kget c (sb_ctxs s) = Some x -> x_closed x = false ->
  blocked_on (sb_threads s) c = [th] ->
  (In (ORet (th_id th) (RMsg [] body)) (snd (sb_step fixed s (SDeliver p body))) <-> exists t r, In t (x_subs x) /\ body = t ++ r)
  /\ kget c (sb_ctxs (fst (sb_step fixed s (SDeliver p body)))) = Some x.
Proof.
  intros Hp Hw Hnk Hnt Hx Hc Hb. split.
  - rewrite deliver_obs by assumption. rewrite <- matches_spec. rewrite in_map_iff. split.
    + intros (t & Ht & Hin). inversion Ht; subst t. clear Ht.
      apply in_flat_map in Hin as ([c' x'] & Hcx & Hh). unfold dl_handed in Hh.
      destruct (wants x' body) eqn:Ew; [|destruct Hh].
      destruct (blocked_on (sb_threads s) c') as [|th' [|th2 l2]] eqn:Eb; [destruct Hh| |destruct Hh].
      destruct Hh as [Hh|[]].
      assert (Hth' : In th' (blocked_on (sb_threads s) c')) by (rewrite Eb; left; reflexivity).
      assert (Hth : In th (blocked_on (sb_threads s) c)) by (rewrite Hb; left; reflexivity).
      unfold blocked_on in Hth', Hth. apply filter_In in Hth' as (Hi' & Hc'), Hth as (Hi & Hcc).
      assert (th' = th) by (eapply NoDup_map_inj; eauto). subst th'.
      assert (c' = c) by lia. subst c'.
      apply In_kget in Hcx; [|exact Hnk]. rewrite Hx in Hcx. inversion Hcx; subst x'.
      unfold wants in Ew. rewrite Hc in Ew. exact Ew.
    + intro Hm. exists (th_id th). split; [reflexivity|].
      apply in_flat_map. exists (c, x). split; [apply kget_In, Hx|].
      unfold dl_handed, wants. rewrite Hc, Hm, Hb. left; reflexivity.
  - rewrite deliver_local by assumption. rewrite Hx. unfold dl_ctx. rewrite Hb. reflexivity.
Qed.

(* ---------------------------------------------------------------------------------------------- *)
(*  SUB: Unsubscribe                                                                                *)
(* ---------------------------------------------------------------------------------------------- *)
Lemma unsub_purges fixed s t c v topic x :
  sb_wedged s = false -> kget c (sb_ctxs s) = Some x -> In topic (x_subs x) ->
  exists x', kget c (sb_ctxs (fst (sb_step fixed s (SCall t (CSetOpt c OUnsubscribe v topic))))) = Some x' /\
             x_subs x' = remove1 topic (x_subs x) /\
             x_q x' = filter (matches (x_subs x')) (x_q x) /\
             (forall m, In m (x_q x') -> matches (x_subs x') m = true) /\
             snd (sb_step fixed s (SCall t (CSetOpt c OUnsubscribe v topic))) = [ORet t ROk].
Proof.
  intros Hw Hx Hin.
  assert (He : existsb (bytes_eqb topic) (x_subs x) = true).
  { apply existsb_exists. exists topic. split; [exact Hin|]. apply bytes_eqb_eq. reflexivity. }
  unfold sb_step. cbn [fst snd sb_step_raw]. unfold sb_call. cbn [sb_clear sb_with sb_wedged sb_ctxs].
  rewrite Hw. cbn [andb]. rewrite Hx, He.
  cbn [sb_emit sb_set_ctx sb_with sb_ctxs sb_out rev app].
  rewrite kget_kset_same. eexists. split; [reflexivity|].
  unfold unsubscribe. cbn [with_subs_q x_subs x_q]. repeat split.
  intros m Hm. apply filter_In in Hm. apply Hm.
Qed.

Lemma unsub_absent fixed s t c v topic x :
  sb_wedged s = false -> kget c (sb_ctxs s) = Some x -> ~ In topic (x_subs x) ->
  sb_ctxs (fst (sb_step fixed s (SCall t (CSetOpt c OUnsubscribe v topic)))) = sb_ctxs s /\
  snd (sb_step fixed s (SCall t (CSetOpt c OUnsubscribe v topic))) = [ORet t (RErr EBadValue)].
Proof.
  intros Hw Hx Hin.
  assert (He : existsb (bytes_eqb topic) (x_subs x) = false).
  { destruct (existsb (bytes_eqb topic) (x_subs x)) eqn:E; [|reflexivity].
    apply existsb_exists in E as (y & Hy & Ey). apply bytes_eqb_eq in Ey. subst. contradiction. }
  unfold sb_step. cbn [fst snd sb_step_raw]. unfold sb_call. cbn [sb_clear sb_with sb_wedged sb_ctxs].
  rewrite Hw. cbn [andb]. rewrite Hx, He. split; reflexivity.
Qed.

(* ---------------------------------------------------------------------------------------------- *)
(*  SUB: contexts do not affect one another                                                         *)
(* ---------------------------------------------------------------------------------------------- *)
Definition call_ctx (k : call) : option N :=
  match k with CRecv c | CSetOpt c _ _ _ | COpenCtx c | CCloseCtx c => Some c | _ => None end.

Lemma blocked_on_app ths c th : th_ctx th <> c -> blocked_on (ths ++ [th]) c = blocked_on ths c.
Proof.
  intro H. unfold blocked_on. rewrite filter_app. cbn [filter].
  destruct (N.eqb_spec (th_ctx th) c); [contradiction|]. apply app_nil_r.
Qed.

Lemma ctx_independent fixed s t k c c' :
  call_ctx k = Some c' -> c <> c' ->
  kget c (sb_ctxs (fst (sb_step fixed s (SCall t k)))) = kget c (sb_ctxs s) /\
  blocked_on (sb_threads (fst (sb_step fixed s (SCall t k)))) c = blocked_on (sb_threads s) c.
Proof.
  intros Hk Hne. unfold sb_step. cbn [fst sb_step_raw]. unfold sb_call.
  cbn [sb_clear sb_with sb_wedged sb_ctxs sb_threads sb_closed].
  destruct (sb_wedged s && sb_locks k); [split; reflexivity|].
  destruct k as [? ? ?|c0|c0 o v arg|c0|c0|]; cbn [call_ctx] in Hk; try discriminate; inversion Hk; subst c0; clear Hk.
  - (* Recv *)
    destruct (kget c' (sb_ctxs s)) as [x|] eqn:Ex; [|split; reflexivity].
    destruct (x_q x) as [|m q'].
    + destruct (x_closed x); [split; reflexivity|].
      cbn [sb_with sb_ctxs sb_threads]. split; [reflexivity|]. apply blocked_on_app. cbn [th_ctx]. auto.
    + destruct (x_closed x); [split; reflexivity|].
      cbn [sb_emit sb_set_ctx sb_with sb_ctxs sb_threads]. split; [apply kget_kset_other, Hne|reflexivity].
  - (* SetOption *)
    destruct (kget c' (sb_ctxs s)) as [x|] eqn:Ex; [|split; reflexivity].
    destruct o; try (split; reflexivity);
      try (cbn [sb_emit sb_set_ctx sb_with sb_ctxs sb_threads]; split; [apply kget_kset_other, Hne|reflexivity]).
    + destruct (v <? 0)%Z; [split; reflexivity|].
      cbn [sb_emit sb_set_ctx sb_with sb_ctxs sb_threads]. split; [apply kget_kset_other, Hne|reflexivity].
    + destruct (existsb (bytes_eqb arg) (x_subs x)); [|split; reflexivity].
      cbn [sb_emit sb_set_ctx sb_with sb_ctxs sb_threads]. split; [apply kget_kset_other, Hne|reflexivity].
  - (* OpenContext *)
    destruct (sb_closed s); [split; reflexivity|].
    destruct (kget 0 (sb_ctxs s)); [|split; reflexivity].
    cbn [sb_emit sb_set_ctx sb_with sb_ctxs sb_threads]. split; [apply kget_kset_other, Hne|reflexivity].
  - (* Close of the other context *)
    destruct (kget c' (sb_ctxs s)) as [x|] eqn:Ex; [|split; reflexivity].
    destruct (x_closed x); [split; reflexivity|].
    unfold sb_close_ctxs. cbn [sb_emit sb_with sb_ctxs sb_threads]. split.
    + rewrite kget_map.
      * cbn [sb_clear sb_with sb_ctxs]. destruct (kget c (sb_ctxs s)) as [y|]; [|reflexivity]. cbn [fst snd existsb].
        destruct (N.eqb_spec c c'); [contradiction|]. reflexivity.
      * intros [k0 y]. cbn [fst]. destruct (existsb (N.eqb k0) [c']); reflexivity.
    + unfold blocked_on. apply filter_filter_absorb. intros th H. cbn [existsb].
      destruct (N.eqb_spec (th_ctx th) c'); [|reflexivity]. lia.
Qed.

(* ---------------------------------------------------------------------------------------------- *)
(*  SUB, all histories: every queued message matches its context's current subscriptions            *)
(* ---------------------------------------------------------------------------------------------- *)
Definition ctx_ok (x : sctx) : Prop := Forall (fun m => matches (x_subs x) m = true) (x_q x).
Definition sub_inv (s : sstate) : Prop := Forall (fun cx => ctx_ok (snd cx)) (sb_ctxs s).

Lemma ctx_ok_push x body : ctx_ok x -> matches (x_subs x) body = true -> ctx_ok (push x body).
Proof.
  unfold ctx_ok, push. cbn [with_q with_subs_q x_subs x_q]. intros H Hm.
  apply Forall_app. split; [|constructor; [exact Hm|constructor]].
  destruct (qlen (x_q x) <? x_qlen x); [exact H|]. destruct (x_q x); [constructor|]. inversion H; assumption.
Qed.

Lemma dl_ctx_ok ths body cx : ctx_ok (snd cx) -> ctx_ok (snd (dl_ctx ths body cx)).
Proof.
  destruct cx as [c x]. cbn [snd]. intro H. unfold dl_ctx. destruct (blocked_on ths c); [|exact H].
  destruct (wants x body && (0 <? x_qlen x)) eqn:E; [|exact H]. cbn [snd]. apply ctx_ok_push; [exact H|].
  unfold wants in E. destruct (x_closed x); [discriminate|]. cbn [negb andb] in E.
  destruct (matches (x_subs x) body); [reflexivity|discriminate].
Qed.

Lemma sub_inv_set s c x : sub_inv s -> ctx_ok x -> sub_inv (sb_set_ctx s c x).
Proof. intros H Hx. unfold sub_inv, sb_set_ctx. cbn [sb_with sb_ctxs]. apply Forall_kset; assumption. Qed.

Lemma sb_step_inv fixed s st : sub_inv s -> sub_inv (fst (sb_step fixed s st)).
Proof.
  intro H. unfold sb_step. cbn [fst].
  assert (Hc : sub_inv (sb_clear s)) by exact H.
  set (s0 := sb_clear s) in *. clearbody s0. clear H s.
  destruct st as [t k|p|p|p body|p h|p ok|until|tm]; cbn [sb_step_raw]; try exact Hc.
  - (* API calls *)
    unfold sb_call. destruct (sb_wedged s0 && sb_locks k); [exact Hc|].
    destruct k as [? ? ?|c|c o v arg|c|c|]; try exact Hc.
    + destruct (kget c (sb_ctxs s0)) as [x|] eqn:Ex; [|exact Hc].
      pose proof (kget_Forall _ _ _ _ Hc Ex) as Hx. cbn [snd] in Hx.
      destruct (x_q x) as [|m q'] eqn:Eq; [destruct (x_closed x); exact Hc|].
      destruct (x_closed x); [exact Hc|]. apply (sub_inv_set s0 c); [exact Hc|].
      unfold ctx_ok in *. cbn [with_q with_subs_q x_subs x_q]. rewrite Eq in Hx. inversion Hx; assumption.
    + destruct (kget c (sb_ctxs s0)) as [x|] eqn:Ex; [|exact Hc].
      pose proof (kget_Forall _ _ _ _ Hc Ex) as Hx. cbn [snd] in Hx.
      destruct o; try exact Hc.
      * apply (sub_inv_set s0 c); [exact Hc|]. unfold ctx_ok in *. cbn [with_exp x_subs x_q]. exact Hx.
      * destruct (v <? 0)%Z; [exact Hc|]. apply (sub_inv_set s0 c); [exact Hc|]. constructor.
      * apply (sub_inv_set s0 c); [exact Hc|]. unfold ctx_ok in *. cbn [with_subs_q x_subs x_q].
        eapply Forall_impl; [|exact Hx]. intros m Hm. apply matches_subscribe_mono, Hm.
      * destruct (existsb (bytes_eqb arg) (x_subs x)); [|exact Hc]. apply (sub_inv_set s0 c); [exact Hc|].
        unfold ctx_ok, unsubscribe. cbn [with_subs_q x_subs x_q]. apply Forall_forall. intros m Hm.
        apply filter_In in Hm. apply Hm.
    + destruct (sb_closed s0); [exact Hc|]. destruct (kget 0 (sb_ctxs s0)); [|exact Hc].
      apply (sub_inv_set s0 c); [exact Hc|]. constructor.
    + destruct (kget c (sb_ctxs s0)) as [x|]; [|exact Hc]. destruct (x_closed x); [exact Hc|].
      unfold sub_inv, sb_close_ctxs. cbn [sb_emit sb_with sb_ctxs]. apply Forall_map.
      eapply Forall_impl; [|exact Hc]. intros [k0 y] Hy. destruct (existsb (N.eqb (fst (k0, y))) [c]); exact Hy.
    + destruct (sb_closed s0); [exact Hc|].
      unfold sub_inv, sb_close_ctxs. cbn [sb_emit sb_with sb_flags sb_ctxs]. apply Forall_map.
      eapply Forall_impl; [|exact Hc]. intros [k0 y] Hy.
      destruct (existsb (N.eqb (fst (k0, y))) _); exact Hy.
  - destruct (sb_wedged s0); exact Hc.
  - (* arrival *)
    destruct (negb (pipe_up (sb_pipes s0) p)); [exact Hc|]. destruct (sb_wedged s0); [exact Hc|].
    unfold sub_inv, sb_deliver. cbn [sb_flags sb_with sb_ctxs]. apply Forall_map.
    eapply Forall_impl; [|exact Hc]. intros cx Hcx. apply dl_ctx_ok, Hcx.
Qed.

Lemma sub_inv_init : sub_inv sb_init.
Proof. repeat constructor. Qed.

Fixpoint sb_run (fixed : bool) (s : sstate) (h : list stim) : sstate :=
  match h with [] => s | st :: r => sb_run fixed (fst (sb_step fixed s st)) r end.

Lemma sub_inv_always fixed h : sub_inv (sb_run fixed sb_init h).
Proof.
  assert (G : forall s, sub_inv s -> sub_inv (sb_run fixed s h)).
  { induction h as [|st r IH]; intros s Hs; [exact Hs|]. cbn [sb_run]. apply IH, sb_step_inv, Hs. }
  apply G, sub_inv_init.
Qed.

(* consequence for the application: whatever a Recv pops from a queue matches the subscriptions in force *)
Lemma recv_returns_matching fixed h t c x m q' :
  let s := sb_run fixed sb_init h in
  kget c (sb_ctxs s) = Some x -> x_q x = m :: q' -> x_closed x = false -> sb_wedged s = false ->
  snd (sb_step fixed s (SCall t (CRecv c))) = [ORet t (RMsg [] m)] /\ matches (x_subs x) m = true.
Proof.
  intros s Hx Hq Hc Hw. split.
  - unfold sb_step. cbn [snd sb_step_raw]. unfold sb_call. cbn [sb_clear sb_with sb_wedged sb_ctxs]. rewrite Hw. cbn [andb].
    rewrite Hx, Hq, Hc. reflexivity.
  - pose proof (sub_inv_always fixed h) as Hi. fold s in Hi. pose proof (kget_Forall _ _ _ _ Hi Hx) as Hok.
    cbn [snd] in Hok. unfold ctx_ok in Hok. rewrite Hq in Hok. inversion Hok; assumption.
Qed.

(* ---------------------------------------------------------------------------------------------- *)
(*  PUB                                                                                             *)
(* ---------------------------------------------------------------------------------------------- *)
Lemma pub_all s t c h b pp :
  pb_closed s = false -> In pp (pb_pipes s) -> pp_alive pp = true ->
  In (ORet t ROk) (snd (pb_step s (SCall t (CSend c h b)))) /\
  (pp_busy pp = false -> In (OTx (pp_id pp) h b) (snd (pb_step s (SCall t (CSend c h b))))) /\
  (pp_busy pp = true -> qlen (pp_q pp) < pp_cap pp ->
     In (pp_with pp true (pp_hold pp) true (pp_q pp ++ [(h, b)])) (pb_pipes (fst (pb_step s (SCall t (CSend c h b)))))) /\
  (forall q h' b', In (OTx q h' b') (snd (pb_step s (SCall t (CSend c h b)))) ->
     h' = h /\ b' = b /\ exists pq, In pq (pb_pipes s) /\ pp_id pq = q /\ pp_alive pq = true).
Proof.
  intros Hc Hin Ha. unfold pb_step. cbn [fst snd pb_step_raw pb_call pb_with pb_closed pb_pipes pb_out].
  rewrite Hc. cbn [pb_emit pb_with pb_out pb_pipes]. rewrite app_nil_r.
  cbn [rev]. rewrite rev_involutive. repeat split.
  - apply in_or_app. right. left. reflexivity.
  - intro Hb. apply in_or_app. left. apply in_flat_map. exists pp. split; [exact Hin|].
    unfold send_tx. rewrite Ha, Hb. left. reflexivity.
  - intros Hb Hq. apply in_map_iff. exists pp. split; [|exact Hin].
    unfold send_pipe. rewrite Ha, Hb. cbn [negb].
    assert (E : (qlen (pp_q pp) <? pp_cap pp) = true) by lia. rewrite E. reflexivity.
  - apply in_app_or in H as [H|[H|[]]]; [|discriminate].
    apply in_flat_map in H as (pq & _ & Hq). unfold send_tx in Hq.
    destruct (pp_alive pq && negb (pp_busy pq)); [|destruct Hq]. destruct Hq as [Hq|[]]. inversion Hq. reflexivity.
  - apply in_app_or in H as [H|[H|[]]]; [|discriminate].
    apply in_flat_map in H as (pq & _ & Hq). unfold send_tx in Hq.
    destruct (pp_alive pq && negb (pp_busy pq)); [|destruct Hq]. destruct Hq as [Hq|[]]. inversion Hq. reflexivity.
  - apply in_app_or in H as [H|[H|[]]]; [|discriminate].
    apply in_flat_map in H as (pq & Hpq & Hq). unfold send_tx in Hq.
    destruct (pp_alive pq) eqn:Eal; cbn [andb] in Hq; [|destruct Hq].
    destruct (negb (pp_busy pq)); [|destruct Hq]. destruct Hq as [Hq|[]]. inversion Hq; subst.
    exists pq. auto.
Qed.

(* a full queue drops the NEW message for that pipe only *)
Lemma pub_full_drops_newest s t c h b pp :
  pb_closed s = false -> In pp (pb_pipes s) -> pp_alive pp = true -> pp_busy pp = true -> pp_cap pp <= qlen (pp_q pp) ->
  In pp (pb_pipes (fst (pb_step s (SCall t (CSend c h b))))).
Proof.
  intros Hc Hin Ha Hb Hq. unfold pb_step. cbn [fst pb_step_raw pb_call pb_with pb_closed pb_pipes pb_out].
  rewrite Hc. cbn [pb_emit pb_with pb_pipes]. apply in_map_iff. exists pp. split; [|exact Hin].
  unfold send_pipe. rewrite Ha, Hb. cbn [negb].
  assert (E : (qlen (pp_q pp) <? pp_cap pp) = false) by lia. rewrite E. reflexivity.
Qed.

(* ---------------------------------------------------------------------------------------------- *)
(*  the two defects of sub.go as found (fixed = false) and the repaired code (fixed = true)          *)
(* ---------------------------------------------------------------------------------------------- *)
(* as found, READQ-LEN 0: a matching message with no Recv parked wedges the socket ... *)
Lemma readqlen_zero_wedges s p body c x :
  pipe_up (sb_pipes s) p = true -> sb_wedged s = false ->
  kget c (sb_ctxs s) = Some x -> x_closed x = false -> x_qlen x = 0 ->
  blocked_on (sb_threads s) c = [] -> matches (x_subs x) body = true ->
  sb_wedged (fst (sb_step false s (SDeliver p body))) = true.
Proof.
  intros Hp Hw Hx Hc Hq Hb Hm. unfold sb_step. cbn [fst sb_step_raw sb_clear sb_with sb_pipes sb_wedged sb_ctxs sb_threads].
  rewrite Hp, Hw. cbn [negb]. unfold sb_deliver. cbn [sb_flags sb_clear sb_with sb_wedged sb_ctxs sb_threads]. rewrite ?Hw. cbn [orb].
  apply existsb_exists. exists (c, x). split; [apply kget_In, Hx|].
  unfold dl_wedge, wants. rewrite Hc, Hm, Hq, Hb. reflexivity.
Qed.

(* ... and from then on every call that takes the socket lock (Recv, Close, SetOption, OpenContext) never returns *)
Lemma wedged_blocks fixed s t k :
  sb_wedged s = true -> sb_locks k = true ->
  snd (sb_step fixed s (SCall t k)) = [] /\ In t (sb_blocked (fst (sb_step fixed s (SCall t k)))) /\
  sb_wedged (fst (sb_step fixed s (SCall t k))) = true.
Proof.
  intros Hw Hl. unfold sb_step. cbn [fst snd sb_step_raw]. unfold sb_call.
  cbn [sb_clear sb_with sb_wedged]. rewrite Hw, Hl. cbn [andb sb_park sb_out sb_wedged rev].
  repeat split; [|exact Hw]. unfold sb_blocked. cbn [sb_park sb_stuck sb_threads]. apply in_or_app. right. apply in_or_app. right. left. reflexivity.
Qed.

(* as found, READQ-LEN < 0 is accepted by SUB's SetOption and panics in make(chan) *)
Lemma readqlen_negative_panics s t c x v arg :
  kget c (sb_ctxs s) = Some x -> (v < 0)%Z ->
  snd (sb_step false s (SCall t (CSetOpt c OReadQLen v arg))) = [ORet t (RErr EPanic)].
Proof.
  intros Hx Hv. unfold sb_step. cbn [snd sb_step_raw]. unfold sb_call. cbn [sb_clear sb_with sb_wedged sb_ctxs sb_locks].
  assert (E1 : (0 <=? v)%Z = false) by lia. assert (E2 : (v <? 0)%Z = true) by lia.
  rewrite E1, andb_false_r, Hx, E2. reflexivity.
Qed.

(* repaired, READQ-LEN < 0: ErrBadValue, and nothing about the socket changes *)
Lemma readqlen_negative_rejected s t c x v arg :
  kget c (sb_ctxs s) = Some x -> (v < 0)%Z ->
  snd (sb_step true s (SCall t (CSetOpt c OReadQLen v arg))) = [ORet t (RErr EBadValue)] /\
  fst (sb_step true s (SCall t (CSetOpt c OReadQLen v arg))) = sb_emit (sb_clear s) (ORet t (RErr EBadValue)).
Proof.
  intros Hx Hv. unfold sb_step. cbn [fst snd sb_step_raw]. unfold sb_call. cbn [sb_clear sb_with sb_wedged sb_ctxs sb_locks].
  assert (E1 : (0 <=? v)%Z = false) by lia. assert (E2 : (v <? 0)%Z = true) by lia.
  rewrite E1, andb_false_r, Hx, E2. split; reflexivity.
Qed.

(* repaired: no step ever wedges the socket or parks a call on its mutex -- for ALL histories, whatever READQ-LEN *)
Definition unwedged (s : sstate) : Prop := sb_wedged s = false /\ sb_stuck s = [].

Lemma existsb_false {A} (f : A -> bool) l : (forall x, f x = false) -> existsb f l = false.
Proof. intro H. induction l as [|a l IH]; cbn [existsb]; [reflexivity|]. rewrite H, IH. reflexivity. Qed.

Lemma sb_call_unwedged fixed s t k : unwedged s -> unwedged (sb_call fixed s t k).
Proof.
  intros [Hw Hs]. unfold sb_call. rewrite Hw. cbn [andb].
  destruct k as [? ? ?|c|c o v arg|c|c|]; unfold unwedged;
    repeat match goal with
           | |- context [match ?e with _ => _ end] => destruct e
           end; cbn; auto.
Qed.

Lemma sb_step_unwedged s st : unwedged s -> unwedged (fst (sb_step true s st)).
Proof.
  intros [Hw Hs]. unfold sb_step. cbn [fst].
  assert (Hc : unwedged (sb_clear s)) by (split; assumption).
  set (s0 := sb_clear s) in *. clearbody s0. clear Hw Hs s. destruct Hc as [Hw Hs].
  destruct st as [t k|p|p|p body|p h|p ok|until|tm]; cbn [sb_step_raw].
  - apply sb_call_unwedged. split; assumption.
  - rewrite Hw. split; assumption.
  - split; assumption.
  - destruct (negb (pipe_up (sb_pipes s0) p)); [split; assumption|]. rewrite Hw.
    unfold unwedged, sb_deliver. cbn [sb_flags sb_with sb_wedged sb_stuck]. rewrite Hw. cbn [orb]. split; [|exact Hs].
    apply existsb_false. intros [c x]. reflexivity.
  - split; assumption.
  - split; assumption.
  - destruct (expire_threads (sb_threads s0) until) as [[rest os] amb]. split; assumption.
  - split; assumption.
Qed.

Lemma fixed_never_wedges h : unwedged (sb_run true sb_init h).
Proof.
  assert (G : forall s, unwedged s -> unwedged (sb_run true s h)).
  { induction h as [|st r IH]; intros s Hs; [exact Hs|]. cbn [sb_run]. apply IH, sb_step_unwedged, Hs. }
  apply G. split; reflexivity.
Qed.

(* repaired, READQ-LEN 0: a matching message that finds no Recv parked is dropped: no observation, the context
   and the socket are as before (in particular every later call still takes the lock) *)
Lemma readqlen_zero_drops s p body c x :
  pipe_up (sb_pipes s) p = true -> sb_wedged s = false ->
  kget c (sb_ctxs s) = Some x -> x_qlen x = 0 -> blocked_on (sb_threads s) c = [] ->
  kget c (sb_ctxs (fst (sb_step true s (SDeliver p body)))) = Some x /\
  sb_wedged (fst (sb_step true s (SDeliver p body))) = false.
Proof.
  intros Hp Hw Hx Hq Hb. split.
  - rewrite deliver_local by assumption. rewrite Hx. unfold dl_ctx. rewrite Hb, Hq. cbn [N.ltb N.compare].
    rewrite andb_false_r. reflexivity.
  - unfold sb_step. cbn [fst sb_step_raw sb_clear sb_with sb_pipes sb_wedged sb_ctxs sb_threads].
    rewrite Hp, Hw. cbn [negb]. unfold sb_deliver. cbn [sb_flags sb_clear sb_with sb_wedged sb_ctxs sb_threads]. rewrite ?Hw. cbn [orb].
    apply existsb_false. intros [c' x']. reflexivity.
Qed.

(* the two as histories, judged by the blocked set / the oracles, for the code as found and as repaired *)
Definition wedge_history : list stim :=
  [ SCall 0 (CSetOpt 0 OTtl KSub []); SAddPipe 1;
    SCall 1 (CSetOpt 0 OSubscribe 0%Z []);
    SCall 2 (CSetOpt 0 OReadQLen 0%Z []);
    SDeliver 1 (mkb 1 97);
    SCall 3 (CRecv 0);                     (* as found: the message is there, yet this never returns *)
    SCall 4 CCloseSock ].                  (* as found: nor does this *)
Lemma wedge_history_old :
  map (fun r => snd r) (u_trace false U0 wedge_history) = [[]; []; []; []; []; [3]; [3; 4]].
Proof. vm_compute. reflexivity. Qed.
(* repaired: the message is dropped, Recv waits for the next one, Close returns and releases it *)
Lemma wedge_history_fixed :
  map (fun r => (snd (fst r), snd r)) (u_trace true U0 wedge_history) =
  [([], []); ([], []); ([ORet 1 ROk], []); ([ORet 2 ROk], []); ([], []); ([], [3]); ([ORet 3 (RErr EClosed); ORet 4 ROk], [])].
Proof. vm_compute. reflexivity. Qed.

Definition panic_history : list stim :=
  [ SCall 0 (CSetOpt 0 OTtl KSub []); SCall 1 (CSetOpt 0 OReadQLen (-1)%Z []) ].
Lemma panic_history_old : c06_panic_oracle (u_trace false U0 panic_history) = Some 1.
Proof. vm_compute. reflexivity. Qed.
Lemma panic_history_fixed : c06_panic_oracle (u_trace true U0 panic_history) = None.
Proof. vm_compute. reflexivity. Qed.

(* non-vacuity: a history on which every oracle is silent and things are delivered *)
Definition demo_history : list stim :=
  [ SCall 0 (CSetOpt 0 OTtl KSub []); SAddPipe 1; SCall 1 (COpenCtx 1);
    SCall 2 (CSetOpt 0 OSubscribe 0%Z (mkb 1 97)); SCall 3 (CSetOpt 1 OSubscribe 0%Z []);
    SDeliver 1 (mkb 2 24930); SDeliver 1 (mkb 1 98);
    SCall 4 (CSetOpt 1 OUnsubscribe 0%Z []); SCall 5 (CSetOpt 1 OSubscribe 0%Z (mkb 1 98));
    SCall 6 (CRecv 0); SCall 7 (CRecv 1); SDeliver 1 (mkb 2 25185) ].
Lemma demo_history_ok :
  c06_sub_oracle (u_trace true U0 demo_history) = None /\ c06_live_oracle (u_trace true U0 demo_history) = None /\
  flat_map (fun r => snd (fst r)) (u_trace true U0 demo_history) =
    [ORet 1 ROk; ORet 2 ROk; ORet 3 ROk; ORet 4 ROk; ORet 5 ROk; ORet 6 (RMsg [] (mkb 2 24930));
     ORet 7 (RMsg [] (mkb 2 25185))].
Proof. vm_compute. auto. Qed.
